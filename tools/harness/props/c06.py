"""C06 -- streaming reductions are independent of the gulp and equal their definitions.
Proof: Props/C06.v: read plan (Gen.Plan.fil_plan) o kernels (Gen.Kernels extract_tim / extract_bpass / dedisperse) o
per-call-site output offsets and lengths (Gen.BaseSites, regenerated from base.py), for all gulps and sub-ranges.
Correspondence: the composed Gallina pipelines under vm_compute vs Filterbank.collapse/bandpass/read_chan/dedisperse.
Oracle: direct NumPy definitions on samples [start, start+nsamps)."""
import os
import re
import shutil

import numpy as np

import filutil
import vlib

NCH = {1: 8, 2: 4, 4: 4, 8: 3, 32: 2}


def call(f, *a, **k):
    try:
        return ("ok", f(*a, **k))
    except Exception as e:  # noqa: BLE001
        return ("exc", f"{type(e).__name__}: {str(e)[:120]}")


def stats_bad(st, want, nsamps, nch, full):
    """names of the channel statistics that differ from the moments of the selected samples `want` (nsamps x nch)"""
    mu = want.mean(0); var = want.var(0)
    bad = []
    if not np.array_equal(st.moments["count"], np.full(nch, nsamps)): bad.append("count")
    if not np.array_equal(st.maxima, want.max(0)) or not np.array_equal(st.minima, want.min(0)): bad.append("minmax")
    if not np.allclose(st.mean, mu, rtol=1e-5, atol=1e-5): bad.append("mean")
    if not np.allclose(st.var, var, rtol=1e-4, atol=1e-4): bad.append("var")
    if full and nsamps >= 3:
        m2 = ((want - mu) ** 2).sum(0); m3 = ((want - mu) ** 3).sum(0); m4 = ((want - mu) ** 4).sum(0)
        ok = m2 > 1e-9
        sk = np.where(ok, np.sqrt(nsamps) * m3 / np.where(ok, m2, 1) ** 1.5, 0.0)
        ku = np.where(ok, nsamps * m4 / np.where(ok, m2, 1) ** 2 - 3.0, -3.0)
        if not np.allclose(st.skew, sk, rtol=1e-3, atol=1e-3): bad.append("skew")
        if not np.allclose(np.where(ok, st.kurtosis, -3.0), ku, rtol=1e-3, atol=1e-3): bad.append("kurtosis")
    return bad


def norm_delays(fil, dm):
    """the delay vector dedisperse works with: the dispersion law's delays (C09) referred to the earliest channel, so that all are >= 0.
    Returns (raw, normalised, maxdelay); atleast_1d so that the expectation stays computable whatever shape the helper hands back"""
    raw = np.atleast_1d(np.asarray(fil.header.get_dmdelays(dm))).astype(int)
    dn = raw - min(0, int(raw.min()))
    return raw, dn, int(dn.max())


def want_dedisp(want, dn, md):
    outlen = want.shape[0] - md
    out = np.zeros(outlen)
    for c in range(want.shape[1]):
        out += want[dn[c]:dn[c] + outlen, c]
    return out


def distinct_dms(fil, N, grid, most):
    """DMs of the grid giving pairwise distinct 0 < maxdelay < N (after normalisation), at most `most` of them, spread over the range"""
    seen, dms = set(), []
    for dm in grid:
        md = norm_delays(fil, float(dm))[2]
        if 0 < md < N and md not in seen:
            seen.add(md); dms.append(float(dm))
    if len(dms) > most:
        dms = [dms[int(round(i * (len(dms) - 1) / (most - 1)))] for i in range(most)]
    return dms


def default_gulp(R, fil, x, label, dm):
    """every reduction with `gulp` left to its default (what callers normally do), on the whole file and on a sub-range"""
    N, nch = x.shape
    for start, nsamps in ((0, None), (1, N - 2)):
        if nsamps is not None and nsamps < 1:
            continue
        ns = N - start if nsamps is None else nsamps
        want = x[start:start + ns].astype(np.float64)
        kw = {"start": start, "quiet": True}
        if nsamps is not None:
            kw["nsamps"] = nsamps
        base = {"nchans": nch, "N": N, "start": start, "nsamps": nsamps, "gulp": "default", "set": label}
        R.case(("default_gulp", label, start, nsamps), nontrivial=True, regime="default_gulp")
        k, r = call(fil.collapse, **kw)
        if k != "ok" or r.data.shape != (ns,) or not np.array_equal(r.data, want.sum(1)):
            R.fail("collapse-default-gulp", "collapse(gulp left to default) != sum over channels", dict(base, res=str(r)[:80]))
        k, r = call(fil.bandpass, **kw)
        if k != "ok" or r.data.shape != (nch,) or not np.allclose(r.data, want.mean(0), rtol=2e-6, atol=0):
            R.fail("bandpass-default-gulp", "bandpass(gulp left to default) != mean over time", dict(base, res=str(getattr(r, "data", r))[:80]))
        k, r = call(fil.read_chan, nch - 1, **kw)
        if k != "ok" or r.data.shape != (ns,) or not np.array_equal(r.data, want[:, nch - 1]):
            R.fail("read_chan-default-gulp", "read_chan(gulp left to default) != the channel's column", dict(base, res=str(r)[:80]))
        for mode, fn in (("full", fil.compute_stats), ("basic", fil.compute_stats_basic)):
            k, r = call(fn, **kw)
            bad = stats_bad(fil.chan_stats, want, ns, nch, mode == "full") if k == "ok" else ["exception"]
            if bad:
                R.fail("stats-default-gulp", "compute_stats(gulp left to default) differs from the moments of the selected samples", dict(base, mode=mode, wrong=bad, res=str(r)[:80]))
        raw, dn, md = norm_delays(fil, dm)
        if md < ns:
            k, r = call(fil.dedisperse, dm, **kw)
            wd = want_dedisp(want, dn, md)
            if k != "ok" or r.data.shape != (ns - md,) or not np.array_equal(r.data, wd):
                R.fail("dedisperse-default-gulp", "dedisperse(gulp left to default) != sum_c x[t+d_c][c]", dict(base, dm=dm, delays=dn.tolist(), res=str(r)[:80]))


def sweep(R, fil, x, nbits, label, dms, rng, splits, band):
    """every sub-range x gulps x the five reductions on one extra file set (single channel, ascending band, DM of either sign,
    negative sample values).  Failure keys: '<label>-<api>-<kind>'; dedisperse with negative law delays: '<label>-dedisperse-negdelay-<kind>'"""
    N, nch = x.shape
    for start in range(0, N):
        for nsamps in range(1, N - start + 1):
            want = x[start:start + nsamps].astype(np.float64)
            gulps = list(range(1, nsamps + 3)) if R.tier != "quick" else sorted(set([1, 2, max(1, nsamps - 1), nsamps, nsamps + 2]))
            bp0 = None
            for gulp in gulps:
                base = {"set": label, "nbits": nbits, "nchans": nch, "N": N, "splits": splits, "band": band, "start": start, "nsamps": nsamps, "gulp": gulp,
                        "data": x.tolist()}
                multi = gulp < nsamps
                R.case((label, "collapse", nbits, start, nsamps, gulp), nontrivial=multi, regime=label)
                k, r = call(fil.collapse, gulp=gulp, start=start, nsamps=nsamps, quiet=True)
                if k != "ok":
                    R.fail(f"{label}-collapse-exception", "collapse raised", dict(base, exc=r))
                elif r.data.shape != (nsamps,) or not np.array_equal(r.data, want.sum(1)):
                    R.fail(f"{label}-collapse-values", "collapse != sum over channels", dict(base, got=np.asarray(r.data).tolist()[:12]))
                R.case((label, "bandpass", nbits, start, nsamps, gulp), nontrivial=multi, regime=label)
                k, r = call(fil.bandpass, gulp=gulp, start=start, nsamps=nsamps, quiet=True)
                if k != "ok":
                    R.fail(f"{label}-bandpass-exception", "bandpass raised", dict(base, exc=r))
                elif r.data.shape != (nch,) or not np.allclose(r.data, want.mean(0), rtol=2e-6, atol=0):
                    R.fail(f"{label}-bandpass-values", "bandpass != mean over time", dict(base, got=np.asarray(r.data).tolist()))
                elif bp0 is None:
                    bp0 = (gulp, np.array(r.data, copy=True))
                elif not np.array_equal(r.data, bp0[1]):
                    R.fail(f"{label}-bandpass-gulp-dependent", "bandpass is not bit-identical for two gulps (exact sums, one division)",
                           dict(base, other_gulp=bp0[0], got=np.asarray(r.data).tolist(), other=bp0[1].tolist()))
                ich = int(rng.randrange(nch))
                R.case((label, "read_chan", nbits, start, nsamps, gulp, ich), nontrivial=multi, regime=label)
                k, r = call(fil.read_chan, ich, gulp=gulp, start=start, nsamps=nsamps, quiet=True)
                if k != "ok":
                    R.fail(f"{label}-read_chan-exception", "read_chan raised", dict(base, exc=r, ichan=ich))
                elif r.data.shape != (nsamps,) or not np.array_equal(r.data, want[:, ich]):
                    R.fail(f"{label}-read_chan-values", "read_chan != the channel's column of the selected samples", dict(base, ichan=ich, got_len=int(r.data.shape[0])))
                for mode, fn in (("full", fil.compute_stats), ("basic", fil.compute_stats_basic)):
                    R.case((label, "stats", mode, nbits, start, nsamps, gulp), nontrivial=multi, regime=label)
                    k, r = call(fn, gulp=gulp, start=start, nsamps=nsamps, quiet=True)
                    if k != "ok":
                        R.fail(f"{label}-stats-exception", "compute_stats raised", dict(base, exc=r, mode=mode)); continue
                    bad = stats_bad(fil.chan_stats, want, nsamps, nch, mode == "full")
                    if bad:
                        R.fail(f"{label}-stats-" + "+".join(bad), "channel statistics differ from the moments of the selected samples",
                               dict(base, mode=mode, wrong=bad, min_got=np.asarray(fil.chan_stats.minima).tolist(), max_got=np.asarray(fil.chan_stats.maxima).tolist()))
            for dm in dms:
                raw, dn, md = norm_delays(fil, dm)
                if md >= nsamps:
                    continue
                neg = "-negdelay" if int(raw.min()) < 0 else ""
                outlen = nsamps - md
                wantd = want_dedisp(want, dn, md)
                gl = set([1, 2, md + 1, 2 * md, 2 * md + 1, nsamps - 1, nsamps, nsamps + 2])
                if 2 * md + 2 < nsamps - 1:
                    gl.add(rng.randrange(2 * md + 2, nsamps - 1))
                for gulp in sorted(g for g in gl if g >= 1):
                    base = {"set": label, "nbits": nbits, "nchans": nch, "N": N, "splits": splits, "band": band, "start": start, "nsamps": nsamps, "gulp": gulp,
                            "dm": dm, "law_delays": raw.tolist(), "delays": dn.tolist(), "data": x.tolist()}
                    R.case((label, "dedisperse", nbits, start, nsamps, gulp, dm), nontrivial=md > 0 or nch == 1, regime=label + ("_negdelay" if neg else "_dedisperse"))
                    k, r = call(fil.dedisperse, dm, gulp=gulp, start=start, nsamps=nsamps, quiet=True)
                    if k != "ok":
                        R.fail(f"{label}-dedisperse{neg}-exception", "dedisperse raised", dict(base, exc=r))
                    elif r.data.shape != (outlen,) or not np.array_equal(r.data, wantd):
                        kind = "length" if r.data.shape != (outlen,) else "values"
                        R.fail(f"{label}-dedisperse{neg}-{kind}", "dedisperse != sum_c x[t+d_c][c] over t < nsamps-maxdelay (delays referred to the earliest channel)",
                               dict(base, got_len=int(r.data.shape[0]), want_len=outlen, got=np.asarray(r.data).tolist()[:12], want=wantd.tolist()[:12]))


def run(R: vlib.Run):
    from sigpyproc.readers import FilReader
    R.rule = ("synthetic 1..2-file sets at depths 1,2,4,8,32; every sub-range (start,nsamps) of N<=Nmax samples x every gulp 1..nsamps+2 "
              "for collapse/bandpass/read_chan/compute_stats(+basic), x DMs giving several max delays (incl. 2*maxdelay>nsamps, gulp<2*maxdelay) "
              "for dedisperse (+ one gulp strictly between 2*maxdelay+1 and nsamps-1); bandpass bit-identical across gulps; every reduction with the default gulp; "
              "extra sets swept the same way: one-channel files (8 and 32 bit), ascending band and DMs of either sign (law delays < 0, referred to the "
              "earliest channel), 32-bit samples of either sign and all negative; open-ended selections (nsamps=None) from every start incl. the last sample, "
              "both statistics modes; distinct = (api, depth, split, start, nsamps, gulp, dm); non-trivial = more than one block read")
    R.trusted += ["Coq 8.16.1 kernel + vm_compute", "tools/py2coq (kernels, read_plan arithmetic and base.py call sites regenerated each run)",
                  "hand glue 'for each yielded block call the kernel with these arguments' (Model/C06_pipe.v, C06_pipe_more.v), tied by the correspondence run "
                  "(collapse, bandpass, dedisperse, statistics, read_chan at 8 bits; collapse, bandpass, dedisperse, read_chan through the unpack kernels at 1/2/4 bits)",
                  "32-bit data: the theorems hold for every item width and every decoding of an item to an integer (C06_*_items); that numpy's float32 view is such a decoding is trusted",
                  "sample values are integers (float32 sums exact, as the property stipulates)"]
    R.assume += ["float32 accumulation is exact on the generated integer data", "read_plan delivers the blocks proved in C01 (composed theorem uses C01's plan facts)",
                 "depths are {1,2,4,8,32} as the property states: 16-bit files are outside it (the streaming kernels have no uint16 signature and raise TypeError)",
                 "the per-channel delays are those of Header.get_dmdelays (the dispersion law is C09's subject), referred to the earliest channel when any is negative"]
    R.prove("Props/C06.v")
    R.need(["Model/C06_pipe.vo"])
    rng = R.rng
    nprng = np.random.default_rng(R.seed + 6)
    d = os.path.join(vlib.SCRATCH, f"c06_{os.getpid()}")
    os.makedirs(d, exist_ok=True)
    corr = []
    corr2 = []     # read_chan (8 bit) and the packed pipelines (1/2/4 bit: plan o generated unpack kernels o reductions): Model/C06_pipe_more.v pipe_eval_more
    try:
        Nmax = 7 if R.tier == "quick" else 11
        for nbits in (1, 2, 4, 8, 32):
            for nf in (1, 2, 3) if nbits in (8, 32) else (1, 2):      # three files: the skip-back of dedisperse crosses two boundaries
                nch = NCH[nbits]
                N = Nmax if nbits in (8, 32) else Nmax - 1
                hi = 1 << min(nbits, 8)
                x = nprng.integers(0, hi, (N, nch))
                splits = [int(nprng.integers(1, N))] if nf == 2 else sorted(set(int(v) for v in nprng.choice(np.arange(1, N), 2, replace=False))) if nf == 3 else []
                # band chosen so that small DMs give delays of a few samples
                paths = filutil.write_fil_set(os.path.join(d, f"f{nbits}_{nf}"), x, nbits, splits, fch1=400.0, foff=-20.0, tsamp=0.001, vary_header=(nf == 3))
                fil = FilReader(paths)
                packed = None
                if nbits in (1, 2, 4):      # the data bytes as they are on disk (all files of the set, in order) and the bit order the reader unpacks with
                    from sigpyproc.io import bits as _bits
                    bounds = [0] + list(splits) + [N]
                    rawb = b"".join(open(p_, "rb").read()[-((bounds[i_ + 1] - bounds[i_]) * nch * nbits // 8):] for i_, p_ in enumerate(paths))
                    packed = (list(rawb), _bits.BitsInfo(nbits).bitorder[0] == "b")
                dms = [0.0]
                seen = {0}
                for dm in np.linspace(0.02, 1.2, 40):
                    md = int(fil.header.get_dmdelays(float(dm)).max())
                    if md not in seen and md < N:
                        seen.add(md); dms.append(float(dm))
                default_gulp(R, fil, x, f"{nbits}bit_{nf}", dms[min(2, len(dms) - 1)])
                for start in range(0, N):
                    for nsamps in range(1, N - start + 1):
                        want = x[start:start + nsamps].astype(np.float64)
                        sub = not (start == 0 and nsamps == N)
                        tag = "sub" if sub else "full"
                        gulps = list(range(1, nsamps + 3))
                        if R.tier == "quick" and nbits not in (8,):
                            gulps = sorted(set([1, 2, max(1, nsamps - 1), nsamps, nsamps + 2]))
                        bp0 = None
                        for gulp in gulps:
                            base = {"nbits": nbits, "nchans": nch, "N": N, "splits": splits, "start": start, "nsamps": nsamps, "gulp": gulp}
                            multi = gulp < nsamps
                            # collapse
                            R.case(("collapse", nbits, nf, start, nsamps, gulp), nontrivial=multi, regime="collapse")
                            k, r = call(fil.collapse, gulp=gulp, start=start, nsamps=nsamps, quiet=True)
                            if k != "ok":
                                R.fail(f"collapse-{tag}-exception", "collapse raised", dict(base, exc=r))
                            elif r.data.shape != (nsamps,) or not np.array_equal(r.data, want.sum(1)):
                                R.fail(f"collapse-{tag}-values", "collapse != sum over channels", dict(base, got=np.asarray(r.data).tolist()[:12]))
                            if k == "ok" and nbits == 8:
                                corr.append(("collapse", x, splits, gulp, start, nsamps, 0, [], np.asarray(r.data).astype(np.int64).tolist()))
                            if k == "ok" and packed:
                                corr2.append((5, packed, nch, N, nbits, gulp, start, nsamps, 0, [], np.asarray(r.data).astype(np.int64).tolist()))
                            # bandpass
                            R.case(("bandpass", nbits, nf, start, nsamps, gulp), nontrivial=multi, regime="bandpass")
                            k, r = call(fil.bandpass, gulp=gulp, start=start, nsamps=nsamps, quiet=True)
                            if k != "ok":
                                R.fail(f"bandpass-{tag}-exception", "bandpass raised", dict(base, exc=r))
                            elif r.data.shape != (nch,) or not np.allclose(r.data, want.mean(0), rtol=2e-6, atol=0):
                                R.fail(f"bandpass-{tag}-values", "bandpass != mean over time", dict(base, got=np.asarray(r.data).tolist()))
                            elif bp0 is None:
                                bp0 = (gulp, np.array(r.data, copy=True))
                            elif not np.array_equal(r.data, bp0[1]):   # exact float32 sums and one division: changing only the gulp changes no bit
                                R.fail(f"bandpass-{tag}-gulp-dependent", "bandpass is not bit-identical for two gulps",
                                       dict(base, other_gulp=bp0[0], got=np.asarray(r.data).tolist(), other=bp0[1].tolist()))
                            if k == "ok" and nbits == 8:
                                corr.append(("bandpass", x, splits, gulp, start, nsamps, 0, [], np.rint(np.asarray(r.data, dtype=np.float64) * nsamps).astype(np.int64).tolist()))
                            if k == "ok" and packed:
                                corr2.append((8, packed, nch, N, nbits, gulp, start, nsamps, 0, [], np.rint(np.asarray(r.data, dtype=np.float64) * nsamps).astype(np.int64).tolist() + [nsamps]))
                            # read_chan
                            ich = int(rng.randrange(nch))
                            R.case(("read_chan", nbits, nf, start, nsamps, gulp, ich), nontrivial=multi, regime="read_chan")
                            k, r = call(fil.read_chan, ich, gulp=gulp, start=start, nsamps=nsamps, quiet=True)
                            if k != "ok":
                                R.fail(f"read_chan-{tag}-exception", "read_chan raised", dict(base, exc=r, ichan=ich))
                            elif r.data.shape != (nsamps,) or not np.array_equal(r.data, want[:, ich]):
                                R.fail(f"read_chan-{tag}-values", "read_chan != the channel's column of the selected samples",
                                       dict(base, ichan=ich, got_len=int(r.data.shape[0])))
                            if k == "ok" and nbits == 8:
                                corr2.append((4, (x.ravel().tolist(), False), nch, N, 8, gulp, start, nsamps, ich, [], np.asarray(r.data).astype(np.int64).tolist()))
                            if k == "ok" and packed:
                                corr2.append((7, packed, nch, N, nbits, gulp, start, nsamps, ich, [], np.asarray(r.data).astype(np.int64).tolist()))
                            # statistics
                            for mode, fn in (("full", fil.compute_stats), ("basic", fil.compute_stats_basic)):
                                R.case(("stats", mode, nbits, nf, start, nsamps, gulp), nontrivial=multi, regime="stats_" + mode)
                                k, r = call(fn, gulp=gulp, start=start, nsamps=nsamps, quiet=True)
                                if k != "ok":
                                    R.fail(f"stats-{tag}-exception", "compute_stats raised", dict(base, exc=r, mode=mode)); continue
                                st = fil.chan_stats
                                mu = want.mean(0); var = want.var(0)
                                if nbits == 8 and mode == "full":
                                    cc = int(rng.randrange(nch))
                                    corr.append(("stats", x, splits, gulp, start, nsamps, cc, [],
                                                 [int(st.moments["count"][cc]), int(st.minima[cc]), int(st.maxima[cc]), int(round(float(st.mean[cc]) * nsamps))]))
                                bad = []
                                if not np.array_equal(st.moments["count"], np.full(nch, nsamps)): bad.append("count")
                                if not np.array_equal(st.maxima, want.max(0)) or not np.array_equal(st.minima, want.min(0)): bad.append("minmax")
                                if not np.allclose(st.mean, mu, rtol=1e-5, atol=1e-5): bad.append("mean")
                                if not np.allclose(st.var, var, rtol=1e-4, atol=1e-4): bad.append("var")
                                if mode == "full" and nsamps >= 3:
                                    m2 = ((want - mu) ** 2).sum(0); m3 = ((want - mu) ** 3).sum(0); m4 = ((want - mu) ** 4).sum(0)
                                    ok = m2 > 1e-9
                                    sk = np.where(ok, np.sqrt(nsamps) * m3 / np.where(ok, m2, 1) ** 1.5, 0.0)
                                    ku = np.where(ok, nsamps * m4 / np.where(ok, m2, 1) ** 2 - 3.0, -3.0)
                                    if not np.allclose(st.skew, sk, rtol=1e-3, atol=1e-3): bad.append("skew")
                                    if not np.allclose(np.where(ok, st.kurtosis, -3.0), ku, rtol=1e-3, atol=1e-3): bad.append("kurtosis")
                                if bad:
                                    R.fail(f"stats-{tag}-" + "+".join(bad), "channel statistics differ from the moments of the selected samples",
                                           dict(base, mode=mode, wrong=bad, var_got=np.asarray(st.var).tolist(), var_want=var.tolist()))
                        # dedisperse: fewer gulps, several DMs
                        for dm in dms:
                            delays = fil.header.get_dmdelays(dm).astype(int)
                            md = int(delays.max())
                            if md >= nsamps:
                                continue
                            outlen = nsamps - md
                            wantd = np.zeros(outlen)
                            for c in range(nch):
                                wantd += want[delays[c]:delays[c] + outlen, c]
                            dgulps = set([1, 2, md + 1, 2 * md, 2 * md + 1, nsamps - 1, nsamps, nsamps + 2])
                            if 2 * md + 2 < nsamps - 1:      # a gulp the library does not raise, several blocks advancing by more than maxdelay+1, partial last block
                                dgulps.add(rng.randrange(2 * md + 2, nsamps - 1))
                                if R.tier != "quick":
                                    dgulps.add(rng.randrange(2 * md + 2, nsamps - 1))
                            for gulp in sorted(dgulps):
                                if gulp < 1:
                                    continue
                                base = {"nbits": nbits, "nchans": nch, "N": N, "splits": splits, "start": start, "nsamps": nsamps, "gulp": gulp, "dm": dm,
                                        "delays": delays.tolist()}
                                R.case(("dedisperse", nbits, nf, start, nsamps, gulp, md), nontrivial=md > 0, regime="dedisperse_md%d" % min(md, 3),
                                       sample=base if (start, nsamps, gulp, md) == (1, 5, 3, 2) else None)
                                k, r = call(fil.dedisperse, dm, gulp=gulp, start=start, nsamps=nsamps, quiet=True)
                                if k != "ok":
                                    R.fail(f"dedisperse-{tag}-exception", "dedisperse raised", dict(base, exc=r))
                                elif r.data.shape != (outlen,) or not np.array_equal(r.data, wantd):
                                    kind = "length" if r.data.shape != (outlen,) else "values"
                                    R.fail(f"dedisperse-{tag}-{kind}", "dedisperse != sum_c x[t+d_c][c] over t < nsamps-maxdelay",
                                           dict(base, got_len=int(r.data.shape[0]), want_len=outlen, got=np.asarray(r.data).tolist()[:12], want=wantd.tolist()[:12]))
                                if k == "ok" and nbits == 8:
                                    corr.append(("dedisperse", x, splits, gulp, start, nsamps, md, delays.tolist(), np.asarray(r.data).astype(np.int64).tolist()))
                                if k == "ok" and packed:
                                    corr2.append((6, packed, nch, N, nbits, gulp, start, nsamps, md, delays.tolist(), np.asarray(r.data).astype(np.int64).tolist()))
        # ---- open-ended selections: nsamps left to its default (None) with start > 0 ------------------------
        for nbits in (8, 32, 2):
            nch = NCH[nbits]; N = Nmax
            x = nprng.integers(0, 1 << min(nbits, 8), (N, nch))
            paths = filutil.write_fil_set(os.path.join(d, f"o{nbits}"), x, nbits, [N // 2], fch1=400.0, foff=-20.0, tsamp=0.001)
            fil = FilReader(paths)
            dm1 = next((float(v) for v in np.linspace(0.02, 1.2, 40) if 0 < int(fil.header.get_dmdelays(float(v)).max()) < 3), 0.0)
            dm2 = next((float(v) for v in np.linspace(0.02, 1.2, 40) if 3 <= int(fil.header.get_dmdelays(float(v)).max()) < N - 1), None)
            for start in range(0, N):
                want = x[start:].astype(np.float64); ns = N - start
                for gulp in sorted(set([1, 2, max(1, ns - 1), ns + 2])):
                    base = {"nbits": nbits, "nchans": nch, "N": N, "start": start, "nsamps": None, "gulp": gulp}
                    R.case(("open", nbits, start, gulp), nontrivial=start > 0, regime="open_ended")
                    k, r = call(fil.collapse, gulp=gulp, start=start, quiet=True)
                    if k != "ok" or r.data.shape != (ns,) or not np.array_equal(r.data, want.sum(1)):
                        R.fail("collapse-open-ended", "collapse(start>0, nsamps=None) != sum over channels of samples [start, N)", dict(base, res=str(r)[:80]))
                    k, r = call(fil.bandpass, gulp=gulp, start=start, quiet=True)
                    if k != "ok" or r.data.shape != (nch,) or not np.allclose(r.data, want.mean(0), rtol=2e-6, atol=0):
                        R.fail("bandpass-open-ended", "bandpass(start>0, nsamps=None) != mean over time of samples [start, N)", dict(base, res=str(getattr(r, "data", r))[:80], want=want.mean(0).tolist()))
                    k, r = call(fil.read_chan, 1 % nch, gulp=gulp, start=start, quiet=True)
                    if k != "ok" or r.data.shape != (ns,) or not np.array_equal(r.data, want[:, 1 % nch]):
                        R.fail("read_chan-open-ended", "read_chan(start>0, nsamps=None) != the channel's column of samples [start, N)", dict(base, res=str(r)[:80]))
                    k, r = call(fil.compute_stats, gulp=gulp, start=start, quiet=True)
                    if k != "ok" or not np.allclose(fil.chan_stats.var, want.var(0), rtol=1e-4, atol=1e-4) or not np.array_equal(fil.chan_stats.moments["count"], np.full(nch, ns)):
                        R.fail("stats-open-ended", "compute_stats(start>0, nsamps=None) differs from the moments of samples [start, N)", dict(base, res=str(r)[:80]))
                    for mode, fn in (("full", fil.compute_stats), ("basic", fil.compute_stats_basic)):
                        k, r = call(fn, gulp=gulp, start=start, quiet=True)
                        bad = stats_bad(fil.chan_stats, want, ns, nch, mode == "full") if k == "ok" else ["exception"]
                        if bad:
                            R.fail("stats-open-ended", "compute_stats(_basic)(start, nsamps=None) differs from the moments of samples [start, N)",
                                   dict(base, mode=mode, wrong=bad, res=str(r)[:80]))
                    if dm2 is not None:
                        delays2 = fil.header.get_dmdelays(dm2).astype(int); md2 = int(delays2.max())
                        if md2 < ns:
                            k, r = call(fil.dedisperse, dm2, gulp=gulp, start=start, quiet=True)
                            wd2 = sum(want[delays2[c]:delays2[c] + ns - md2, c] for c in range(nch))
                            if k != "ok" or r.data.shape != (ns - md2,) or not np.array_equal(r.data, wd2):
                                R.fail("dedisperse-open-ended", "dedisperse(start>0, nsamps=None) != sum_c x[t+d_c][c] over samples [start, N)", dict(base, dm=dm2, res=str(r)[:80]))
                    delays = fil.header.get_dmdelays(dm1).astype(int); md = int(delays.max())
                    if md < ns:
                        k, r = call(fil.dedisperse, dm1, gulp=gulp, start=start, quiet=True)
                        wd = sum(want[delays[c]:delays[c] + ns - md, c] for c in range(nch))
                        if k != "ok" or r.data.shape != (ns - md,) or not np.array_equal(r.data, wd):
                            R.fail("dedisperse-open-ended", "dedisperse(start>0, nsamps=None) != sum_c x[t+d_c][c] over samples [start, N)", dict(base, dm=dm1, res=str(r)[:80]))
        # ---- extra sets: one channel, ascending band / DM of either sign, 32-bit samples of either sign ----------------
        Ns = 6 if R.tier == "quick" else 9
        grid = np.linspace(0.02, 1.2, 40)
        DESC, ASC = (400.0, -20.0), (260.0, 20.0)
        extra = [  # label, nbits, nch, files, (lo, hi) of the sample values, band, signs of the DMs
            ("nch1", 8, 1, 2, (0, 256), DESC, (1,)),
            ("nch1", 32, 1, 1, (-128, 128), ASC, (1, -1)),
            ("ascband", 8, 4, 3, (0, 256), ASC, (1, -1)),
            ("neg32", 32, 3, 2, (-128, 128), DESC, (1, -1)),
            ("neg32", 32, 2, 1, (-200, 0), DESC, (1,)),
        ]
        for label, nbits, nch, nf, (lo, hi), band, signs in extra:
            x = nprng.integers(lo, hi, (Ns, nch))
            splits = sorted(set(int(v) for v in nprng.choice(np.arange(1, Ns), nf - 1, replace=False))) if nf > 1 else []
            paths = filutil.write_fil_set(os.path.join(d, f"e{label}{nbits}_{nch}"), x, nbits, splits, fch1=band[0], foff=band[1], tsamp=0.001, vary_header=(nf == 3))
            fil = FilReader(paths)
            if nch == 1:
                dms = [0.0] + [0.5 * s for s in signs]        # one channel: the delay vector is [0] for every DM
            else:
                dms = [0.0] + [dm for s in signs for dm in distinct_dms(fil, Ns, s * grid, 3 if R.tier == "quick" else 6)]
            default_gulp(R, fil, x, f"{label}{nbits}", dms[-1])
            sweep(R, fil, x, nbits, label, dms, rng, splits, band)
        # ---- correspondence --------------------------------------------------------------------
        rng.shuffle(corr)
        corr = corr[: (600 if R.tier == "quick" else 3000)]
        per = 300
        for si in range(0, len(corr), per):
            sh = corr[si:si + per]
            rows = []
            for api, x, splits, gulp, start, nsamps, md, delays, out in sh:
                code = {"collapse": 0, "bandpass": 1, "dedisperse": 2, "stats": 3}[api]
                rows.append(f"({code}, {vlib.zlist(x.ravel())}, {x.shape[1]}, {x.shape[0]}, ({gulp}, {start}, {nsamps}), ({md}, {vlib.zlist(delays)}), {vlib.zlist(out)})")
            v = ["From Coq Require Import ZArith List Bool.", "Require Import SPP.Base.Rt SPP.Model.C06_pipe.", "Import ListNotations.", "Open Scope Z_scope.",
                 "Definition cases : list (Z * list Z * Z * Z * (Z * Z * Z) * (Z * list Z) * list Z) := [", ";\n".join(rows), "].",
                 "Definition ok (c : Z * list Z * Z * Z * (Z * Z * Z) * (Z * list Z) * list Z) : bool :=",
                 "  let '(api, xs, nch, N, (gulp, start, nsamps), (md, dl), out) := c in",
                 "  list_eqb (pipe_eval api xs nch N gulp start nsamps md (of_list dl)) out.",
                 "Definition idx := map fst (filter (fun p => negb (ok (snd p))) (combine (seq 0 (length cases)) cases)).",
                 "Eval vm_compute in (length cases, idx)."]
            rc, outp = vlib.coq_run(f"c06_{si // per}", "\n".join(v), timeout=600)
            vals = vlib.parse_eval(outp)
            if rc != 0 or not vals:
                R.red.append("correspondence: Corr/c06 did not evaluate: " + outp[-400:])
                continue
            nums = [int(z) for z in re.findall(r"(\d+)%nat", vals[0])]
            R.extra_cov["traces_validated_against_impl"] = R.extra_cov.get("traces_validated_against_impl", 0) + (nums[0] if nums else 0)
            for bi in nums[1:4]:
                api, x, splits, gulp, start, nsamps, md, delays, out = sh[bi]
                R.disagree("composed Gallina pipeline and Filterbank." + api + " differ",
                           {"api": api, "x": x.tolist(), "gulp": gulp, "start": start, "nsamps": nsamps, "delays": delays, "impl": out})
        # ---- correspondence, part 2: read_chan and the packed pipelines (Model/C06_pipe_more.v) ----------------
        R.need(["Model/C06_pipe_more.vo"])
        rng.shuffle(corr2)
        by_api = {}
        for c2 in corr2:
            by_api.setdefault(c2[0], []).append(c2)
        quota = 80 if R.tier == "quick" else 500
        corr2 = [c2 for a in sorted(by_api) for c2 in by_api[a][:quota]]
        names = {4: "read_chan", 5: "collapse (packed)", 6: "dedisperse (packed)", 7: "read_chan (packed)", 8: "bandpass (packed)"}
        per2 = 250
        for si in range(0, len(corr2), per2):
            sh = corr2[si:si + per2]
            rows = []
            for api, (xs, big), nch, N, nbits, gulp, start, nsamps, md, delays, out in sh:
                rows.append(f"({api}, {vlib.zlist(xs)}, ({nch}, {N}, {nbits}, {'true' if big else 'false'}), ({gulp}, {start}, {nsamps}), ({md}, {vlib.zlist(delays)}), {vlib.zlist(out)})")
            v = ["From Coq Require Import ZArith List Bool.", "Require Import SPP.Base.Rt SPP.Model.C06_pipe_more.", "Import ListNotations.", "Open Scope Z_scope.",
                 "Definition cases : list (Z * list Z * (Z * Z * Z * bool) * (Z * Z * Z) * (Z * list Z) * list Z) := [", ";\n".join(rows), "].",
                 "Definition ok (c : Z * list Z * (Z * Z * Z * bool) * (Z * Z * Z) * (Z * list Z) * list Z) : bool :=",
                 "  let '(api, xs, (nch, N, nbits, big), (gulp, start, nsamps), (md, dl), out) := c in",
                 "  list_eqb (pipe_eval_more api xs nch N nbits big gulp start nsamps md (of_list dl)) out.",
                 "Definition idx := map fst (filter (fun p => negb (ok (snd p))) (combine (seq 0 (length cases)) cases)).",
                 "Eval vm_compute in (length cases, idx)."]
            rc, outp = vlib.coq_run(f"c06m_{si // per2}", "\n".join(v), timeout=600)
            vals = vlib.parse_eval(outp)
            if rc != 0 or not vals:
                R.red.append("correspondence: Corr/c06m did not evaluate: " + outp[-400:])
                continue
            nums = [int(z) for z in re.findall(r"(\d+)%nat", vals[0])]
            R.extra_cov["traces_validated_against_impl"] = R.extra_cov.get("traces_validated_against_impl", 0) + (nums[0] if nums else 0)
            R.extra_cov["packed_and_read_chan_pipelines_validated"] = R.extra_cov.get("packed_and_read_chan_pipelines_validated", 0) + (nums[0] if nums else 0)
            for bi in nums[1:4]:
                api, (xs, big), nch, N, nbits, gulp, start, nsamps, md, delays, out = sh[bi]
                R.disagree("composed Gallina pipeline and Filterbank." + names[api] + " differ",
                           {"api": names[api], "nbits": nbits, "nchans": nch, "N": N, "data_bytes": xs, "big_endian_bits": big, "gulp": gulp, "start": start,
                            "nsamps": nsamps, "ichan_or_maxdelay": md, "delays": delays, "impl": out})
    finally:
        shutil.rmtree(d, ignore_errors=True)


def scale(R: vlib.Run):
    """at-scale search: tens of thousands of samples (beyond the default gulp of 16384), many blocks, large sums"""
    from sigpyproc.readers import FilReader
    nprng = np.random.default_rng(R.seed + 606)
    d = os.path.join(vlib.SCRATCH, f"c06s_{os.getpid()}")
    os.makedirs(d, exist_ok=True)
    try:
        # the last two sets: ascending band (law delays < 0, referred to the earliest channel) and a single channel
        for nbits, nch, N, splits, asc in ((8, 4, 70000, [40000], 0), (2, 8, 50000, [], 0), (32, 2, 40000, [16384], 0), (8, 1024, 20000, [], 0),
                                           (8, 4, 40000, [25000], 1), (8, 1, 40000, [], 0)):
            x = nprng.integers(0, min(1 << nbits, 64), (N, nch), dtype=np.uint8)   # every float32 sum stays below 2**24: exact
            paths = filutil.write_fil_set(os.path.join(d, f"s{nbits}_{nch}_{asc}"), x, nbits, splits, fch1=200.0 + 200.0 / nch if asc else 400.0,
                                          foff=200.0 / nch if asc else -200.0 / nch, tsamp=0.001)
            fil = FilReader(paths)
            dm = next((float(v) for v in np.linspace(0.5, 400, 200) if 1000 < norm_delays(fil, float(v))[2] < 3000), 1.0)
            raw_delays, delays, md = norm_delays(fil, dm)
            for start, nsamps in ((0, N), (1234, N - 5000), (N - 17000, 17000)):
                want = x[start:start + nsamps].astype(np.float64)
                tim = want.sum(1); bp = want.mean(0)
                outlen = nsamps - md
                wantd = np.zeros(outlen)
                for c in range(nch):
                    wantd += want[delays[c]:delays[c] + outlen, c]
                for gulp in (16384, 1000, 20000, 65536, 4097):
                    base = {"nbits": nbits, "nchans": nch, "N": N, "splits": splits, "ascending_band": asc, "start": start, "nsamps": nsamps, "gulp": gulp,
                            "data": f"numpy.random.default_rng({R.seed + 606}) stream, see props/c06.py scale()"}
                    R.tick(base)
                    R.case(("scale", nbits, nch, asc, start, nsamps, gulp), regime="scale")
                    k, r = call(fil.collapse, gulp=gulp, start=start, nsamps=nsamps, quiet=True)
                    if k != "ok" or r.data.shape != tim.shape or not np.array_equal(r.data, tim):
                        R.fail("scale-collapse", "collapse at scale differs from the per-sample channel sums", dict(base, exc=r if k != "ok" else None))
                    k, r = call(fil.bandpass, gulp=gulp, start=start, nsamps=nsamps, quiet=True)
                    if k != "ok" or r.data.shape != bp.shape or not np.allclose(r.data, bp, rtol=1e-5, atol=1e-5):
                        R.fail("scale-bandpass", "bandpass at scale differs from the per-channel means", dict(base, exc=r if k != "ok" else None))
                    ich = (gulp + start) % nch
                    k, r = call(fil.read_chan, ich, gulp=gulp, start=start, nsamps=nsamps, quiet=True)
                    if k != "ok" or r.data.shape != (nsamps,) or not np.array_equal(r.data, want[:, ich]):
                        R.fail("scale-read_chan", "read_chan at scale differs from the channel's column", dict(base, ichan=ich, exc=r if k != "ok" else None))
                    k, r = call(fil.dedisperse, dm, gulp=gulp, start=start, nsamps=nsamps, quiet=True)
                    if k != "ok" or r.data.shape != (outlen,) or not np.array_equal(r.data, wantd):
                        R.fail("scale-dedisperse", "dedisperse at scale differs from sum_c x[t+d_c][c]", dict(base, dm=dm, maxdelay=md, exc=r if k != "ok" else None))
                    if gulp == 4097:      # the default gulp (argument omitted): more than one block at this size
                        R.case(("scale-default", nbits, nch, asc, start, nsamps), regime="scale")
                        dbase = dict(base, gulp="default")
                        k, r = call(fil.collapse, start=start, nsamps=nsamps, quiet=True)
                        if k != "ok" or r.data.shape != tim.shape or not np.array_equal(r.data, tim):
                            R.fail("scale-default-gulp", "collapse at scale with the default gulp differs from the per-sample channel sums", dict(dbase, api="collapse", exc=r if k != "ok" else None))
                        k, r = call(fil.bandpass, start=start, nsamps=nsamps, quiet=True)
                        if k != "ok" or r.data.shape != bp.shape or not np.allclose(r.data, bp, rtol=1e-5, atol=1e-5):
                            R.fail("scale-default-gulp", "bandpass at scale with the default gulp differs from the per-channel means", dict(dbase, api="bandpass", exc=r if k != "ok" else None))
                        k, r = call(fil.read_chan, ich, start=start, nsamps=nsamps, quiet=True)
                        if k != "ok" or r.data.shape != (nsamps,) or not np.array_equal(r.data, want[:, ich]):
                            R.fail("scale-default-gulp", "read_chan at scale with the default gulp differs from the channel's column", dict(dbase, api="read_chan", ichan=ich, exc=r if k != "ok" else None))
                        k, r = call(fil.dedisperse, dm, start=start, nsamps=nsamps, quiet=True)
                        if k != "ok" or r.data.shape != (outlen,) or not np.array_equal(r.data, wantd):
                            R.fail("scale-default-gulp", "dedisperse at scale with the default gulp differs from sum_c x[t+d_c][c]", dict(dbase, api="dedisperse", dm=dm, maxdelay=md, exc=r if k != "ok" else None))
                        if nch <= 8:
                            k, r = call(fil.compute_stats_basic, start=start, nsamps=nsamps, quiet=True)
                            st = fil.chan_stats if k == "ok" else None
                            if (k != "ok" or not np.array_equal(st.moments["count"], np.full(nch, nsamps)) or not np.array_equal(st.maxima, want.max(0))
                                    or not np.array_equal(st.minima, want.min(0)) or not np.allclose(st.mean, want.mean(0), rtol=1e-4, atol=1e-4)
                                    or not np.allclose(st.var, want.var(0), rtol=1e-3, atol=1e-3)):
                                R.fail("scale-default-gulp", "compute_stats_basic at scale with the default gulp differs from the moments of the selected samples", dict(dbase, api="compute_stats_basic", exc=r if k != "ok" else None))
                    if nch <= 8 and gulp in (16384, 4097):
                        k, r = call(fil.compute_stats, gulp=gulp, start=start, nsamps=nsamps, quiet=True)
                        st = fil.chan_stats if k == "ok" else None
                        if (k != "ok" or not np.array_equal(st.moments["count"], np.full(nch, nsamps)) or not np.array_equal(st.maxima, want.max(0))
                                or not np.array_equal(st.minima, want.min(0)) or not np.allclose(st.mean, want.mean(0), rtol=1e-4, atol=1e-4)
                                or not np.allclose(st.var, want.var(0), rtol=1e-3, atol=1e-3)):
                            R.fail("scale-stats", "channel statistics at scale differ from the moments of the selected samples", dict(base, exc=r if k != "ok" else None))
            del fil
            for p in paths:
                os.remove(p)
    finally:
        shutil.rmtree(d, ignore_errors=True)
