"""C17 -- re-tuning a folded cube (FoldedData.update_dm / update_period) depends only on the targets.

Proof: Props/C17.v over Model/C17_FoldedCube.v instantiated with the references regenerated from
sigpyproc/foldedcube.py (Gen/FoldRefs.v, tools/py2coq/gen_c17.py).
Correspondence: the Gallina state machine under vm_compute (delay functions = tables of what
params.compute_dmdelays / the period-drift formula return for exactly the arguments the model passes) versus the
implementation on the same cubes and histories: final cube, reported dm/period, _fph_shifts/_tph_shifts, exceptions.
Oracle: the property in plain NumPy against the implementation: every history must end in a fresh cube rotated once."""
import itertools
import re
from concurrent.futures import ThreadPoolExecutor
from fractions import Fraction

import numpy as np

import vlib

MAX_PER_KEY = 3
CHUNK = 100     # cases per Coq definition (type-checking one huge list literal is super-linear)


# ---------------------------------------------------------------------------------------------------------
class World:
    def __init__(self, name, hdrp, shape, dm0, p0, cube0, dms, ps):
        from sigpyproc.header import Header
        self.name, self.hdrp, self.shape = name, hdrp, tuple(int(x) for x in shape)
        self.dm0, self.p0 = float(dm0), float(p0)
        self.cube0 = np.asarray(cube0, dtype=np.float32).reshape(self.shape)
        self.dms, self.ps = [float(x) for x in dms], [float(x) for x in ps]
        self.hdr = Header(filename="c17.fil", data_type="filterbank", nchans=hdrp["nchans"], foff=hdrp["foff"],
                          fch1=hdrp["fch1"], nbits=8, tsamp=hdrp["tsamp"], tstart=50000.0, nsamples=hdrp["nsamples"])
        self._exp = {}

    def describe(self):
        return {"world": self.name, "header": self.hdrp, "shape": list(self.shape), "dm_fold": self.dm0, "period_fold": self.p0,
                "cube0": [int(x) for x in self.cube0.ravel()]}

    def fresh(self):
        from sigpyproc.foldedcube import FoldedData
        return FoldedData(self.cube0.copy(), self.hdr, self.p0, self.dm0)


def run_impl(W, ops):
    """apply a history to a fresh cube; returns (object, None) or (object, (index of failing op, exception name))"""
    c = W.fresh()
    for k, (kind, v) in enumerate(ops):
        try:
            (c.update_dm if kind == "dm" else c.update_period)(v)
        except Exception as e:  # noqa: BLE001
            return c, (k, type(e).__name__, str(e)[:80])
    return c, None


def finals(W, ops):
    d, p = W.dm0, W.p0
    for kind, v in ops:
        if kind == "dm":
            d = v
        else:
            p = v
    return d, p


# ---- the property restated -------------------------------------------------------------------------------
def dm_table_value(W, delta, period):
    """what the dispersion law gives for a DM difference `delta`, bin width period/nbins: delay of each sub-band in bins"""
    from sigpyproc import params
    ni, nb, nbin = W.shape
    h = W.hdr
    chan_width = h.foff * h.nchans / nb
    freqs = np.arange(nb, dtype=np.float64) * chan_width + h.fch1
    return [int(x) for x in np.atleast_1d(params.compute_dmdelays(freqs, delta, period / nbin, h.fch1, in_samples=True))]


def dbins_of(W, newp, r1, r2):
    return (newp / r1 - 1) * W.hdr.tobs * W.shape[2] / r2


def p_table_value(W, dbins):
    ni = W.shape[0]
    return [int(x) for x in np.round(np.arange(ni, dtype=np.float32) / (ni / dbins)).astype(np.int32)]


def implied_shifts(W, d, p):
    """shift of every sub-band implied by DM d and of every sub-integration implied by period p, relative to the folding values"""
    ni, nb, nbin = W.shape
    sd = [0] * nb if d - W.dm0 == 0 else dm_table_value(W, d - W.dm0, W.p0)
    db = dbins_of(W, p, W.p0, W.p0)
    sp = [0] * ni if db == 0 else p_table_value(W, db)
    return sd, sp


def law_cube(W, d, p):
    sd, sp = implied_shifts(W, d, p)
    out = np.empty_like(W.cube0)
    for i in range(W.shape[0]):
        for b in range(W.shape[1]):
            out[i, b] = np.roll(W.cube0[i, b], -(sd[b] + sp[i]))
    return out


def biteq(a, b):
    a, b = np.ascontiguousarray(a), np.ascontiguousarray(b)
    return a.shape == b.shape and a.dtype == b.dtype and np.array_equal(a.view(np.uint32), b.view(np.uint32))


def ilist(a):
    return [int(x) for x in np.asarray(a).ravel()]


# ---------------------------------------------------------------------------------------------------------
class Oracle:
    def __init__(self, R):
        self.R = R
        self.count = {}

    def fail(self, key, what, case):
        self.count[key] = self.count.get(key, 0) + 1
        if self.count[key] <= MAX_PER_KEY:
            self.R.fail(key, what, case)

    def expected(self, W, d, p):
        """a fresh cube rotated once (first DM update, then first period update), cross-checked against the restated law"""
        k = (d, p)
        if k not in W._exp:
            f = W.fresh()
            err = None
            try:
                f.update_dm(d)
                f.update_period(p)
            except Exception as e:  # noqa: BLE001
                err = type(e).__name__
            law = law_cube(W, d, p)
            if err is not None:
                self.fail("first-update-exception", f"a single update of a fresh cube raised {err}",
                          dict(W.describe(), dm=d, period=p))
            elif not biteq(f.data, law) or f.dm != d or f.period != p:
                self.fail("first-update-shift", "a fresh cube updated once is not the folded cube rotated by the implied shifts",
                          dict(W.describe(), dm=d, period=p, got=ilist(f.data), expected=ilist(law), shifts=implied_shifts(W, d, p)))
            W._exp[k] = law
        return W._exp[k]

    def check(self, W, ops, extras=True):
        """returns (outcome of the implementation for the correspondence, oracle's expected cube)"""
        R = self.R
        d, p = finals(W, ops)
        exp = self.expected(W, d, p)
        c, err = run_impl(W, ops)
        kinds = {k for k, _ in ops}
        fam = "dm" if kinds == {"dm"} else "period" if kinds == {"p"} else "mixed"
        case = dict(W.describe(), ops=[[k, v] for k, v in ops])
        sd, sp = implied_shifts(W, d, p)
        nbin = W.shape[2]
        nontrivial = any(s % nbin for s in sd) or any(s % nbin for s in sp) or len(set(ops)) > 1
        R.case((W.name, tuple(ops)), nontrivial=bool(nontrivial), regime=f"{fam}-depth{min(len(ops), 5)}{'+' if len(ops) > 4 else ''}",
               sample=dict(case, final=ilist(c.data)[:16]) if (len(ops) == 2 and W.name == "A") else None)
        if W.name.startswith("R"):
            R.hist["random-world-nonzero-shift" if (any(s % nbin for s in sd) or any(s % nbin for s in sp)) else "random-world-zero-shift"] = \
                R.hist.get("random-world-nonzero-shift" if (any(s % nbin for s in sd) or any(s % nbin for s in sp)) else "random-world-zero-shift", 0) + 1
        if err is not None:
            key = "single-subband-exception" if (W.shape[1] == 1 and err[1] == "IndexError") else "exception"
            self.fail(key, f"update #{err[0]} of the history raised {err[1]}: {err[2]}", dict(case, failing_op=err[0]))
            return None, exp
        out = (ilist(c.data), c.dm, c.period, ilist(np.atleast_1d(c._fph_shifts)), ilist(np.atleast_1d(c._tph_shifts)))
        if c.data.shape != W.shape or c.data.dtype != np.float32:
            self.fail("shape", "shape or dtype of the cube changed", dict(case, shape=list(c.data.shape), dtype=str(c.data.dtype)))
            return out, exp
        if not biteq(c.data, exp):
            self.fail(f"history-{fam}", "cube after the history differs from a fresh cube rotated once to the final DM / period",
                      dict(case, final_dm=d, final_period=p, got=ilist(c.data), expected=ilist(exp)))
        if c.dm != d:
            self.fail("reported-dm", "reported DM is not the last target", dict(case, got=c.dm, expected=d))
        if c.period != p:
            self.fail("reported-period", "reported period is not the last target", dict(case, got=c.period, expected=p))
        a = np.sort(c.data.view(np.uint32), axis=2)
        b = np.sort(W.cube0.view(np.uint32), axis=2)
        if not np.array_equal(a, b):
            self.fail("multiset", "a profile no longer holds the values it was folded with", dict(case, got=ilist(c.data)))
        if extras and ops:
            # repeating the last update changes nothing
            before = c.data.copy()
            kind, v = ops[-1]
            try:
                (c.update_dm if kind == "dm" else c.update_period)(v)
                if not biteq(c.data, before) or c.dm != d or c.period != p:
                    self.fail(f"repeat-{'dm' if kind == 'dm' else 'period'}", "repeating the last update changed the cube",
                              dict(case, repeated=[kind, v], before=ilist(before), after=ilist(c.data)))
                # returning to the folding values restores the folded cube bit for bit
                c.update_dm(W.dm0)
                c.update_period(W.p0)
                if not biteq(c.data, W.cube0) or c.dm != W.dm0 or c.period != W.p0:
                    self.fail("return-to-fold", "returning to the folding DM and period does not restore the folded cube",
                              dict(case, then=[["dm", v] if kind == "dm" else ["p", v], ["dm", W.dm0], ["p", W.p0]], got=ilist(c.data)))
            except Exception as e:  # noqa: BLE001
                key = "single-subband-exception" if (W.shape[1] == 1 and type(e).__name__ == "IndexError") else "exception"
                self.fail(key, f"repeat / return after the history raised {type(e).__name__}", dict(case, repeated=[kind, v]))
        return out, exp


# ---- Coq text -------------------------------------------------------------------------------------------
def q(x):
    f = Fraction(x)
    return f"(Qmake ({f.numerator}) {f.denominator})"


def coq_world(W, mod, cases):
    """one Module: world definitions, tables over every combination of the world's values, the cases"""
    ni, nb, nbin = W.shape
    dvals = sorted(set([W.dm0] + W.dms + [v for ops, _o, _e in cases for k, v in ops if k == "dm"]))
    pvals = sorted(set([W.p0] + W.ps + [v for ops, _o, _e in cases for k, v in ops if k == "p"]))
    ftab, seen = [], set()
    for a in dvals:
        for b in dvals:
            if a - b == 0:
                continue
            for per in pvals:
                kq = (Fraction(a) - Fraction(b), Fraction(per) / nbin)
                if kq in seen:
                    continue
                seen.add(kq)
                ftab.append(f"({q(kq[0])}, {q(kq[1])}, {vlib.zlist(dm_table_value(W, a - b, per))})")
    ttab, seen = [], set()
    for newp in pvals:
        for r1 in pvals:
            for r2 in pvals:
                db = dbins_of(W, newp, r1, r2)
                kq = (Fraction(newp) / Fraction(r1) - 1) * Fraction(W.hdr.tobs) * nbin / Fraction(r2)
                if (db == 0) != (kq == 0):
                    raise RuntimeError(f"float and rational dbins disagree on zero: {newp} {r1} {r2}")
                if db == 0 or kq in seen:
                    continue
                seen.add(kq)
                ttab.append(f"({q(kq)}, {vlib.zlist(p_table_value(W, db))})")
    cube = "[" + ";\n  ".join("[" + "; ".join(vlib.zlist(W.cube0[i, b]) for b in range(nb)) + "]" for i in range(ni)) + "]"
    L = [f"Module {mod}.",
         f"Definition c0 : cube := {cube}.",
         "Definition Ftab : list (Q * Q * list Z) := [" + ";\n ".join(ftab) + "].",
         "Definition Ttab : list (Q * list Z) := [" + ";\n ".join(ttab) + "].",
         "Definition cases : list corr_case := ["]
    cl = []
    specs = {}
    for ops, out, exp in cases:
        o = "[" + "; ".join((f"UDm {q(v)}" if k == "dm" else f"UPeriod {q(v)}") for k, v in ops) + "]"
        if out is None:
            r = "None"
        else:
            r = f"Some ({vlib.zlist(out[0])}, {q(out[1])}, {q(out[2])}, {vlib.zlist(out[3])}, {vlib.zlist(out[4])})"
        sk = finals(W, ops)
        if sk not in specs:
            specs[sk] = (len(specs), exp)
        cl.append(f"({o}, {r}, {specs[sk][0]})")
    L.append(";\n".join(cl))
    L.append("].")
    L.append("Definition specs : list (list Z) := [" + ";\n ".join(vlib.zlist(ilist(e)) for _i, e in sorted(specs.values(), key=lambda t: t[0])) + "].")
    L.append(f"Definition bad := corr_bad gen_refs {ni} {nb} {nbin} {q(W.hdr.tobs)} Ftab Ttab c0 {q(W.dm0)} {q(W.p0)} specs cases.")
    L.append("Eval vm_compute in (Z.of_nat (length cases) :: 1000000 :: fst bad ++ 1000000 :: snd bad).")
    if W.name == "A":
        L.append("Eval vm_compute in (if w_tables_ok Ftab Ttab then [1] else [0]).")
    L.append(f"End {mod}.")
    return "\n".join(L)


HEAD = ("From Coq Require Import ZArith QArith List Bool.\n"
        "Require Import SPP.Base.Rt SPP.Gen.FoldRefs SPP.Model.C17_FoldedCube.\nImport ListNotations.\nOpen Scope Z_scope.\n")


def families(W, depth):
    dm_ops = [("dm", v) for v in W.dms]
    p_ops = [("p", v) for v in W.ps]
    mixed = dm_ops[1:3] + p_ops[1:3]
    for fam in (dm_ops, p_ops, mixed):
        for n in range(1, depth + 1):
            for h in itertools.product(fam, repeat=n):
                yield list(h)


def run(R: vlib.Run):
    rng = R.rng
    quick = R.tier == "quick"
    R.rule = ("worlds = header x cube shape x folding DM/period x integer-valued cube; for each world ALL histories up to depth 4 "
              "over three 4-symbol alphabets (4 DM targets incl. the folding DM; 4 period targets incl. the folding period; "
              "2 DM + 2 period targets), thorough: also the full 8-symbol alphabet to depth 4; plus random histories of length "
              "5-12 over 5+5 random float targets on random worlds (shapes 1..4 x 1..5 x 2..24, incl. one sub-band / one "
              "sub-integration).  Each history: compare with a fresh cube rotated once (= the restated shift law), reported "
              "dm/period, multiset per profile, repeat last update, return to the folding values.  A case is non-trivial if the "
              "implied shift of some profile is non-zero modulo nbins or the history has two different updates; distinct = "
              "distinct (world, history)")
    R.trusted += ["Coq 8.16.1 kernel + vm_compute (witnesses, the 31 refuted reference choices, the in-Coq side of the correspondence)",
                  "tools/py2coq/gen_c17.py: reads which stored DM/period each delay computation refers to and checks, statement by "
                  "statement, that update_dm/update_period/_get_dmdelays/_get_pdelays are the text the hand model was written from",
                  "hand model Model/C17_FoldedCube.v of the FoldedData bookkeeping (tied to the code by the generator's statement check "
                  "and by the correspondence run: cube, dm, period, _fph_shifts, _tph_shifts, exceptions)",
                  "params.compute_dmdelays and the float32 period-drift expression are arbitrary functions F, T in the theorems "
                  "(the dispersion law itself is C09's subject); np.roll is modelled by list rotation",
                  "correspondence harness and oracle tools/harness/props/c17.py"]
    R.assume += ["DM and period targets are finite Python floats; folding period non-zero; every cube dimension >= 1",
                 "float subtraction newdm - ref and the test dbins == 0 agree with exact rational arithmetic on whether the result is zero "
                 "(checked for every table entry generated)",
                 "nobody writes _data/_fph_shifts/_tph_shifts from outside the class (replace_nan / centre are not part of the histories)"]
    R.exhaustive = True
    R.prove("Props/C17.v")
    # which branch of C17_verdict holds for the tree being checked
    R.need(["Model/C17_FoldedCube.vo"])
    rc0, out0 = vlib.coq_run("c17_branch", "Require Import SPP.Gen.FoldRefs SPP.Model.C17_FoldedCube.\n"
                             "Eval vm_compute in (sound_refs gen_refs, gen_refs).\n", timeout=120)
    m = re.search(r"= \((true|false),", out0) if rc0 == 0 else None
    proof_sound = None if not m else (m.group(1) == "true")
    R.extra_cov["gen_refs"] = " ".join(out0.split())[:300] if rc0 == 0 else "n/a"
    R.extra_cov["proof_branch"] = {True: "HistoryIndependent gen_refs (all references are the folding values)",
                                   False: "Refuted gen_refs (some reference is the current value / squeezed delays)",
                                   None: "unknown (build failed)"}[proof_sound]

    # ---- worlds -----------------------------------------------------------------------------------------
    hA = {"nchans": 32, "foff": -4.0, "fch1": 400.0, "tsamp": 2.0 ** -10, "nsamples": 102400}
    hB = {"nchans": 64, "foff": -0.5, "fch1": 1500.0, "tsamp": 6.4e-5, "nsamples": 2000000}
    hD = {"nchans": 16, "foff": 2.0, "fch1": 300.0, "tsamp": 2.56e-4, "nsamples": 400000}
    cubeA = [0, 1, 2, 3, 4, 5, 6, 7, 10, 11, 12, 13, 14, 15, 16, 17, 20, 21, 22, 23, 24, 25, 26, 27, 30, 31, 32, 33, 34, 35, 36, 37]

    def randcube(shape):
        n = int(np.prod(shape))
        return [rng.randrange(-50, 200) for _ in range(n)]

    worlds = [
        World("A", hA, (2, 2, 8), 10.0, 0.5, cubeA, [10.0, 20.0, 30.0, 12.5], [0.5, 0.50390625, 0.5078125, 0.49609375]),
        World("B", hB, (3, 4, 16), 56.7, 0.0334, randcube((3, 4, 16)), [56.7, 100.0, 20.3, 300.0], [0.0334, 0.033405, 0.03342, 0.0333]),
        World("C", hA, (4, 1, 8), 10.0, 0.5, randcube((4, 1, 8)), [10.0, 20.0, 30.0, 0.0], [0.5, 0.50390625, 0.5078125, 0.49609375]),
        World("D", hD, (1, 3, 12), 100.0, 0.1, randcube((1, 3, 12)), [100.0, 71.25, 135.5, 99.0], [0.1, 0.1002, 0.0997, 0.10001]),
        World("E", hA, (5, 3, 7), 250.0, 0.25, randcube((5, 3, 7)), [250.0, 0.0, 612.0, 251.0], [0.25, 0.2515, 0.2489, 0.2502]),
    ]
    orc = Oracle(R)
    corr = []          # (world, [cases])
    for W in worlds:
        cases = []
        d4 = []
        for h in families(W, 4):
            out, exp = orc.check(W, h, extras=True)
            if len(h) <= 3:
                cases.append((h, out, exp))
            else:
                d4.append((h, out, exp))
        if quick:
            cases += rng.sample(d4, 60)
        else:
            cases += d4
        corr.append((W, cases))
    if not quick:
        for W in worlds[:2]:
            ops8 = [("dm", v) for v in W.dms] + [("p", v) for v in W.ps]
            cases = []
            for n in range(1, 5):
                for h in itertools.product(ops8, repeat=n):
                    h = list(h)
                    out, exp = orc.check(W, h, extras=(n < 4))
                    if n < 4 or rng.random() < 0.25:
                        cases.append((h, out, exp))
            corr.append((W, cases))
    # random worlds, longer histories
    nrand = 24 if quick else 240
    per = 12 if quick else 25
    for wi in range(nrand):
        ni, nb, nbin = rng.choice([1, 2, 3, 4]), rng.choice([1, 2, 2, 3, 4, 5]), rng.randrange(2, 25)
        small = wi % 2 == 0
        if small:
            ni, nb, nbin = min(ni, 3), min(nb, 4), min(nbin, 12)
        nch = rng.choice([8, 32, 64, 96])
        sign = rng.choice([-1, -1, 1])
        fch1 = round(rng.uniform(300.0, 1600.0) if sign < 0 else rng.uniform(150.0, 1200.0), 3)
        bw = fch1 * rng.choice([0.1, 0.25, 0.4])       # a band wide enough for the sub-bands to drift apart
        foff = sign * round(bw / nch, 4)
        hp = {"nchans": nch, "foff": foff, "fch1": fch1, "tsamp": rng.choice([6.4e-5, 2.56e-4, 1e-3]), "nsamples": rng.randrange(100000, 3000000)}
        p0 = rng.choice([0.0016, 0.033, 0.25, 0.714, 1.337]) * rng.uniform(0.9, 1.1)
        dm0 = rng.choice([0.0, rng.uniform(1.0, 500.0)])
        dms = [dm0] + [max(0.0, dm0 + rng.uniform(-1, 1) * rng.choice([0.5, 5.0, 60.0])) for _ in range(4)]
        tobs = hp["tsamp"] * hp["nsamples"]
        # period offsets giving a drift of a fraction of a bin up to a few turns over the observation
        ps = [p0] + [p0 * (1 + rng.uniform(-1, 1) * rng.choice([0.3, 2.0, 9.0]) * p0 / (tobs * 1.0)) for _ in range(4)]
        W = World(f"R{wi}", hp, (ni, nb, nbin), dm0, p0, randcube((ni, nb, nbin)), dms, ps)
        cases = []
        for _ in range(per):
            n = rng.randrange(5, 13)
            h = [(("dm", rng.choice(W.dms)) if rng.random() < 0.5 else ("p", rng.choice(W.ps))) for _ in range(n)]
            out, exp = orc.check(W, h, extras=True)
            cases.append((h, out, exp))
        if small:
            corr.append((W, cases))
    R.extra_cov["oracle_failures_by_key"] = dict(sorted(orc.count.items()))
    import time
    t_or = time.time()
    R.notes.append(f"oracle phase finished {t_or - R.t0:.1f}s after start")

    # the proof side and the oracle must tell the same story
    if proof_sound is False and not orc.count:
        R.red.append("proof: the references read from the source refute the property (Props/C17.v: Refuted gen_refs) but the oracle found no failing input")
    if proof_sound is None and not R.red:
        R.red.append("proof: could not evaluate which branch of C17_verdict holds (model did not build)")

    # ---- correspondence -------------------------------------------------------------------------------------
    R.need(["Model/C17_FoldedCube.vo"])
    files, cur, curn = [], [], 0
    for wi, (W, cases) in enumerate(corr):
        for k in range(0, len(cases), CHUNK):
            chunk = cases[k:k + CHUNK]
            if curn + len(chunk) > 450 and cur:
                files.append(cur)
                cur, curn = [], 0
            cur.append((W, f"W{wi}_{k}", chunk))
            curn += len(chunk)
    if cur:
        files.append(cur)

    def one(arg):
        fi, mods = arg
        try:
            text = HEAD + "\n".join(coq_world(W, mod, chunk) for W, mod, chunk in mods)
        except Exception as e:  # noqa: BLE001
            return fi, mods, 1, f"harness: {type(e).__name__}: {e}"
        rc, out = vlib.coq_run(f"c17_{fi}", text, timeout=600)
        return fi, mods, rc, out

    ncases = nbad = nspec = 0
    with ThreadPoolExecutor(max_workers=4) as ex:
        results = list(ex.map(one, list(enumerate(files))))
    wit_checked = False
    for fi, mods, rc, out in results:
        vals = vlib.parse_eval(out) if rc == 0 else []
        expect = sum(2 if W.name == "A" else 1 for W, _m, _c in mods)
        if rc != 0 or len(vals) != expect:
            R.red.append(f"correspondence: Corr/c17_{fi} did not evaluate: " + out[-400:])
            continue
        vi = 0
        for W, mod, chunk in mods:
            nums = [int(x) for x in re.findall(r"-?\d+", vals[vi])]
            vi += 1
            n, rest = nums[0], nums[2:]
            cut = rest.index(1000000)
            bad_model, bad_spec = rest[:cut], rest[cut + 1:]
            if n != len(chunk):
                R.red.append(f"correspondence: {mod}: {n} cases evaluated, {len(chunk)} sent")
            ncases += n
            for bi in bad_model[:3]:
                h, o, e = chunk[bi]
                R.disagree("Gallina FoldedCube model and the implementation end differently",
                           dict(W.describe(), ops=[[k, v] for k, v in h], impl=(None if o is None else {"data": o[0], "dm": o[1], "period": o[2], "fph": o[3], "tph": o[4]})))
            for bi in bad_spec[:3]:
                h, o, e = chunk[bi]
                R.disagree("Gallina `expected` and the Python oracle's expected cube differ",
                           dict(W.describe(), ops=[[k, v] for k, v in h], oracle=ilist(e)))
            nbad += len(bad_model)
            nspec += len(bad_spec)
            if W.name == "A":
                if "1" not in re.findall(r"\d+", vals[vi]):
                    R.red.append("witness tables: the delay tables of the real-case witnesses (Model/C17_FoldedCube.v w_F_tab / w_T_tab) "
                                 "are not what the implementation computes")
                wit_checked = True
                vi += 1
    R.notes.append(f"correspondence phase took {time.time() - t_or:.1f}s in {len(files)} files")
    if not wit_checked and not R.red:
        R.red.append("witness tables were not checked")
    R.extra_cov["correspondence_cases"] = ncases
    R.extra_cov["traces_validated_against_impl"] = ncases
    R.extra_cov["correspondence_model_mismatches"] = nbad
    R.extra_cov["oracle_vs_gallina_spec_mismatches"] = nspec
    return R
