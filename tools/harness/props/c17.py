"""C17 -- re-tuning a folded cube (FoldedData.update_dm / update_period) depends only on the targets.

Proof: Props/C17.v over Model/C17_FoldedCube.v instantiated with the references regenerated from
sigpyproc/foldedcube.py (Gen/FoldRefs.v, tools/py2coq/gen_c17.py).
Correspondence: the Gallina state machine under vm_compute (delay functions = tables of what
params.compute_dmdelays / the period-drift formula return for exactly the arguments the model passes) versus the
implementation on the same cubes and histories: final cube, reported dm/period, _fph_shifts/_tph_shifts, exceptions.
Oracle: the property in plain NumPy against the implementation: every history must end in a fresh cube rotated once."""
import contextlib
import itertools
import re
import warnings
from concurrent.futures import ThreadPoolExecutor
from fractions import Fraction

import numpy as np

import vlib

MAX_PER_KEY = 3
CHUNK = 100     # cases per Coq definition (type-checking one huge list literal is super-linear)


# ---------------------------------------------------------------------------------------------------------
HDR_FIELDS = ("nchans", "foff", "fch1", "tsamp", "nsamples", "tobs", "nbits", "tstart")
FORMS = ("copy", "f64", "fortran", "strided", "list")


class World:
    """raw=True: targets and folding values are handed to the library with the Python / NumPy type they were given with (int,
    numpy.float32, ...) instead of being converted to float first (the law is always evaluated on float(value)).
    form: how the folded cube is handed to the constructor (FORMS); bits=True: the cube holds arbitrary float32 bit patterns
    (NaN with payloads, infinities, -0.0, denormals): dumps print the uint32 patterns and the world is oracle-only.
    accel: passed to the constructor when not None (updates must not depend on it)."""

    def __init__(self, name, hdrp, shape, dm0, p0, cube0, dms, ps, raw=False, form="copy", bits=False, accel=None):
        from sigpyproc.header import Header
        self.name, self.hdrp, self.shape = name, hdrp, tuple(int(x) for x in shape)
        self.dm0, self.p0 = float(dm0), float(p0)
        self.ctor = (p0, dm0) if raw else (self.p0, self.dm0)
        self.cube0 = np.asarray(cube0, dtype=np.float32).reshape(self.shape)
        self.dms, self.ps = (list(dms), list(ps)) if raw else ([float(x) for x in dms], [float(x) for x in ps])
        self.raw, self.form, self.bits, self.accel = raw, form, bits, accel
        if form not in FORMS or (bits and form in ("f64", "list")):
            raise ValueError(form)
        self.hdr = Header(filename="c17.fil", data_type="filterbank", nchans=hdrp["nchans"], foff=hdrp["foff"],
                          fch1=hdrp["fch1"], nbits=8, tsamp=hdrp["tsamp"], tstart=50000.0, nsamples=hdrp["nsamples"])
        self.hdr0 = {k: getattr(self.hdr, k) for k in HDR_FIELDS}
        self._exp = {}

    def dump(self, a):
        """values of a cube for a replay: integers, or the uint32 bit patterns of a `bits` world"""
        if self.bits:
            return [int(x) for x in np.ascontiguousarray(a, dtype=np.float32).view(np.uint32).ravel()]
        return ilist(a)

    def describe(self):
        d = {"world": self.name, "header": self.hdrp, "shape": list(self.shape), "dm_fold": self.dm0, "period_fold": self.p0,
             ("cube0_float32_bits" if self.bits else "cube0"): self.dump(self.cube0)}
        if self.form != "copy":
            d["constructor_input"] = self.form
        if self.raw:
            d["constructor_types"] = [type(x).__name__ for x in self.ctor]
        if self.accel is not None:
            d["accel"] = self.accel
        return d

    def ctor_input(self):
        """the folded cube in the form this world hands it to the constructor (always a private object)"""
        if self.form == "f64":
            return self.cube0.astype(np.float64)
        if self.form == "fortran":
            return np.asfortranarray(self.cube0.copy())
        if self.form == "strided":
            ni, nb, nbin = self.shape
            buf = np.full((ni, nb, 2 * nbin), np.float32(-7777), dtype=np.float32)
            buf[:, :, ::2] = self.cube0
            return buf[:, :, ::2]
        if self.form == "list":
            return self.cube0.astype(np.float64).tolist()
        return self.cube0.copy()

    def fresh(self):
        from sigpyproc.foldedcube import FoldedData
        if self.accel is not None:
            return FoldedData(self.ctor_input(), self.hdr, self.ctor[0], self.ctor[1], self.accel)
        return FoldedData(self.ctor_input(), self.hdr, self.ctor[0], self.ctor[1])

    def ops_of(self, ops):
        """a history for a replay (JSON): raw worlds also name the type of each target"""
        if self.raw:
            return [[k, float(v), type(v).__name__] for k, v in ops]
        return [[k, v] for k, v in ops]


@contextlib.contextmanager
def strict():
    """NumPy RuntimeWarnings (invalid value in cast, overflow, ...) raised inside the library are failures, not noise"""
    with warnings.catch_warnings():
        warnings.simplefilter("error", RuntimeWarning)
        yield


def exc_key(W, e, prefix=""):
    if isinstance(e, RuntimeWarning):
        return prefix + "runtime-warning"
    if not prefix and W.shape[1] == 1 and type(e).__name__ == "IndexError":
        return "single-subband-exception"
    return prefix + "exception"


def run_impl(W, ops):
    """apply a history to a fresh cube; returns (object, None) or (object, (index of failing op, exception name))"""
    c = W.fresh()
    for k, (kind, v) in enumerate(ops):
        try:
            with strict():
                (c.update_dm if kind == "dm" else c.update_period)(v)
        except Exception as e:  # noqa: BLE001
            return c, (k, type(e).__name__, str(e)[:80], exc_key(W, e))
    return c, None


def finals(W, ops):
    """(final DM, final period) as Python floats: the law depends on the value of a target, not on its type"""
    d, p = W.dm0, W.p0
    for kind, v in ops:
        if kind == "dm":
            d = float(v)
        else:
            p = float(v)
    return d, p


# ---- the property restated -------------------------------------------------------------------------------
def dm_table_value(W, delta, period):
    """what the dispersion law gives for a DM difference `delta`, bin width period/nbins: delay of each sub-band in bins"""
    from sigpyproc import params
    ni, nb, nbin = W.shape
    h = W.hdr
    chan_width = h.foff * h.nchans / nb
    freqs = np.arange(nb, dtype=np.float64) * chan_width + h.fch1
    return [int(x) for x in np.atleast_1d(params.compute_dmdelays(freqs, delta, period / nbin, h.fch1, in_samples=True))]


def dbins_of(W, newp, r1, r2):
    return (newp / r1 - 1) * W.hdr.tobs * W.shape[2] / r2


def p_table_value(W, dbins):
    ni = W.shape[0]
    return [int(x) for x in np.round(np.arange(ni, dtype=np.float32) / (ni / dbins)).astype(np.int32)]


def implied_shifts(W, d, p):
    """shift of every sub-band implied by DM d and of every sub-integration implied by period p, relative to the folding values"""
    ni, nb, nbin = W.shape
    sd = [0] * nb if d - W.dm0 == 0 else dm_table_value(W, d - W.dm0, W.p0)
    db = dbins_of(W, p, W.p0, W.p0)
    sp = [0] * ni if db == 0 else p_table_value(W, db)
    return sd, sp


LAW_K = 4.148808e3      # dispersion constant of the restated law (float64 anchor of the shifts)


def law_anchor(W, d, p):
    """float64 anchor of the two shift laws, independent of the library's and of this file's float32 / int32 evaluation:
    every shift is the nearest integer to the exact drift (0.5 bin + the float32 evaluation error, 1e-6 relative: three times the
    a-priori bound).  Returns [(key, message, details)] of the entries that are not."""
    ni, nb, nbin = W.shape
    sd, sp = implied_shifts(W, d, p)
    bad = []
    h = W.hdr
    delta = d - W.dm0
    if delta != 0:
        freqs = np.arange(nb, dtype=np.float64) * (h.foff * h.nchans / nb) + h.fch1
        tsamp = W.p0 / nbin
        ref = LAW_K * delta * (freqs ** -2 - h.fch1 ** -2) / tsamp
        tol = 0.5 + 1e-6 * LAW_K * abs(delta) * (freqs ** -2 + h.fch1 ** -2) / abs(tsamp)
        err = np.abs(np.asarray(sd, dtype=np.float64) - ref) if len(sd) == nb else np.full(nb, np.inf)
        if not np.all(err <= tol):
            b = int(np.argmax(err - tol))
            bad.append(("dm-law", "sub-band shift is not the dispersion drift 4.148808e3*dDM*(f^-2 - fch1^-2)/(period_fold/nbins) "
                        "rounded to the nearest bin", {"subband": b, "shift": int(sd[b]) if len(sd) == nb else None,
                                                       "exact_drift_bins": float(ref[b]), "tolerance_bins": float(tol[b])}))
    db = dbins_of(W, p, W.p0, W.p0)
    if db != 0:
        ref = np.arange(ni, dtype=np.float64) * db / ni
        tol = 0.5 + 1e-6 * np.abs(ref)
        err = np.abs(np.asarray(sp, dtype=np.float64) - ref) if len(sp) == ni else np.full(ni, np.inf)
        if not np.all(err <= tol):
            i = int(np.argmax(err - tol))
            bad.append(("period-law", "sub-integration shift is not the linear drift i*dbins/nsubints rounded to the nearest bin",
                        {"subint": i, "shift": int(sp[i]) if len(sp) == ni else None, "exact_drift_bins": float(ref[i]),
                         "dbins": float(db), "tolerance_bins": float(tol[i])}))
    return bad


def law_cube(W, d, p):
    sd, sp = implied_shifts(W, d, p)
    out = np.empty_like(W.cube0)
    for i in range(W.shape[0]):
        for b in range(W.shape[1]):
            out[i, b] = np.roll(W.cube0[i, b], -(sd[b] + sp[i]))
    return out


def biteq(a, b):
    a, b = np.ascontiguousarray(a), np.ascontiguousarray(b)
    return a.shape == b.shape and a.dtype == b.dtype and np.array_equal(a.view(np.uint32), b.view(np.uint32))


def ilist(a):
    return [int(x) for x in np.asarray(a).ravel()]


# ---------------------------------------------------------------------------------------------------------
class Oracle:
    def __init__(self, R):
        self.R = R
        self.count = {}

    def fail(self, key, what, case):
        self.count[key] = self.count.get(key, 0) + 1
        if self.count[key] <= MAX_PER_KEY:
            self.R.fail(key, what, case)

    def expected(self, W, d, p):
        """a fresh cube rotated once (first DM update, then first period update), cross-checked against the restated law"""
        k = (d, p)
        if k not in W._exp:
            f = W.fresh()
            err = None
            try:
                with strict():
                    f.update_dm(d)
                    f.update_period(p)
            except Exception as e:  # noqa: BLE001
                err = e
            law = law_cube(W, d, p)
            if err is not None:
                self.fail("first-update-runtime-warning" if isinstance(err, RuntimeWarning) else "first-update-exception",
                          f"a single update of a fresh cube raised {type(err).__name__}: {str(err)[:80]}",
                          dict(W.describe(), dm=d, period=p))
            elif not biteq(f.data, law) or f.dm != d or f.period != p:
                self.fail("first-update-shift", "a fresh cube updated once is not the folded cube rotated by the implied shifts",
                          dict(W.describe(), dm=d, period=p, got=W.dump(f.data), expected=W.dump(law), shifts=implied_shifts(W, d, p)))
            for key, what, det in law_anchor(W, d, p):
                self.fail(key, what, dict(W.describe(), dm=d, period=p, **det))
            W._exp[k] = law
        return W._exp[k]

    def check(self, W, ops, extras=True):
        """returns (outcome of the implementation for the correspondence, oracle's expected cube)"""
        R = self.R
        d, p = finals(W, ops)
        exp = self.expected(W, d, p)
        c, err = run_impl(W, ops)
        kinds = {k for k, _ in ops}
        fam = "dm" if kinds == {"dm"} else "period" if kinds == {"p"} else "mixed"
        case = dict(W.describe(), ops=W.ops_of(ops))
        sd, sp = implied_shifts(W, d, p)
        nbin = W.shape[2]
        nontrivial = any(s % nbin for s in sd) or any(s % nbin for s in sp) or len(set(ops)) > 1
        R.case((W.name, tuple(ops)), nontrivial=bool(nontrivial), regime=f"{fam}-depth{min(len(ops), 5)}{'+' if len(ops) > 4 else ''}",
               sample=dict(case, final=ilist(c.data)[:16]) if (len(ops) == 2 and W.name == "A") else None)
        for tag, on in (("raw-target-types", W.raw), ("constructor-form-" + W.form, W.form != "copy"), ("float32-bit-pattern-cube", W.bits),
                        ("accel-nonzero", W.accel is not None), ("nbins-1", nbin == 1), ("target-dm-negative", d < 0),
                        ("target-period-nonpositive", p <= 0), ("target-period-beyond-10-percent", abs(p / W.p0 - 1) > 0.1)):
            if on:
                R.hist[tag] = R.hist.get(tag, 0) + 1
        if W.name.startswith("R"):
            R.hist["random-world-nonzero-shift" if (any(s % nbin for s in sd) or any(s % nbin for s in sp)) else "random-world-zero-shift"] = \
                R.hist.get("random-world-nonzero-shift" if (any(s % nbin for s in sd) or any(s % nbin for s in sp)) else "random-world-zero-shift", 0) + 1
        if err is not None:
            self.fail(err[3], f"update #{err[0]} of the history raised {err[1]}: {err[2]}", dict(case, failing_op=err[0]))
            return None, exp
        # only worlds that go to the correspondence need the flattened outcome (a `bits` cube has no integer values)
        # (the Gallina model rotates lists of integers: a `bits` cube goes there as its uint32 patterns; raw targets have no Q literal)
        out = None if W.raw else \
            (W.dump(c.data), float(c.dm), float(c.period), ilist(np.atleast_1d(c._fph_shifts)), ilist(np.atleast_1d(c._tph_shifts)))
        if c.data.shape != W.shape or c.data.dtype != np.float32:
            self.fail("shape", "shape or dtype of the cube changed", dict(case, shape=list(c.data.shape), dtype=str(c.data.dtype)))
            return out, exp
        # the observational metadata the shifts are computed from is the caller's header, untouched by any update
        hnow = {k: getattr(c.header, k, None) for k in HDR_FIELDS}
        if c.header is not W.hdr or hnow != W.hdr0:
            self.fail("header-changed", "the cube's header is no longer the header it was built with (object or field values changed)",
                      dict(case, same_object=c.header is W.hdr, changed={k: [W.hdr0[k], hnow[k]] for k in HDR_FIELDS if hnow[k] != W.hdr0[k]}))
        if not biteq(c.data, exp):
            self.fail(f"history-{fam}", "cube after the history differs from a fresh cube rotated once to the final DM / period",
                      dict(case, final_dm=d, final_period=p, got=W.dump(c.data), expected=W.dump(exp)))
        if c.dm != d:
            self.fail("reported-dm", "reported DM is not the last target", dict(case, got=c.dm, expected=d))
        if c.period != p:
            self.fail("reported-period", "reported period is not the last target", dict(case, got=c.period, expected=p))
        a = np.sort(c.data.view(np.uint32), axis=2)
        b = np.sort(W.cube0.view(np.uint32), axis=2)
        if not np.array_equal(a, b):
            self.fail("multiset", "a profile no longer holds the values it was folded with", dict(case, got=W.dump(c.data)))
        if extras and ops:
            # repeating the last update changes nothing
            before = c.data.copy()
            kind, v = ops[-1]
            try:
                with strict():
                    (c.update_dm if kind == "dm" else c.update_period)(v)
                if not biteq(c.data, before) or c.dm != d or c.period != p:
                    self.fail(f"repeat-{'dm' if kind == 'dm' else 'period'}", "repeating the last update changed the cube",
                              dict(case, repeated=W.ops_of([(kind, v)])[0], before=W.dump(before), after=W.dump(c.data)))
                # returning to the folding values restores the folded cube bit for bit
                with strict():
                    c.update_dm(W.ctor[1])
                    c.update_period(W.ctor[0])
                if not biteq(c.data, W.cube0) or c.dm != W.dm0 or c.period != W.p0:
                    self.fail("return-to-fold", "returning to the folding DM and period does not restore the folded cube",
                              dict(case, then=W.ops_of([(kind, v), ("dm", W.ctor[1]), ("p", W.ctor[0])]), got=W.dump(c.data)))
            except Exception as e:  # noqa: BLE001
                self.fail(exc_key(W, e), f"repeat / return after the history raised {type(e).__name__}: {str(e)[:80]}",
                          dict(case, repeated=W.ops_of([(kind, v)])[0]))
        return out, exp


# ---- Coq text -------------------------------------------------------------------------------------------
def q(x):
    f = Fraction(x)
    return f"(Qmake ({f.numerator}) {f.denominator})"


LAW_REL = "(1 # 1000000)"      # float32 evaluation error allowed by the in-Coq law check, relative (as in law_anchor)


def coq_world(W, mod, cases, mode32=False, law=True):
    """one Module: world definitions, tables over every combination of the world's values, the cases.
    mode32: the cases are compared with the int32 machine run32 (Model/C17_Int32.v) and the unbounded machine is only counted"""
    ni, nb, nbin = W.shape
    dvals = sorted(set([W.dm0] + W.dms + [v for ops, _o, _e in cases for k, v in ops if k == "dm"]))
    pvals = sorted(set([W.p0] + W.ps + [v for ops, _o, _e in cases for k, v in ops if k == "p"]))
    ftab, seen = [], set()
    for a in dvals:
        for b in dvals:
            if a - b == 0:
                continue
            for per in pvals:
                if per == 0:        # bin width 0: only a (refuted) current-period reference could ask for it
                    continue
                kq = (Fraction(a) - Fraction(b), Fraction(per) / nbin)
                if kq in seen:
                    continue
                seen.add(kq)
                ftab.append(f"({q(kq[0])}, {q(kq[1])}, {vlib.zlist(dm_table_value(W, a - b, per))})")
    ttab, seen = [], set()
    for newp in pvals:
        for r1 in pvals:
            for r2 in pvals:
                if r1 == 0 or r2 == 0:      # a zero reference period: ZeroDivisionError in the code, None in the model, no table entry
                    continue
                db = dbins_of(W, newp, r1, r2)
                kq = (Fraction(newp) / Fraction(r1) - 1) * Fraction(W.hdr.tobs) * nbin / Fraction(r2)
                if (db == 0) != (kq == 0):
                    raise RuntimeError(f"float and rational dbins disagree on zero: {newp} {r1} {r2}")
                if db == 0 or kq in seen:
                    continue
                seen.add(kq)
                ttab.append(f"({q(kq)}, {vlib.zlist(p_table_value(W, db))})")
    cube = "[" + ";\n  ".join("[" + "; ".join(vlib.zlist(W.dump(W.cube0[i, b])) for b in range(nb)) + "]" for i in range(ni)) + "]"
    L = [f"Module {mod}.",
         f"Definition c0 : cube := {cube}.",
         "Definition Ftab : list (Q * Q * list Z) := [" + ";\n ".join(ftab) + "].",
         "Definition Ttab : list (Q * list Z) := [" + ";\n ".join(ttab) + "].",
         "Definition cases : list corr_case := ["]
    cl = []
    specs = {}
    for ops, out, exp in cases:
        o = "[" + "; ".join((f"UDm {q(v)}" if k == "dm" else f"UPeriod {q(v)}") for k, v in ops) + "]"
        if out is None:
            r = "None"
        else:
            r = f"Some ({vlib.zlist(out[0])}, {q(out[1])}, {q(out[2])}, {vlib.zlist(out[3])}, {vlib.zlist(out[4])})"
        sk = finals(W, ops)
        if sk not in specs:
            specs[sk] = (len(specs), exp)
        cl.append(f"({o}, {r}, {specs[sk][0]})")
    L.append(";\n".join(cl))
    L.append("].")
    L.append("Definition specs : list (list Z) := [" + ";\n ".join(vlib.zlist(W.dump(e)) for _i, e in sorted(specs.values(), key=lambda t: t[0])) + "].")
    L.append(f"Definition bad := corr_bad gen_refs {ni} {nb} {nbin} {q(W.hdr.tobs)} Ftab Ttab c0 {q(W.dm0)} {q(W.p0)} specs cases.")
    if mode32:
        # [bad32; marker; cases on which the unbounded machine differs from the implementation]
        L.append(f"Definition bad32 := corr_bad32 gen_refs {ni} {nb} {nbin} {q(W.hdr.tobs)} Ftab Ttab c0 {q(W.dm0)} {q(W.p0)} cases.")
        L.append("Eval vm_compute in (Z.of_nat (length cases) :: 1000000 :: bad32 ++ 1000000 :: fst bad).")
    else:
        L.append("Eval vm_compute in (Z.of_nat (length cases) :: 1000000 :: fst bad ++ 1000000 :: snd bad).")
    # the law anchors in exact arithmetic: every table entry is the nearest integer to the dispersion drift / the linear drift
    h = W.hdr
    if mode32 or not law:   # mode32: tables of the excluded regime hold values beyond int32 (the cast is undefined there): no law to
        # check; law=False: a later chunk of a world whose first chunk checks the same tables
        L.append("Definition lawbad : list Z * list Z := ([], []).")
    else:
        L.append(f"Definition lawbad := law_bad (4148808 # 1000) {q(h.fch1)} {q(h.foff * h.nchans / nb)} {ni} {nb} {LAW_REL} Ftab Ttab.")
    L.append("Eval vm_compute in (fst lawbad ++ 1000000 :: snd lawbad).")
    if W.name == "A":
        L.append("Eval vm_compute in (if w_tables_ok Ftab Ttab then [1] else [0]).")
    L.append(f"End {mod}.")
    return "\n".join(L)


HEAD = ("From Coq Require Import ZArith QArith List Bool.\n"
        "Require Import SPP.Base.Rt SPP.Gen.FoldRefs SPP.Model.C17_FoldedCube SPP.Model.C17_Int32 SPP.Model.C17_Laws.\n"
        "Import ListNotations.\nOpen Scope Z_scope.\n")


def families(W, depth):
    dm_ops = [("dm", v) for v in W.dms]
    p_ops = [("p", v) for v in W.ps]
    mixed = dm_ops[1:3] + p_ops[1:3]
    for fam in (dm_ops, p_ops, mixed):
        for n in range(1, depth + 1):
            for h in itertools.product(fam, repeat=n):
                yield list(h)
    # fourth family: the folding DM, one other DM, the folding period, one other period -- every way of coming back to a folding
    # value in the middle of a mixed history (the `delta_dm == 0` / `dbins == 0` branches next to the other axis' bookkeeping).
    # Histories of one kind only are already in the first two families.
    back = [dm_ops[0], dm_ops[1], p_ops[0], p_ops[1]]
    for n in range(2, depth + 1):
        for h in itertools.product(back, repeat=n):
            if len({k for k, _ in h}) == 2:
                yield list(h)


def run(R: vlib.Run):
    rng = R.rng
    quick = R.tier == "quick"
    R.rule = ("worlds = header x cube shape x folding DM/period x integer-valued cube; for each world ALL histories up to depth 4 "
              "over four 4-symbol alphabets (4 DM targets incl. the folding DM; 4 period targets incl. the folding period; "
              "2 DM + 2 period targets; folding DM + 1 DM + folding period + 1 period), thorough: also the full 8-symbol alphabet "
              "to depth 4; plus random histories of length "
              "5-12 over 5+5 random float targets on random worlds (shapes 1..4 x 1..5 x 2..24, incl. one sub-band / one "
              "sub-integration; every other random world hands the constructor a float64 / Fortran-order / strided / nested-list "
              "cube or a cube of float32 bit patterns with NaNs, infinities, -0.0, denormals).  Oracle-only worlds to depth 3: "
              "targets and folding values of type int / numpy.float32 / numpy.float64, negative DM targets, period targets "
              "<= 0 and 2x the folding period, profiles of one bin, a cube built with accel != 0.  "
              "Each history: compare with a fresh cube rotated once (= the restated shift law, itself anchored to the float64 "
              "drift: nearest bin), reported dm/period, header untouched, multiset per profile, repeat last update, return to the "
              "folding values; a NumPy RuntimeWarning inside an update is a failure.  A case is non-trivial if the "
              "implied shift of some profile is non-zero modulo nbins or the history has two different updates; distinct = "
              "distinct (world, history)")
    R.trusted += ["Coq 8.16.1 kernel + vm_compute (witnesses, the 31 refuted reference choices, the in-Coq side of the correspondence)",
                  "tools/py2coq/gen_c17.py: reads which stored DM/period each delay computation refers to and checks, statement by "
                  "statement, that update_dm/update_period/_get_dmdelays/_get_pdelays are the text the hand model was written from",
                  "hand model Model/C17_FoldedCube.v of the FoldedData bookkeeping (tied to the code by the generator's statement check "
                  "and by the correspondence run: cube, dm, period, _fph_shifts, _tph_shifts, exceptions)",
                  "params.compute_dmdelays and the float32 period-drift expression are arbitrary functions F, T in the theorems "
                  "(the dispersion law itself is C09's subject); np.roll is modelled by list rotation",
                  "Model/C17_Int32.v (the three int32 operations of the bookkeeping, tied to the code by the X32 correspondence), "
                  "Model/C17_Header.v + the generator's header frame (fields read; stores, rebinding, method calls, escapes of the header "
                  "in the four update methods -> Gen/FoldRefs.v header_writes), Model/C17_Laws.v (dispersion drift with sub-band "
                  "frequency fch1 + b*foff*nchans/nsubbands and K = 4.148808e3; linear period drift) checked in exact arithmetic "
                  "against the implementation's delay tables",
                  "correspondence harness and oracle tools/harness/props/c17.py"]
    R.assume += ["DM and period targets are finite Python floats; folding period non-zero; every cube dimension >= 1",
                 "float subtraction newdm - ref and the test dbins == 0 agree with exact rational arithmetic on whether the result is zero "
                 "(checked for every table entry generated)",
                 "nobody writes _data/_fph_shifts/_tph_shifts from outside the class (replace_nan / centre are not part of the histories)",
                 "every shift, and every difference of two shifts along a history, stays below 2**30 bins in magnitude "
                 "(|tobs * nbins * (period/period_fold - 1) / period_fold| < 2**30 and likewise the DM drift of every sub-band): "
                 "_fph_shifts / _tph_shifts and the increments are int32 and wrap silently beyond.  Props/C17.v: under this bound the "
                 "int32 machine run32 (Model/C17_Int32.v) IS the unbounded machine of the theorems (C17_int32_faithful, "
                 "C17_int32_history_independent), beyond it is history dependent (C17_int32_wrap_refuted); run32 is run against the "
                 "implementation beyond the bound on world X32 (correspondence only).  The oracle generators (small scope and at "
                 "scale) never ask for more than 2**29 bins",
                 "the array handed to the constructor is used by nobody else afterwards: a float32 ndarray is adopted without a copy "
                 "and rotated in place (every cube of the oracle gets a private input)"]
    R.exhaustive = True
    R.prove("Props/C17.v")
    # which branch of C17_verdict holds for the tree being checked
    R.need(["Model/C17_FoldedCube.vo"])
    rc0, out0 = vlib.coq_run("c17_branch", "Require Import SPP.Gen.FoldRefs SPP.Model.C17_FoldedCube.\n"
                             "Eval vm_compute in (sound_refs gen_refs, gen_refs).\n", timeout=120)
    m = re.search(r"= \((true|false),", out0) if rc0 == 0 else None
    proof_sound = None if not m else (m.group(1) == "true")
    R.extra_cov["gen_refs"] = " ".join(out0.split())[:300] if rc0 == 0 else "n/a"
    R.extra_cov["proof_branch"] = {True: "HistoryIndependent gen_refs (all references are the folding values)",
                                   False: "Refuted gen_refs (some reference is the current value / squeezed delays)",
                                   None: "unknown (build failed)"}[proof_sound]

    # ---- worlds -----------------------------------------------------------------------------------------
    hA = {"nchans": 32, "foff": -4.0, "fch1": 400.0, "tsamp": 2.0 ** -10, "nsamples": 102400}
    hB = {"nchans": 64, "foff": -0.5, "fch1": 1500.0, "tsamp": 6.4e-5, "nsamples": 2000000}
    hD = {"nchans": 16, "foff": 2.0, "fch1": 300.0, "tsamp": 2.56e-4, "nsamples": 400000}
    cubeA = [0, 1, 2, 3, 4, 5, 6, 7, 10, 11, 12, 13, 14, 15, 16, 17, 20, 21, 22, 23, 24, 25, 26, 27, 30, 31, 32, 33, 34, 35, 36, 37]

    def randcube(shape):
        n = int(np.prod(shape))
        return [rng.randrange(-50, 200) for _ in range(n)]

    SPECIAL = [0x7fc00000, 0xffc00000, 0x7fc00001, 0xffc12345, 0x7f800001, 0x7f800000, 0xff800000, 0x80000000, 0x00000001, 0x807fffff,
               0x7f7fffff, 0xff7fffff]

    def speccube(shape):
        """integers with about a third of the cells replaced by NaNs (quiet, signalling, with payloads), infinities, -0.0, denormals,
        +-float32 max and arbitrary bit patterns"""
        b = np.asarray(randcube(shape), dtype=np.float32).view(np.uint32).copy()
        for j in range(b.size):
            u = rng.random()
            if u < 0.25:
                b[j] = rng.choice(SPECIAL)
            elif u < 0.35:
                b[j] = rng.getrandbits(32)
        return b.view(np.float32)

    worlds = [
        World("A", hA, (2, 2, 8), 10.0, 0.5, cubeA, [10.0, 20.0, 30.0, 12.5], [0.5, 0.50390625, 0.5078125, 0.49609375]),
        World("B", hB, (3, 4, 16), 56.7, 0.0334, randcube((3, 4, 16)), [56.7, 100.0, 20.3, 300.0], [0.0334, 0.033405, 0.03342, 0.0333]),
        World("C", hA, (4, 1, 8), 10.0, 0.5, randcube((4, 1, 8)), [10.0, 20.0, 30.0, 0.0], [0.5, 0.50390625, 0.5078125, 0.49609375]),
        World("D", hD, (1, 3, 12), 100.0, 0.1, randcube((1, 3, 12)), [100.0, 71.25, 135.5, 99.0], [0.1, 0.1002, 0.0997, 0.10001]),
        World("E", hA, (5, 3, 7), 250.0, 0.25, randcube((5, 3, 7)), [250.0, 0.0, 612.0, 251.0], [0.25, 0.2515, 0.2489, 0.2502]),
    ]
    orc = Oracle(R)
    corr = []          # (world, [cases])
    for W in worlds:
        cases = []
        d4 = []
        for h in families(W, 4):
            out, exp = orc.check(W, h, extras=True)
            if len(h) <= 3:
                cases.append((h, out, exp))
            else:
                d4.append((h, out, exp))
        if quick:
            cases += rng.sample(d4, 60)
        else:
            cases += d4
        corr.append((W, cases))
    if not quick:
        for W in worlds[:2]:
            ops8 = [("dm", v) for v in W.dms] + [("p", v) for v in W.ps]
            cases = []
            for n in range(1, 5):
                for h in itertools.product(ops8, repeat=n):
                    h = list(h)
                    out, exp = orc.check(W, h, extras=(n < 4))
                    if n < 4 or rng.random() < 0.25:
                        cases.append((h, out, exp))
            corr.append((W, cases))
    # random worlds, longer histories
    nrand = 24 if quick else 240
    per = 12 if quick else 25
    for wi in range(nrand):
        ni, nb, nbin = rng.choice([1, 2, 3, 4]), rng.choice([1, 2, 2, 3, 4, 5]), rng.randrange(2, 25)
        small = wi % 2 == 0
        if small:
            ni, nb, nbin = min(ni, 3), min(nb, 4), min(nbin, 12)
        nch = rng.choice([8, 32, 64, 96])
        sign = rng.choice([-1, -1, 1])
        fch1 = round(rng.uniform(300.0, 1600.0) if sign < 0 else rng.uniform(150.0, 1200.0), 3)
        bw = fch1 * rng.choice([0.1, 0.25, 0.4])       # a band wide enough for the sub-bands to drift apart
        foff = sign * round(bw / nch, 4)
        hp = {"nchans": nch, "foff": foff, "fch1": fch1, "tsamp": rng.choice([6.4e-5, 2.56e-4, 1e-3]), "nsamples": rng.randrange(100000, 3000000)}
        p0 = rng.choice([0.0016, 0.033, 0.25, 0.714, 1.337]) * rng.uniform(0.9, 1.1)
        dm0 = rng.choice([0.0, rng.uniform(1.0, 500.0)])
        dms = [dm0] + [max(0.0, dm0 + rng.uniform(-1, 1) * rng.choice([0.5, 5.0, 60.0])) for _ in range(4)]
        tobs = hp["tsamp"] * hp["nsamples"]
        # period offsets giving a drift of a fraction of a bin up to a few turns over the observation
        ps = [p0] + [p0 * (1 + rng.uniform(-1, 1) * rng.choice([0.3, 2.0, 9.0]) * p0 / (tobs * 1.0)) for _ in range(4)]
        # shifts stay far below 2**30 bins here (a few turns at most): see R.assume on the int32 bookkeeping
        if small:               # -> correspondence: integer-valued cube, C-contiguous float32 copy
            W = World(f"R{wi}", hp, (ni, nb, nbin), dm0, p0, randcube((ni, nb, nbin)), dms, ps)
        elif wi % 4 == 1:       # what a real fold leaves (0/0 cells) and worse: updates must move bits, not values
            W = World(f"R{wi}", hp, (ni, nb, nbin), dm0, p0, speccube((ni, nb, nbin)), dms, ps, bits=True,
                      form=("copy", "fortran", "strided")[(wi // 4) % 3])
        else:                   # the constructor converts / adopts what it is given
            W = World(f"R{wi}", hp, (ni, nb, nbin), dm0, p0, randcube((ni, nb, nbin)), dms, ps,
                      form=("f64", "fortran", "strided", "list")[(wi // 4) % 4])
        cases = []
        for _ in range(per):
            n = rng.randrange(5, 13)
            h = [(("dm", rng.choice(W.dms)) if rng.random() < 0.5 else ("p", rng.choice(W.ps))) for _ in range(n)]
            out, exp = orc.check(W, h, extras=True)
            cases.append((h, out, exp))
        if small or (W.bits and wi % 8 == 1):     # bit-pattern cubes go to the model as their uint32 patterns
            W.lawcheck = wi % 6 == 0              # in-Coq law check of the tables: every third of these worlds (exact Q arithmetic on
            corr.append((W, cases))               # 225 table entries of random floats costs about a second per world)
    # oracle-only worlds (the Gallina model has rational targets, integer cubes and no acceleration): the regimes of "arbitrary
    # target values" the alphabets above never reach.  Typed targets are exactly representable in float32, so the value of a target
    # does not depend on its type.  Largest drift asked for: 3200 bins (far below the int32 limit of R.assume).
    f32, f64 = np.float32, np.float64
    extra = [
        World("F1", hA, (3, 3, 8), 10.0, 0.5, randcube((3, 3, 8)), [10.0, -5.0, 20, f32(12.5)], [0.5, 1, f32(0.50390625), -0.5], raw=True),
        World("F2", hA, (3, 3, 1), 10.0, 0.5, randcube((3, 3, 1)), [f64(10.0), 0.0, f64(20.0), -40.0], [f64(0.5), 0.0, -0.25, 2.0], raw=True),
        World("F3", hA, (2, 3, 6), 10, 1, randcube((2, 3, 6)), [10, 20, 35.5, -3], [1, 2, 1.00390625, f32(0.99609375)], raw=True),
        World("G", hD, (2, 3, 6), 100.0, 0.1, speccube((2, 3, 6)), [100.0, 71.25, 135.5, 99.0], [0.1, 0.1002, 0.0997, 0.10001],
              bits=True, accel=1.0),
    ]
    # float targets of the same regimes (negative DM, period <= 0 and 2x the folding period, profiles of one bin) and the
    # bit-pattern cube built with accel: these the model can carry -> correspondence as well
    extra += [
        World("F4", hA, (3, 3, 1), 10.0, 0.5, randcube((3, 3, 1)), [10.0, -5.0, 0.0, -40.0], [0.5, 1.0, -0.25, 0.0]),
        World("F5", hA, (2, 2, 8), 10.0, 0.5, randcube((2, 2, 8)), [10.0, -5.0, 30.0, -40.0], [0.5, 1.0, -0.5, 0.0]),
    ]
    for W in extra:
        cases, d3 = [], []
        for h in families(W, 3):
            out, exp = orc.check(W, h, extras=True)
            (cases if len(h) <= 2 else d3).append((h, out, exp))
        if not W.raw:
            corr.append((W, cases + (rng.sample(d3, 25) if quick else d3)))
    # the excluded regime of R.assume (shifts beyond 2**30 bins), NOT searched by the oracle: the implementation is only compared
    # with the int32 machine run32 of Model/C17_Int32.v (Props/C17.v: C17_int32_faithful / C17_int32_wrap_refuted), which must
    # reproduce it exactly, wrap included; the unbounded machine must differ on some of these cases (else nothing wrapped)
    hX = {"nchans": 64, "foff": -0.5, "fch1": 1500.0, "tsamp": 6.4e-5, "nsamples": 56250000}
    pX = 0.0016
    WX = World("X32", hX, (4, 1, 1000), 0.0, pX, randcube((4, 1, 1000)), [0.0], [pX, 2 * pX, 0.5 * pX, 1.5 * pX])
    casesX = []
    for h in ([("p", 2 * pX), ("p", 0.5 * pX)], [("p", 0.5 * pX)], [("p", 2 * pX), ("p", 0.5 * pX), ("p", pX)], [("p", 2 * pX)],
              [("p", 1.5 * pX), ("p", 0.5 * pX), ("p", 2 * pX), ("dm", 0.0)], [("p", 0.5 * pX), ("p", 2 * pX), ("p", 2 * pX)]):
        R.tick(dict(WX.describe(), cube0="random integers", ops=h))
        c, err = run_impl(WX, h)
        casesX.append((h, None if err else (ilist(c.data), float(c.dm), float(c.period), ilist(np.atleast_1d(c._fph_shifts)),
                                             ilist(np.atleast_1d(c._tph_shifts))), WX.cube0))
    corr.append((WX, casesX, True))
    R.extra_cov["oracle_failures_by_key"] = dict(sorted(orc.count.items()))
    import time
    t_or = time.time()
    R.notes.append(f"oracle phase finished {t_or - R.t0:.1f}s after start")

    # the proof side and the oracle must tell the same story
    if proof_sound is False and not orc.count:
        R.red.append("proof: the references read from the source refute the property (Props/C17.v: Refuted gen_refs) but the oracle found no failing input")
    if proof_sound is None and not R.red:
        R.red.append("proof: could not evaluate which branch of C17_verdict holds (model did not build)")

    # ---- correspondence -------------------------------------------------------------------------------------
    R.need(["Model/C17_FoldedCube.vo"])
    files, cur, curn = [], [], 0
    for wi, ent in enumerate(corr):
        W, cases, m32 = ent[0], ent[1], (len(ent) > 2 and ent[2])
        for k in range(0, len(cases), CHUNK):
            chunk = cases[k:k + CHUNK]
            if (curn + len(chunk) > 320 or len(cur) >= 6) and cur:
                files.append(cur)
                cur, curn = [], 0
            cur.append((W, f"W{wi}_{k}", chunk, m32))
            curn += len(chunk)
    if cur:
        files.append(cur)

    def one(arg):
        fi, mods = arg
        try:
            text = HEAD + "\n".join(coq_world(W, mod, chunk, m32, law=mod.endswith("_0") and getattr(W, "lawcheck", True)) for W, mod, chunk, m32 in mods)
        except Exception as e:  # noqa: BLE001
            return fi, mods, 1, f"harness: {type(e).__name__}: {e}"
        rc, out = vlib.coq_run(f"c17_{fi}", text, timeout=600)
        return fi, mods, rc, out

    ncases = nbad = nspec = nlaw = n32 = nwrapped = 0
    with ThreadPoolExecutor(max_workers=6) as ex:
        results = list(ex.map(one, list(enumerate(files))))
    wit_checked = False
    for fi, mods, rc, out in results:
        vals = vlib.parse_eval(out) if rc == 0 else []
        expect = sum(3 if W.name == "A" else 2 for W, _m, _c, _m32 in mods)
        if rc != 0 or len(vals) != expect:
            R.red.append(f"correspondence: Corr/c17_{fi} did not evaluate: " + out[-400:])
            continue
        vi = 0
        for W, mod, chunk, m32 in mods:
            nums = [int(x) for x in re.findall(r"-?\d+", vals[vi])]
            vi += 1
            n, rest = nums[0], nums[2:]
            cut = rest.index(1000000)
            bad_model, bad_spec = rest[:cut], rest[cut + 1:]
            if n != len(chunk):
                R.red.append(f"correspondence: {mod}: {n} cases evaluated, {len(chunk)} sent")
            ncases += n
            # the law anchors, exact arithmetic in Coq over the implementation's delay tables
            lnums = [int(x) for x in re.findall(r"-?\d+", vals[vi])]
            vi += 1
            lcut = lnums.index(1000000)
            for nm, idx in (("dispersion drift (compute_dmdelays on the sub-band frequencies)", lnums[:lcut]),
                            ("linear period drift round(i*dbins/nsubints)", lnums[lcut + 1:])):
                if idx:
                    nlaw += len(idx)
                    R.disagree(f"law anchor (Coq, exact): {len(idx)} entries of the implementation's delay table are not the nearest "
                               f"integer to the {nm}", dict(W.describe(), table_entries=idx[:5]))
            if m32:
                # bad_model = cases where run32 differs from the implementation; bad_spec = cases where the unbounded machine differs
                n32 += n
                nwrapped += len(bad_spec)
                for bi in bad_model[:3]:
                    h, o, _e = chunk[bi]
                    R.disagree("Gallina int32 machine run32 and the implementation end differently beyond 2**30 bins",
                               dict(W.describe(), cube0="random integers", ops=[[k, v] for k, v in h]))
                nbad += len(bad_model)
                continue
            for bi in bad_model[:3]:
                h, o, e = chunk[bi]
                R.disagree("Gallina FoldedCube model and the implementation end differently",
                           dict(W.describe(), ops=[[k, v] for k, v in h], impl=(None if o is None else {"data": o[0], "dm": o[1], "period": o[2], "fph": o[3], "tph": o[4]})))
            for bi in bad_spec[:3]:
                h, o, e = chunk[bi]
                R.disagree("Gallina `expected` and the Python oracle's expected cube differ",
                           dict(W.describe(), ops=[[k, v] for k, v in h], oracle=ilist(e)))
            nbad += len(bad_model)
            nspec += len(bad_spec)
            if W.name == "A":
                if "1" not in re.findall(r"\d+", vals[vi]):
                    R.red.append("witness tables: the delay tables of the real-case witnesses (Model/C17_FoldedCube.v w_F_tab / w_T_tab) "
                                 "are not what the implementation computes")
                wit_checked = True
                vi += 1
    R.notes.append(f"correspondence phase took {time.time() - t_or:.1f}s in {len(files)} files")
    if not wit_checked and not R.red:
        R.red.append("witness tables were not checked")
    R.extra_cov["correspondence_cases"] = ncases
    R.extra_cov["traces_validated_against_impl"] = ncases
    if n32 and not nwrapped and not R.red:
        R.red.append("int32 correspondence: no case of world X32 wrapped (the unbounded machine agrees with the implementation everywhere)")
    R.extra_cov["int32_correspondence_cases"] = n32
    R.extra_cov["int32_cases_where_unbounded_machine_differs"] = nwrapped
    R.extra_cov["law_anchor_table_mismatches"] = nlaw
    R.extra_cov["correspondence_model_mismatches"] = nbad
    R.extra_cov["oracle_vs_gallina_spec_mismatches"] = nspec
    return R


# =========================================================================================================
# at-scale search
# =========================================================================================================
SC_K = 4.148808e3       # dispersion constant of the restated law (only for the float64 cross-check of the shifts)
SC_SHIFT_CAP = 1 << 29  # |shift| asked for never exceeds this: differences of two int32 shifts stay inside int32 (R.assume in run():
                        # beyond 2**30 bins the int32 bookkeeping of the library wraps -- excluded regime, not searched)
SC_SEED = 1717


def _sc_cube(kind, shape, seedseq):
    """generator of the folded cube of a scale world: `kind` x shape x numpy.random.default_rng(seedseq)
    bits: random 32-bit patterns read as float32 (infinities, NaNs, denormals, -0.0 among them: updates must move bits, not values)
    int: integers in [-2**24, 2**24];  extreme: a palette of float32 limits mixed with values of magnitude 1e37"""
    g = np.random.default_rng(seedseq)
    n = int(np.prod(shape))
    if kind == "bits":
        x = g.integers(0, 1 << 32, n, dtype=np.uint32).view(np.float32)
    elif kind == "int":
        x = g.integers(-(1 << 24), (1 << 24) + 1, n, dtype=np.int32).astype(np.float32)
    elif kind == "extreme":
        fi = np.finfo(np.float32)
        pal = np.array([fi.max, -fi.max, fi.tiny, -fi.tiny, fi.smallest_subnormal, -fi.smallest_subnormal, 0.0, -0.0, 2.0 ** 24, 2.0 ** 24 - 1,
                        -(2.0 ** 24), 1.0, np.inf, -np.inf, 65504.0, 1 + fi.eps], dtype=np.float32)
        x = pal[g.integers(0, len(pal), n, dtype=np.uint8)]
        m = g.integers(0, 2, n, dtype=np.uint8).astype(bool)
        x[m] = (g.standard_normal(int(m.sum()), dtype=np.float32) * np.float32(3e37))
    else:
        raise ValueError(kind)
    return x.reshape(shape)


class ScaleWorld(World):
    """a world whose cube is far too large to print: described by the arguments of its generator (_sc_cube)"""

    def __init__(self, name, hdrp, shape, dm0, p0, kind, seedseq):
        super().__init__(name, hdrp, shape, dm0, p0, _sc_cube(kind, shape, seedseq), [], [])
        self.kind, self.seedseq = kind, [int(s) for s in seedseq]

    def describe(self):
        return {"world": self.name, "header": self.hdrp, "shape": list(self.shape), "dm_fold": self.dm0, "period_fold": self.p0,
                "cube0": f"props/c17.py _sc_cube({self.kind!r}, {list(self.shape)}, {self.seedseq})"}


def _sc_units(hdrp, shape, p0):
    """(DM difference that drifts the last sub-band by one turn, period difference that drifts the last sub-integration by one turn)"""
    ni, nb, _nbin = shape
    f_last = hdrp["fch1"] + (nb - 1) * (hdrp["foff"] * hdrp["nchans"] / nb)
    span = abs(SC_K * (f_last ** -2 - hdrp["fch1"] ** -2))
    dm_unit = p0 / span if span > 0 else 1.0
    p_unit = p0 * p0 / (hdrp["tsamp"] * hdrp["nsamples"]) * (ni / (ni - 1) if ni > 1 else 1.0)
    return dm_unit, p_unit


def _sc_turns(nbin, t24=True):
    """numbers of turns whose shift in bins crosses 2**7/2**8, 2**15, 2**16 and 2**24 (narrow accumulators, float32 exactness)"""
    t = [0.37, -0.21, 1.6, -2.3]
    for lim, f in ((1 << 8, 0.61), (1 << 8, 1.37), (1 << 16, 0.61), (1 << 16, 1.37)) + (((1 << 24, 1.37),) if t24 else ()):
        v = f * lim / nbin
        if 2.3 < v and v * nbin < SC_SHIFT_CAP:
            t += [v, -v]
    return t


def _sc_targets(W, t24=True):
    """alphabets of DM and period targets of a scale world (folding values first); DMs stay >= 0 and periods >= p0/4"""
    du, pu = _sc_units(W.hdrp, W.shape, W.p0)
    ts = _sc_turns(W.shape[2], t24)
    dms = [W.dm0] + [W.dm0 + t * du for t in ts if W.dm0 + t * du >= 0]
    ps = [W.p0] + [W.p0 + t * pu for t in ts if W.p0 + t * pu >= W.p0 / 4]
    return dms, ps


def _sc_rot(cube0, tot):
    """out[i, b, k] = cube0[i, b, (k + tot[i, b]) mod nbin] (= np.roll(profile, -tot)); slices or a gather in int64, never np.roll"""
    ni, nb, nbin = cube0.shape
    s = np.mod(np.asarray(tot, dtype=np.int64), nbin)
    if ni * nb <= 64:
        out = np.empty_like(cube0)
        for i in range(ni):
            for b in range(nb):
                k = int(s[i, b])
                out[i, b, :nbin - k] = cube0[i, b, k:]
                out[i, b, nbin - k:] = cube0[i, b, :k]
        return out
    idx = (np.arange(nbin, dtype=np.int64)[None, None, :] + s[:, :, None]) % nbin
    return np.take_along_axis(cube0, idx, axis=2)


def _sc_biteq(a, b):
    return a.shape == b.shape and a.dtype == b.dtype == np.float32 and np.array_equal(np.ascontiguousarray(a).view(np.uint32), b.view(np.uint32))


class ScaleOracle:
    def __init__(self, R):
        self.R = R
        self.count = {}
        self.maxerr = {"dm": 0.0, "period": 0.0}     # float64 cross-checks: largest share of the slack beyond the final rounding that was used

    def fail(self, key, what, case):
        self.count[key] = self.count.get(key, 0) + 1
        if self.count[key] <= MAX_PER_KEY:
            self.R.fail(key, what, case)

    # ---- the shift law: the small-scope definitions (dm_table_value / dbins_of / p_table_value) on whole arrays ----
    def dm_shifts(self, W, d, case):
        from sigpyproc import params
        _ni, nb, nbin = W.shape
        delta = d - W.dm0
        if delta == 0:
            return np.zeros(nb, dtype=np.int64)
        h = W.hdr
        chan_width = h.foff * h.nchans / nb
        freqs = np.arange(nb, dtype=np.float64) * chan_width + h.fch1
        tsamp = W.p0 / nbin
        sd = np.atleast_1d(params.compute_dmdelays(freqs, delta, tsamp, h.fch1, in_samples=True)).astype(np.int64)
        # float64 cross-check of the law itself (tolerance: float32 rounding of frequencies, DM and the products, plus the final round)
        ref = SC_K * delta * (freqs ** -2 - h.fch1 ** -2) / tsamp
        tol = 1.0 + 4e-6 * SC_K * abs(delta) * max(float(freqs.min()) ** -2, h.fch1 ** -2) / tsamp
        err = float(np.max(np.abs(sd - ref))) if sd.shape == ref.shape else float("inf")
        self.maxerr["dm"] = max(self.maxerr["dm"], (err - 0.5) / (tol - 0.5))
        if not err <= tol:
            self.fail("scale-dm-law", "sub-band shifts computed for this many sub-bands / this bin width are not the dispersion law evaluated in float64",
                      dict(case, dm=d, max_abs_error_bins=err, tolerance_bins=tol))
        return sd

    def p_shifts(self, W, p, case):
        ni, _nb, nbin = W.shape
        db = dbins_of(W, p, W.p0, W.p0)
        if db == 0:
            return np.zeros(ni, dtype=np.int64)
        sp = np.round(np.arange(ni, dtype=np.float32) / (ni / db)).astype(np.int32).astype(np.int64)
        ref = np.arange(ni, dtype=np.float64) * db / ni
        err = float(np.max(np.abs(sp - ref) - 2e-6 * np.abs(ref)))
        self.maxerr["period"] = max(self.maxerr["period"], float(np.max((np.abs(sp - ref) - 0.5) / (0.5 + 2e-6 * np.abs(ref)))))
        if not err <= 1.0:
            self.fail("scale-period-law", "float32 sub-integration shifts are not the linear drift evaluated in float64",
                      dict(case, period=p, dbins=db, max_excess_bins=err))
        return sp

    def total(self, W, d, p, case):
        return self.dm_shifts(W, d, case)[None, :] + self.p_shifts(W, p, case)[:, None]

    def state(self, W, c, d, p, case, key, what):
        """is the cube what the property says it is at targets (d, p)?  reports under `key` and returns False if not"""
        ok = True
        if c.data.shape != W.shape or c.data.dtype != np.float32:
            self.fail("scale-shape", "shape or dtype of the cube changed", dict(case, shape=list(c.data.shape), dtype=str(c.data.dtype)))
            return False
        tot = self.total(W, d, p, case)
        exp = W.cube0 if not np.any(tot % W.shape[2]) else _sc_rot(W.cube0, tot)
        if not _sc_biteq(c.data, exp):
            ne = (np.ascontiguousarray(c.data).view(np.uint32) != exp.view(np.uint32)).any(axis=2)
            i, b = (int(v) for v in np.argwhere(ne)[0])
            extra = {"bad_profiles": int(ne.sum()), "profiles": int(ne.size), "first_bad_profile": [i, b], "expected_shift_there": int(tot[i, b]),
                     "final_dm": d, "final_period": p}
            for nm in ("_fph_shifts", "_tph_shifts"):
                v = np.atleast_1d(getattr(c, nm, np.zeros(0)))
                k = b if nm == "_fph_shifts" else i
                extra[nm + "_there"] = int(v[k]) if k < v.size else None
            a = np.sort(np.ascontiguousarray(c.data[i, b]).view(np.uint32))
            extra["same_multiset_there"] = bool(np.array_equal(a, np.sort(W.cube0[i, b].view(np.uint32))))
            self.fail(key, what, dict(case, **extra))
            if not extra["same_multiset_there"]:
                self.fail("scale-multiset", "a profile no longer holds the values it was folded with", dict(case, **extra))
            ok = False
        del exp
        if c.dm != d:
            self.fail("scale-reported-dm", "reported DM is not the last target", dict(case, got=c.dm, expected=d))
            ok = False
        if c.period != p:
            self.fail("scale-reported-period", "reported period is not the last target", dict(case, got=c.period, expected=p))
            ok = False
        return ok

    def history(self, W, ops, tag, every=1, extras=True, gen=None):
        """apply `ops` to a fresh cube; compare with the restated law after every `every`-th update and at the end; then repeat the last
        update and return to the folding values.  `gen` describes how a long history was generated (replay without listing it)"""
        R = self.R
        base = dict(W.describe(), history=tag)
        if gen is None or len(ops) <= 16:
            base["ops"] = [[k, v] for k, v in ops]
        else:
            base["ops"] = gen
        d, p = finals(W, ops)
        tot = self.total(W, d, p, base)
        R.tick(base)
        R.case(("scale", W.name, tag), nontrivial=bool(np.any(tot % W.shape[2])) or len(set(ops)) > 1, regime="scale")
        simple = sum(k == "dm" for k, _ in ops) <= 1 and sum(k == "p" for k, _ in ops) <= 1
        key = "scale-first-update" if simple else "scale-history"
        c = W.fresh()
        d, p = W.dm0, W.p0
        good = True
        for k, (kind, v) in enumerate(ops):
            case = dict(base, at_op=k, op=[kind, v])
            R.tick(case)
            try:
                with strict():
                    (c.update_dm if kind == "dm" else c.update_period)(v)
            except Exception as e:  # noqa: BLE001
                self.fail(exc_key(W, e, "scale-"), f"update #{k} of the history raised {type(e).__name__}: {str(e)[:100]}", case)
                return False
            if kind == "dm":
                d = v
            else:
                p = v
            if good and ((k + 1) % every == 0 or k + 1 == len(ops)):
                good = self.state(W, c, d, p, case, key if k else "scale-first-update",
                                  f"cube after update #{k} of the history is not the folded cube rotated by the shifts its DM and period imply")
        if not (extras and ops and good):
            return good
        kind, v = ops[-1]
        try:
            case = dict(base, then=[[kind, v]])
            R.tick(case)
            with strict():
                (c.update_dm if kind == "dm" else c.update_period)(v)
            good = self.state(W, c, d, p, case, "scale-repeat", "repeating the last update changed the cube")
            case = dict(base, then=[[kind, v], ["dm", W.dm0], ["p", W.p0]])
            R.tick(case)
            with strict():
                c.update_dm(W.dm0)
                c.update_period(W.p0)
            good = self.state(W, c, W.dm0, W.p0, case, "scale-return-to-fold",
                              "returning to the folding DM and period does not restore the folded cube") and good
        except Exception as e:  # noqa: BLE001
            self.fail(exc_key(W, e, "scale-"), f"repeat / return after the history raised {type(e).__name__}: {str(e)[:100]}", case)
            return False
        return good

    def delays(self, W, which, targets, tag):
        """the delay bookkeeping alone (_get_dmdelays / _get_pdelays: what update_* rolls by) where rolling every profile is unaffordable:
        the delays returned along a history must add up to the shift implied by the current target"""
        from sigpyproc.foldedcube import FoldedData
        R = self.R
        ni, nb, nbin = W.shape
        base = dict(W.describe(), history=tag, calls=[[which, v] for v in targets])
        R.tick(base)
        R.case(("scale", W.name, tag), regime="scale")
        c = FoldedData(W.cube0, W.hdr, W.p0, W.dm0)
        fn = getattr(c, "_get_dmdelays" if which == "dm" else "_get_pdelays", None)
        if fn is None:
            R.notes.append(f"scale: FoldedData has no {'_get_dmdelays' if which == 'dm' else '_get_pdelays'}; delay-only cases skipped")
            return
        n = nb if which == "dm" else ni
        cum = np.zeros(n, dtype=np.int64)
        for k, v in enumerate(targets):
            case = dict(base, at_call=k)
            R.tick(case)
            try:
                with strict():
                    r = np.atleast_1d(fn(v))
            except Exception as e:  # noqa: BLE001
                self.fail(exc_key(W, e, "scale-"), f"delay computation #{k} raised {type(e).__name__}: {str(e)[:100]}", case)
                return
            want = self.dm_shifts(W, v, case) if which == "dm" else self.p_shifts(W, v, case)
            if r.shape != (n,) or r.dtype.kind not in "iu":
                self.fail("scale-delays", "delays are not one integer per sub-band / sub-integration", dict(case, shape=list(r.shape), dtype=str(r.dtype)))
                return
            cum += r
            bad = np.flatnonzero((cum - want) % nbin)
            if bad.size:
                j = int(bad[0])
                self.fail("scale-delays", "delays returned along the history do not add up to the shift implied by the current target",
                          dict(case, n_bad=int(bad.size), first_bad_index=j, accumulated=int(cum[j]), implied=int(want[j])))
                return


def _sc_history(W, seedseq, n, mode, dms, ps):
    """random history of n updates from numpy.random.default_rng(seedseq).
    mode 'alphabet': targets drawn from the alphabets dms / ps (_sc_targets);
    mode 'fresh': a new target for almost every update (uniform in +-T turns, T drawn from 0.5 / 3 / 50 / the 2**16-bin scale), with
    occasional exact repeats of the previous update and exact returns to the folding value"""
    g = np.random.default_rng(seedseq)
    du, pu = _sc_units(W.hdrp, W.shape, W.p0)
    nbin = W.shape[2]
    big = max(60.0, min(1.5 * 1.37 * (1 << 16) / nbin, SC_SHIFT_CAP / nbin / 2))
    ops = []
    for _ in range(n):
        kind = "dm" if g.random() < 0.5 else "p"
        u = g.random()
        if mode == "alphabet":
            v = dms[int(g.integers(0, len(dms)))] if kind == "dm" else ps[int(g.integers(0, len(ps)))]
        elif u < 0.08 and ops:
            kind, v = ops[-1]
        elif u < 0.16:
            v = W.dm0 if kind == "dm" else W.p0
        else:
            t = float(g.uniform(-1, 1)) * (0.5, 3.0, 50.0, big)[int(g.integers(0, 4))]
            if kind == "dm":
                v = W.dm0 + t * du
                v = v if v >= 0 else W.dm0 - t * du
            else:
                v = W.p0 + t * pu
                v = v if v >= W.p0 / 4 else W.p0 - t * pu
        ops.append((kind, float(v)))
    return ops


def scale(R: vlib.Run):
    """at-scale search: cubes of 2**16 .. 2**25 elements (profiles of up to 2**24+1 bins, up to 2**18+1 sub-integrations / sub-bands, delay
    bookkeeping alone up to 2**24+5), shifts beyond 2**8 / 2**15 / 2**16 / 2**24 bins and many turns, histories of thousands of updates,
    cube contents at the limits of float32, headers with > 2**31 samples and > 2**17 channels"""
    import gc
    S = ScaleOracle(R)
    seed = int(R.seed)
    hB = {"nchans": 64, "foff": -0.5, "fch1": 1500.0, "tsamp": 6.4e-5, "nsamples": 2000000}
    hA = {"nchans": 32, "foff": -4.0, "fch1": 400.0, "tsamp": 2.0 ** -10, "nsamples": 102400}
    hD = {"nchans": 16, "foff": 2.0, "fch1": 300.0, "tsamp": 2.56e-4, "nsamples": 400000}
    hL = {"nchans": 4096, "foff": -400.0 / 4096, "fch1": 800.0, "tsamp": 1e-6, "nsamples": (1 << 32) + 12345}        # sample count beyond uint32
    hM = {"nchans": 131074, "foff": -400.0 / 131074, "fch1": 1400.0, "tsamp": 6.4e-5, "nsamples": (1 << 31) + 7}     # > 2**17 channels
    hN = {"nchans": 262145, "foff": 300.0 / 262145, "fch1": 1100.0, "tsamp": 2.56e-4, "nsamples": 3000000}          # ascending band
    hdrs = [hB, hA, hD, hL]
    p0s = [0.0334, 0.5, 0.1, 0.0016]
    dm0s = [56.7, 10.0, 100.0, 250.0]
    kinds = ["bits", "int", "extreme"]
    wi = 0

    def world(name, hp, shape, p0, dm0, kind):
        nonlocal wi
        wi += 1
        du, _pu = _sc_units(hp, shape, p0)
        return ScaleWorld(name, hp, shape, max(dm0, float(np.ceil(3 * du))), p0, kind, [seed, SC_SEED, wi])

    def explicit(W, n_each, t24=True):
        """a short history that visits the large shifts: n_each DM and n_each period targets in random order, one immediate repeat, one
        return to the folding DM in the middle"""
        g = np.random.default_rng([seed, SC_SEED, wi, 1])
        dms, ps = _sc_targets(W, t24)
        pick = lambda xs: [xs[1]] + [xs[int(j)] for j in (g.permutation(len(xs) - 2)[:n_each - 2] + 2)] + [xs[-2]]  # noqa: E731
        ops = [("dm", v) for v in pick(dms)] + [("p", v) for v in pick(ps)]
        ops = [ops[int(j)] for j in g.permutation(len(ops))]
        j = int(g.integers(1, len(ops)))
        ops.insert(j, ops[j - 1])
        ops.insert(len(ops) // 2, ("dm", W.dm0))
        return ops

    # ---- 1. profiles of 2**14 .. 2**24 bins: cube sizes just below / at / above 2**16, 2**18, 2**20, 2**22, 2**24, 2**25 ----------
    shapes = []
    for e in (14, 16, 18, 20, 22):
        shapes += [(2, 2, (1 << e) - 1), (2, 2, 1 << e), (2, 2, (1 << e) + 1)]
    shapes += [(3, 5, 69905), (5, 3, 69906), (7, 3, 199729), (1, 2, (1 << 24) + 1), (2, 1, (1 << 24) + 1)]
    for si, shape in enumerate(shapes):
        size = int(np.prod(shape))
        W = world(f"S{si}", hdrs[si % 4], shape, p0s[(si // 2) % 4], dm0s[si % 4], "bits" if size > (1 << 24) else kinds[si % 3])
        n_each = 5 if size <= (1 << 22) else 4 if size <= (1 << 24) + 64 else 3
        S.history(W, explicit(W, n_each), "explicit", every=1 if size <= (1 << 20) + 64 else 4)
        del W
        gc.collect()

    # ---- 2. many profiles: more than 2**16 / 2**18 sub-integrations, sub-bands, profiles --------------------------------------------
    for name, hp, shape, p0, n_each, extras in (("P0", hL, (65537, 1, 4), 0.0334, 3, True), ("P1", hM, (1, 65537, 4), 0.5, 3, True),
                                                ("P2", hB, (200, 200, 8), 0.1, 2, True), ("P3", hL, ((1 << 18) + 1, 1, 2), 0.0016, 0, False),
                                                ("P4", hN, (1, (1 << 18) + 1, 2), 0.0334, 0, False)):
        W = world(name, hp, shape, p0, 30.0, "int")
        if n_each:
            ops = [o for o in explicit(W, n_each, t24=False) if (o[0] == "p" or shape[1] > 1) and (o[0] == "dm" or shape[0] > 1)]
        else:                   # one update every profile of which moves, then straight back to the folding value
            dms, ps = _sc_targets(W, t24=False)
            ops = [("dm", dms[-2]), ("dm", W.dm0)] if shape[0] == 1 else [("p", ps[-2]), ("p", W.p0)]
        S.history(W, ops, "explicit", every=1 if not extras else 2, extras=extras)
        del W
        gc.collect()

    # ---- 3. long histories -------------------------------------------------------------------------------------------------------
    for name, hp, shape, p0, kind, n, mode, every in (("L0", hB, (4, 8, 64), 0.0334, "int", 4000, "fresh", 1),
                                                      ("L1", hA, (2, 3, 1000), 0.5, "extreme", 2500, "alphabet", 1),
                                                      ("L2", hD, (64, 64, 256), 0.1, "bits", 60, "fresh", 5),
                                                      ("L3", hL, (16, 16, 1024), 0.0016, "int", 300, "alphabet", 1),
                                                      ("L4", hA, (1, 2, 4096), 1.337, "bits", 1000, "fresh", 1),
                                                      ("L5", hD, (2, 1, 4096), 0.25, "extreme", 1000, "alphabet", 1)):
        W = world(name, hp, shape, p0, 56.7, kind)
        dms, ps = _sc_targets(W)
        hs = [seed, SC_SEED, wi, 2]
        ops = _sc_history(W, hs, n, mode, dms, ps)
        S.history(W, ops, f"{mode}-{n}", every=every,
                  gen=f"props/c17.py _sc_history(W, {hs}, {n}, {mode!r}, *_sc_targets(W)) -- {n} updates")
        del W
        gc.collect()

    # ---- 4. the delay bookkeeping alone beyond 2**22 / 2**24 sub-bands and sub-integrations (no data is touched) ---------------------
    for name, hp, shape, p0, which in (("D0", hL, ((1 << 24) + 5, 1, 1024), 0.0334, "p"), ("D1", hM, (1, (1 << 22) + 3, 1024), 0.5, "dm"),
                                       ("D2", hN, (1, (1 << 24) + 5, 512), 0.1, "dm"), ("D3", hB, ((1 << 20) + 1, 1, 65536), 0.25, "p")):
        wi += 1
        du, _pu = _sc_units(hp, shape, p0)
        W = ScaleWorld.__new__(ScaleWorld)
        World.__init__(W, name, hp, (1, 1, 1), max(30.0, float(np.ceil(3 * du))), p0, [0.0], [], [])
        W.shape, W.kind, W.seedseq = shape, "zeros", []
        W.cube0 = np.broadcast_to(np.float32(0), shape)
        W.describe = (lambda W=W: {"world": W.name, "header": W.hdrp, "shape": list(W.shape), "dm_fold": W.dm0, "period_fold": W.p0,
                                   "cube0": "numpy.broadcast_to(numpy.float32(0), shape): only _get_dmdelays / _get_pdelays are called"})
        dms, ps = _sc_targets(W)
        xs = dms if which == "dm" else ps
        S.delays(W, which, [xs[1], xs[-2], xs[-2], xs[0], xs[2], xs[-1]][:4 if shape[0] * shape[1] > (1 << 23) else 6], "delays-only")
        del W
        gc.collect()
    R.extra_cov["scale_failures_by_key"] = dict(sorted(S.count.items()))
    R.extra_cov["scale_law_crosscheck_slack_used"] = {k: round(v, 4) for k, v in S.maxerr.items()}
