"""C08 -- output metadata describes the output data.
Proof: Props/C08.v over Gen/C08.v (header updates of every API, regenerated from the source by tools/py2coq/gen_c08.py).
Correspondence: the regenerated header functions under vm_compute (exact rationals; binary64 twin of the frequency ->
channel quotient) versus the headers of the containers returned / files written by the implementation.
Oracle: the property restated in NumPy -- header fields of every product compared with the input rows actually present in
its data (frequencies 1e-6 relative and never more than 5% of a channel width, tstart 5 microseconds, on-disk bits per written
element, the DM recorded by the input kept by every product that does not dedisperse)."""
import os
import re
import shutil
from fractions import Fraction

import numpy as np

import filutil
import vlib

FTOL = 1e-6          # relative tolerance on frequencies (labels, channel spacing)
TTOL = 5e-6          # seconds, tstart
STOL = 1e-9          # relative tolerance on tsamp / dm


def call(f, *a, **k):
    try:
        return ("ok", f(*a, **k))
    except Exception as e:  # noqa: BLE001
        return ("exc", f"{type(e).__name__}: {str(e)[:140]}")


def q(x):
    fr = Fraction(float(x))
    return f"({fr.numerator} # {fr.denominator})"


def zlit(z):
    return str(int(z)) if z >= 0 else f"({int(z)})"


def hdr_term(h):
    """a sigpyproc Header (or a dict of its numeric fields) as a Coq Hdr literal"""
    g = (lambda k: h[k]) if isinstance(h, dict) else (lambda k: getattr(h, k))
    dt = {"filterbank": 1, "time series": 2}.get(g("data_type"), 0)
    return (f"(mkHdr {int(g('nchans'))} {int(g('nbits'))} {int(g('nsamples'))} {q(g('fch1'))} {q(g('foff'))} {q(g('tsamp'))} "
            f"{q(g('tstart'))} {q(g('dm'))} {dt})")


def hdict(h):
    return {k: (float(getattr(h, k)) if k in ("fch1", "foff", "tsamp", "tstart", "dm") else
                (int(getattr(h, k)) if k != "data_type" else str(getattr(h, k))))
            for k in ("nchans", "nbits", "nsamples", "fch1", "foff", "tsamp", "tstart", "dm", "data_type")}


def close(a, b, tol):
    return abs(a - b) <= tol * max(abs(a), abs(b))


def label(h, k):
    return h["fch1"] + k * h["foff"]


LFRAC = 0.05         # labels: never further than this fraction of a channel width (so a neighbouring channel's label never passes)


def ltol(a, b, foff):
    """tolerance on a label: FTOL relative, and at most LFRAC of the input's channel width"""
    return min(FTOL * max(abs(a), abs(b)), LFRAC * abs(foff))


def lclose(a, b, foff):
    return abs(a - b) <= ltol(a, b, foff)


def nearest(f, lab, foff):
    """the requested frequency f designates the channel labelled lab: FTOL relative and strictly nearer than the neighbours
    (0.45 of a channel leaves room for the float32 spelling chan_freqs[k] of narrow channels)"""
    return abs(f - lab) <= min(FTOL * max(abs(f), abs(lab)), 0.45 * abs(foff))


def col_sources(back, sel, expected):
    """back: samples x channels of a written file, sel: the input rows it was made from; for output column j the input channel
    holding the same samples (expected[j] when that is one of them, else the first such, else expected[j]): labels are compared
    with the input rows actually present in the data"""
    if back is None or back.shape[0] != sel.shape[0] or back.shape[1] != len(expected):
        return list(expected)
    out = []
    for j, e in enumerate(expected):
        hits = [c for c in range(sel.shape[1]) if np.array_equal(back[:, j], sel[:, c])]
        out.append(int(e) if (e in hits or not hits) else hits[0])
    return out


def find_offset(ref, out, prefer):
    """offsets o with ref[o:o+len(out)] == out (ref: 1-d or 2-d along axis 0); `prefer` if it is one of them"""
    n = len(out)
    hits = [o for o in range(0, len(ref) - n + 1) if np.array_equal(ref[o:o + n], out)]
    if not hits:
        return None
    return prefer if prefer in hits else hits[0]


def keeps_dm(ck, api, blk_in, blk_out):
    """a block made from another by a transform that applies no DM carries the DM attribute of its input"""
    if not close(float(blk_out.dm), float(blk_in.dm), STOL):
        ck.fail(api, "block-dm", "the DM attribute of the returned block is not that of the block it was made from",
                dm_in=float(blk_in.dm), dm_out=float(blk_out.dm))


class Checker:
    """the property, clause by clause, against one product"""

    def __init__(self, R, base):
        self.R, self.base = R, base

    def fail(self, api, clause, what, **kw):
        self.R.fail(f"{api}-{clause}", what, dict(self.base, api=api, **kw))

    def common(self, api, hin, hout, t0=None, tf=1, dm=None, extra=None):
        ex = dict(extra or {}, header_in=hin, header_out=hout)
        if tf is not None and not close(hout["tsamp"], hin["tsamp"] * tf, STOL):
            self.fail(api, "tsamp", "tsamp is not the input's times the time-decimation factor", **dict(ex, tfactor=tf))
        if t0 is not None:
            want = hin["tstart"] + t0 * hin["tsamp"] / 86400.0
            if abs(hout["tstart"] - want) * 86400.0 > TTOL:
                self.fail(api, "tstart", "tstart is not the input's advanced by start*tsamp (5 us)",
                          **dict(ex, first_input_sample=t0, error_seconds=(hout["tstart"] - want) * 86400.0))
        if dm is not None and not close(hout["dm"], dm, STOL):
            self.fail(api, "dm", "dm does not record the DM that was applied", **dict(ex, dm_applied=dm))

    def copy_labels(self, api, hin, hout, chans, extra=None):
        """output channel j was copied from input channel chans[j]"""
        for j, c in enumerate(chans):
            if not lclose(label(hout, j), label(hin, c), hin["foff"]):
                self.fail(api, "label", "label of an output channel differs from that of the input channel it was copied from",
                          out_channel=j, in_channel=int(c), out_label=label(hout, j), in_label=label(hin, c),
                          **dict(extra or {}, header_in=hin, header_out=hout))
                return False
        return True

    def sum_labels(self, api, hin, hout, factor, nout, extra=None, spacing=True):
        """output channel j is formed from input channels j*factor .. j*factor+factor-1; `spacing`: the product keeps a
        frequency axis (a filterbank file or block), so foff is the spacing of its channels"""
        ex = dict(extra or {}, header_in=hin, header_out=hout, factor=factor)
        if spacing:
            if not close(hout["foff"], hin["foff"] * factor, FTOL):
                self.fail(api, "foff", "channel spacing is not the input's scaled by the factor", **ex)
        for j in range(nout):
            a, b = label(hin, j * factor), label(hin, j * factor + factor - 1)
            lo, hi = min(a, b), max(a, b)
            x = label(hout, j)
            slack = ltol(lo, hi, hin["foff"])
            if not (lo - slack <= x <= hi + slack):
                self.fail(api, "label-span", "label of a summed/averaged channel lies outside the span of its inputs",
                          out_channel=j, out_label=x, span=[lo, hi], **ex)
                return


def run(R: vlib.Run):
    from sigpyproc.header import Header
    from sigpyproc.io import fileio
    from sigpyproc.readers import FilReader
    from sigpyproc.timeseries import TimeSeries

    R.rule = ("synthetic SIGPROC files over channelisations with fch1/foff not representable in binary (foff = +-0.1, +-1/3, random decimals) and "
              "dyadic controls (-4, -0.390625), input depths 8/32 (outputs 8/16/32), several tsamp/tstart; for each, every API that returns a container or writes a "
              "file is called on random (start, nsamps, gulp), channel selections, factors, sub-band counts and DMs; read_block is requested by the "
              "frequency of EVERY channel (float64 fch1+k*foff and the float32 chan_freqs[k]).  distinct = (api, channelisation, parameters); "
              "non-trivial = start > 0 or a channel other than the first or a factor > 1.  Every other pair of inputs records a DM (12.5) in its header; "
              "DMs of either sign (negative delays on ascending bands / negative DMs: dedisperse, subband, read_dedisp_block, block.dedisperse with "
              "ref_freq / only_valid_samples); nsamps left to its default for the file writers; channel selections in either order or left to their default; "
              "packed output depths (1/2/4 bits); a set of two files with the sub-range starting in the second; the columns of inverted / masked / "
              "requantized files are located in the input; labels are compared to 5% of a channel width")
    R.trusted += ["Coq 8.16.1 kernel + vm_compute (closed witnesses, Examples, correspondence)",
                  "primitive binary64 floats of Coq (PrimFloat/Uint63 primitives are listed by Print Assumptions) for the float twin of (f - fch1)/foff",
                  "tools/py2coq/gen_c08.py: Python ast -> exact Q/Z expressions; Header.new_header / prep_outfile are template-checked and modelled by hand "
                  "in Model/C08_rt.v (known keys override, unknown keys dropped), tied by the correspondence run",
                  "astropy Time/TimeDelta arithmetic is modelled as tstart + seconds/86400",
                  "the header of a set of files (Header.from_sigproc on a list) is modelled by hand as the first file's header with the sample counts added "
                  "(Model/C08_spec.v fileset), tied by the correspondence on real two-file sets",
                  "SIGPROC header encode/parse round trip (C05) when a written file is re-opened",
                  "correspondence harness and NumPy oracle tools/harness/props/c08.py"]
    R.assume += ["float64 evaluation of the header expressions stays within 1e-9 relative of the exact value (checked on every correspondence case)",
                 "the data handed to the writer / container are what C06/C07 prove; C08 only locates them to know which input rows they are",
                 "packed outputs (1/2/4 bits): every block handed to the writer is a whole number of bytes, i.e. gulp*nchans*nbits_out and nsamps*nchans*nbits_out "
                 "are multiples of 8 (FileWriter.cwrite packs block by block and drops the bits of an incomplete last byte: 64 samples x 6 channels requantized "
                 "to 1 bit with gulp=7 come out as 60 samples), and they are made from 8-bit inputs only (pack() refuses 16/32-bit data)",
                 "tstart + start*tsamp/86400 is demanded on days of 86400 s: no input starts on a UTC day that ends in a leap second (e.g. MJD 57753), where "
                 "astropy's UTC MJD (a day of 86401 s) differs from the SIGPROC convention by 11.6 us per second elapsed",
                 "FilterbankBlock.dedisperse(only_valid_samples=True): tstart is demanded only when no dispersion delay is negative (descending band and dm >= 0); "
                 "with a negative delay the first valid column of the reference channel is block sample max|delay| while tstart is left unchanged",
                 "the DM attribute of a block is demanded of read_block / read_dedisp_block / dedisperse and of the blocks FilterbankBlock.downsample / "
                 "normalise / pad_samples make from them (attribute and header are separate records; each must keep what the input block had)"]
    R.prove("Props/C08.v")
    R.need(["Model/C08_rt.vo", "Model/C08_spec.vo", "Gen/C08.vo"])

    rng = R.rng
    nprng = np.random.default_rng(R.seed + 8)
    d = os.path.join(vlib.SCRATCH, f"c08_{os.getpid()}")
    os.makedirs(d, exist_ok=True)
    corr = []      # Coq boolean terms, with a description for the replay
    idx_cases = []  # (fch1req, hfch1, hfoff, impl_index)

    # count the elements handed to FileWriter.cwrite per output file
    written = {}
    orig_cwrite = fileio.FileWriter.cwrite

    def counting_cwrite(self, arr):
        nm = str(self.files[0])
        written[nm] = written.get(nm, 0) + int(np.asarray(arr).size)
        return orig_cwrite(self, arr)
    fileio.FileWriter.cwrite = counting_cwrite
    from sigpyproc import readers as _readers
    orig_track = _readers.track
    _readers.track = lambda it, **k: it        # no progress bars from read_dedisp_block

    def reopen(path):
        h = Header.from_sigproc(path)
        hdrlen = h.stream_info.entries[0].hdrlen
        return h, hdrlen, os.path.getsize(path) - hdrlen

    def read_back(path, h, hdrlen):
        dt = {8: np.uint8, 16: np.uint16, 32: np.float32}.get(h.nbits)
        if dt is None or h.nchans < 1:
            return None
        a = np.fromfile(path, dtype=dt, offset=hdrlen)
        if a.size % h.nchans:
            return None
        return a.reshape(-1, h.nchans).astype(np.float64)

    def check_file(ck, api, path, hin, spec, params):
        """spec: dict(t0, tf, dm, nch, labels=('copy', chans)|('sum', factor)|None, depth)"""
        if not os.path.exists(path):
            ck.fail(api, "missing", "output file was not written", **params)
            return None
        h, hdrlen, datalen = reopen(path)
        ho = hdict(h)
        nel = written.get(os.path.abspath(path), written.get(path))
        ex = dict(params, elements_written=nel, data_bytes=datalen)
        if nel is None:
            R.red.append(f"harness: no cwrite recorded for {path}")
            return None
        if nel * ho["nbits"] != 8 * datalen:
            ck.fail(api, "ondisk-depth", "nbits of the header is not the number of bits per written sample", header_out=ho, **ex)
        elif ho["nchans"] < 1 or nel % ho["nchans"] or ho["nsamples"] * ho["nchans"] != nel:
            ck.fail(api, "nsamples", "nsamples x nchans of the re-opened header is not the number of samples written", header_out=ho, **ex)
        if spec.get("nch") is not None and ho["nchans"] != spec["nch"]:
            ck.fail(api, "nchans", "nchans of the header differs from the channels written per sample", header_out=ho, expected=spec["nch"], **ex)
        if spec.get("depth") is not None and ho["nbits"] != spec["depth"]:
            ck.fail(api, "nbits", "nbits of the header differs from the depth the API writes", header_out=ho, expected=spec["depth"], **ex)
        ck.common(api, hin, ho, t0=spec.get("t0"), tf=spec.get("tf", 1), dm=spec.get("dm"), extra=params)
        lab = spec.get("labels")
        if lab and lab[0] == "copy":
            ck.copy_labels(api, hin, ho, lab[1], extra=params)
        elif lab and lab[0] == "sum":
            ck.sum_labels(api, hin, ho, lab[1], ho["nchans"], extra=params)
        return h, hdrlen, ho

    try:
        # ---- channelisations ---------------------------------------------------------------------------------
        chans = [(1500.0, -0.1), (1400.0, -1.0 / 3.0), (1200.0, 0.1), (1100.0, 1.0 / 3.0), (1500.0, -4.0), (1382.3, -0.390625),
                 (2950.25, -0.0015)]      # channels narrower than 1e-6 of their frequency: a neighbour's label is within FTOL, not within LFRAC of a channel
        nrand = 8 if R.tier == "quick" else 40
        for _ in range(nrand):
            mag = rng.choice([0.0123, 0.05, 0.3, 0.7, 1.1, 2.3, 0.03125]) * rng.choice([1, 1, 3, 7]) / rng.choice([1, 3, 7, 9])
            chans.append((round(rng.uniform(300, 3000), rng.choice([0, 1, 2, 3])), mag * rng.choice([-1, -1, 1])))
        times = [(6.4e-5, 58000.123456789), (1e-3, 60000.0), (2.56e-4, 51544.999999), (1.0 / 3000.0, 59999.5)]
        ci = 0
        for fch1, foff in chans:
            ci += 1
            tsamp, tstart = times[ci % len(times)]
            nbits = (8, 32)[ci % 2]
            C = rng.choice([4, 6, 8, 12])
            N = rng.randrange(36, 64)
            hi = 200 if nbits == 8 else 1000
            X = nprng.integers(1, hi, (N, C))
            in_dm = (0.0, 12.5)[(ci // 2) % 2]        # every other pair of inputs is a file that records a DM (e.g. sub-banded data)
            path = filutil.write_fil(os.path.join(d, f"in{ci}.fil"), X, nbits, fch1=fch1, foff=foff, tsamp=tsamp, tstart=tstart, dm=in_dm)
            fil = FilReader(path)
            hin = hdict(fil.header)
            hin_t = hdr_term(fil.header)
            Xf = X.astype(np.float64)
            cfg = {"fch1": fch1, "foff": foff, "nchans": C, "nsamples": N, "nbits": nbits, "tsamp": tsamp, "tstart": tstart, "header_dm": in_dm}

            def block_dm(ck, api, b, extra=None):
                """a block read without dedispersion records the DM the input records"""
                if not close(float(b.dm), hin["dm"], STOL):
                    ck.fail(api, "block-dm", "the dm of a block read from the file is not the DM the input's header records",
                            block_dm=float(b.dm), header_in=hin, **(extra or {}))

            def dm_neg_delays():
                """a DM some of whose delays, as get_dmdelays returns them, are negative by 2 samples or more (ascending band: dm > 0,
                descending band: dm < 0), the smallest such on a geometric grid; None if the band is too narrow for any"""
                sgn = 1.0 if foff > 0 else -1.0
                for v in np.geomspace(1.0, 5000.0, 50):
                    if int(fil.header.get_dmdelays(sgn * float(v)).astype(int).min()) <= -2:
                        return sgn * float(v)
                return None

            def xq(f):
                """the binary64 value of the quotient (f - fch1)/foff, as the generated float twin evaluates it"""
                return (f"(float_to_Q (read_block_ratio_f ({float(f).hex()})%float ({float(hin['fch1']).hex()})%float "
                        f"({float(hin['foff']).hex()})%float))")

            def sub():
                """a random sub-range, biased to start > 0"""
                st = rng.choice([0, rng.randrange(1, N // 2), rng.randrange(1, N // 2)])
                ns = rng.randrange(8, N - st + 1)
                return st, ns, rng.choice([3, 5, 8, ns, ns + 3])

            # ---- read_block by frequency: every channel, both spellings of its frequency ----------------------
            cf32 = [float(v) for v in fil.header.chan_freqs]
            for k in range(C):
                for spelling, f in (("fch1+k*foff", fch1 + k * foff), ("chan_freqs[k]", cf32[k])):
                    n = rng.randrange(1, C - k + 1)
                    st = rng.randrange(0, N - 6)
                    ns = rng.randrange(2, min(8, N - st) + 1)
                    base = dict(cfg, start=st, nsamps=ns, channel=k, nchans_req=n, requested=f, spelling=spelling)
                    ck = Checker(R, base)
                    R.case(("read_block", ci, k, spelling, n), nontrivial=(k > 0), regime="read_block_by_freq",
                           sample=dict(base) if (ci, k, spelling) == (1, 3, "fch1+k*foff") else None)
                    kk, b = call(fil.read_block, st, ns, fch1=f, nchans=n)
                    if kk != "ok":
                        ck.fail("read_block", "refused", "a block requested by the frequency of an existing channel is refused", exc=b,
                                foff_sign=("+" if foff > 0 else "-"))
                        corr.append((f"match read_block_model_x {hin_t} {st} {ns} {q(f)} {n} {ns} {xq(f)} with None => true | Some _ => false end",
                                     dict(base, impl="ValueError")))
                        continue
                    ho = hdict(b.header)
                    rows = [np.flatnonzero([np.array_equal(b.data[j], Xf[st:st + ns, c]) for c in range(C)]) for j in range(b.data.shape[0])]
                    if b.data.shape != (ho["nchans"], ho["nsamples"]):
                        ck.fail("read_block", "shape", "nchans/nsamples of the header differ from the data's shape", shape=list(b.data.shape), header_out=ho)
                    if any(len(r) != 1 for r in rows):
                        ck.fail("read_block", "rows", "returned rows are not rows of the input at the requested samples", shape=list(b.data.shape))
                        continue
                    src = [int(r[0]) for r in rows]
                    if not nearest(f, label(hin, src[0]), hin["foff"]):
                        ck.fail("read_block", "freq-index", "requesting a channel's frequency returned a different channel",
                                returned_first_channel=src[0], its_label=label(hin, src[0]))
                    ck.copy_labels("read_block", hin, ho, src)
                    ck.common("read_block", hin, ho, t0=st, dm=hin["dm"])
                    block_dm(ck, "read_block", b)
                    corr.append((f"match read_block_model_x {hin_t} {st} {ns} {q(f)} {n} {ns} {xq(f)} with None => false | Some (cs, rows, hh) => "
                                 f"(cs =? {src[0]}) && (rows =? {b.data.shape[0]}) && hdr_close hh {hdr_term(b.header)} end", dict(base, impl=ho, impl_first_channel=src[0])))
                    idx_cases.append((f, hin["fch1"], hin["foff"], src[0]))
            # requests running past the last channel: either refused, or a consistent container
            for _ in range(2):
                k = rng.randrange(1, C)
                n = C - k + rng.randrange(1, 3)
                base = dict(cfg, start=0, nsamps=4, channel=k, nchans_req=n)
                R.case(("read_block_over", ci, k, n), regime="read_block_overrun")
                kk, b = call(fil.read_block, 0, 4, fch1=fch1 + k * foff, nchans=n)
                if kk == "ok" and b.data.shape[0] != b.header.nchans:
                    Checker(R, base).fail("read_block", "chan-overrun", "a request past the last channel returns a container whose nchans differs from its rows",
                                          shape=list(b.data.shape), header_nchans=int(b.header.nchans))
            # default request
            st, ns, _g = sub()
            kk, b = call(fil.read_block, st, ns)
            R.case(("read_block_default", ci, st, ns), nontrivial=st > 0, regime="read_block")
            ck = Checker(R, dict(cfg, start=st, nsamps=ns))
            if kk != "ok":
                ck.fail("read_block", "exception", "read_block raised", exc=b)
                continue
            ho = hdict(b.header)
            if b.data.shape != (ho["nchans"], ho["nsamples"]):
                ck.fail("read_block", "shape", "nchans/nsamples of the header differ from the data's shape", shape=list(b.data.shape), header_out=ho)
            t0 = find_offset(Xf, b.data.T, st)
            ck.common("read_block", hin, ho, t0=t0 if t0 is not None else st, dm=hin["dm"])
            ck.copy_labels("read_block", hin, ho, list(range(C)))
            block_dm(ck, "read_block", b)
            blk, blk_h, blk_t, blk_start = b, ho, hdr_term(b.header), st

            # ---- read_dedisp_block -----------------------------------------------------------------------------
            dms = [0.0] + [rng.uniform(0.5, 40.0) for _ in range(2)] + [-rng.uniform(0.5, 40.0)]
            for dm in dms:
                delays = fil.header.get_dmdelays(dm)
                lo, hi_ = int(max(0, -delays.min())), int(N - delays.max())
                if hi_ - lo < 4:
                    continue
                st = rng.randrange(lo, hi_ - 3)
                ns = rng.randrange(2, hi_ - st + 1)
                base = dict(cfg, start=st, nsamps=ns, dm=dm)
                ck = Checker(R, base)
                R.case(("read_dedisp_block", ci, st, ns, round(dm, 3)), nontrivial=st > 0, regime="read_dedisp_block")
                kk, b = call(fil.read_dedisp_block, st, ns, dm)
                if kk != "ok":
                    ck.fail("read_dedisp_block", "exception", "read_dedisp_block raised", exc=b)
                    continue
                ho = hdict(b.header)
                if b.data.shape != (ho["nchans"], ho["nsamples"]):
                    ck.fail("read_dedisp_block", "shape", "nchans/nsamples of the header differ from the data's shape", shape=list(b.data.shape), header_out=ho)
                ck.common("read_dedisp_block", hin, ho, t0=st)
                ck.copy_labels("read_dedisp_block", hin, ho, list(range(C)))
                if not (close(float(b.dm), dm, STOL) or close(ho["dm"], dm, STOL)):
                    ck.fail("read_dedisp_block", "dm", "neither the block nor its header records the DM applied", block_dm=float(b.dm), header_out=ho)
                corr.append((f"hdr_close (hdr_read_dedisp_block {hin_t} {st} {ns} {q(dm)}) {hdr_term(b.header)} && "
                             f"Qclose (1 # 1000000000) (cdm_read_dedisp_block {hin_t} {st} {ns} {q(dm)}) {q(b.dm)}", dict(base, impl=ho)))

            # ---- streaming reductions -> TimeSeries ------------------------------------------------------------
            ts_dd = ts_for_later = None
            for rep in range(2 if R.tier == "quick" else 4):
                st, ns, gulp = sub()
                none = (rep == 1)
                kw = dict(gulp=gulp, start=st, quiet=True) if none else dict(gulp=gulp, start=st, nsamps=ns, quiet=True)
                nsel = N - st if none else ns
                base = dict(cfg, start=st, nsamps=None if none else ns, gulp=gulp)
                ck = Checker(R, base)
                coq_ns = f"{ns} {'true' if none else 'false'}"
                # collapse
                R.case(("collapse", ci, st, nsel, gulp), nontrivial=st > 0, regime="collapse",
                       sample=dict(base, api="collapse") if ci == 2 and rep == 0 else None)
                kk, t = call(fil.collapse, **kw)
                if kk != "ok":
                    ck.fail("collapse", "exception", "collapse raised", exc=t)
                else:
                    ho = hdict(t.header)
                    if len(t.data) != ho["nsamples"] or ho["nchans"] != 1:
                        ck.fail("collapse", "shape", "nsamples/nchans differ from the data's shape", length=len(t.data), header_out=ho)
                    t0 = find_offset(Xf.sum(1), np.asarray(t.data, dtype=np.float64), st)
                    ck.common("collapse", hin, ho, t0=st if t0 is None else t0, dm=0.0)
                    ck.sum_labels("collapse", hin, ho, C, 1, spacing=False)
                    corr.append((f"hdr_close (hdr_collapse {hin_t} {st} {coq_ns}) {hdr_term(t.header)} && (datalen_collapse {hin_t} {st} {coq_ns} =? {len(t.data)})",
                                 dict(base, api="collapse", impl=ho)))
                    ts_for_later = t
                # bandpass (a spectrum held in a TimeSeries: only the shape clause applies)
                R.case(("bandpass", ci, st, nsel, gulp), nontrivial=st > 0, regime="bandpass")
                kk, t = call(fil.bandpass, **kw)
                if kk != "ok":
                    ck.fail("bandpass", "exception", "bandpass raised", exc=t)
                else:
                    ho = hdict(t.header)
                    if len(t.data) != ho["nsamples"] or ho["nchans"] != 1:
                        ck.fail("bandpass", "shape", "nsamples/nchans differ from the data's shape", length=len(t.data), header_out=ho)
                    corr.append((f"(h_nsamples (hdr_bandpass {hin_t} {st} {coq_ns}) =? {ho['nsamples']}) && (h_nchans (hdr_bandpass {hin_t} {st} {coq_ns}) =? {ho['nchans']})",
                                 dict(base, api="bandpass", impl=ho)))
                # read_chan
                ich = rng.randrange(C)
                R.case(("read_chan", ci, st, nsel, gulp, ich), nontrivial=st > 0 or ich > 0, regime="read_chan")
                kk, t = call(fil.read_chan, ich, **kw)
                if kk != "ok":
                    ck.fail("read_chan", "exception", "read_chan raised", exc=t, ichan=ich)
                else:
                    ho = hdict(t.header)
                    if len(t.data) != ho["nsamples"] or ho["nchans"] != 1:
                        ck.fail("read_chan", "shape", "nsamples/nchans differ from the data's shape", length=len(t.data), header_out=ho)
                    found = [(c, find_offset(Xf[:, c], np.asarray(t.data, dtype=np.float64), st)) for c in range(C)]
                    found = [(c, o) for c, o in found if o is not None]
                    c0, t0 = (ich, st) if (ich, st) in found or not found else found[0]
                    ck.common("read_chan", hin, ho, t0=t0, dm=0.0, extra={"ichan": ich})
                    ck.copy_labels("read_chan", hin, ho, [c0], extra={"ichan": ich})
                    corr.append((f"hdr_close (hdr_read_chan {hin_t} {ich} {st} {coq_ns}) {hdr_term(t.header)}", dict(base, api="read_chan", ichan=ich, impl=ho)))
                # dedisperse
                dm = rng.choice([0.0, rng.uniform(0.5, 30.0), rng.uniform(30.0, 300.0)]) * rng.choice([1, 1, -1]) + 0.0      # + 0.0: no -0.0
                if rep == 0 and dm_neg_delays() is not None:
                    dm = dm_neg_delays()
                delays = fil.header.get_dmdelays(dm).astype(int)
                # ascending band / negative DM: some delays are negative; the delays are then referred to the earliest channel
                neg = int(delays.min()) < 0
                rawmin, rawmax = int(delays.min()), int(delays.max())      # as get_dmdelays returns them: the model refers them itself
                delays = delays - min(0, int(delays.min()))
                md = int(delays.max())
                if md < nsel - 1:
                    R.case(("dedisperse", ci, st, nsel, gulp, md, neg), nontrivial=st > 0 or md > 0,
                           regime="dedisperse_negative_delays" if neg else "dedisperse")
                    kk, t = call(fil.dedisperse, dm, **kw)
                    if kk != "ok":
                        ck.fail("dedisperse", "exception", "dedisperse raised", exc=t, dm=dm, max_delay=md)
                    else:
                        ho = hdict(t.header)
                        if len(t.data) != ho["nsamples"] or ho["nchans"] != 1:
                            ck.fail("dedisperse", "shape", "nsamples/nchans differ from the data's shape", length=len(t.data), header_out=ho)
                        ref = np.zeros(N - md)
                        for c in range(C):
                            ref += Xf[delays[c]:delays[c] + N - md, c]
                        t0 = find_offset(ref, np.asarray(t.data, dtype=np.float64), st)
                        ck.common("dedisperse", hin, ho, t0=st if t0 is None else t0, dm=dm, extra={"dm": dm, "max_delay": md})
                        ck.sum_labels("dedisperse", hin, ho, C, 1, spacing=False)
                        mdt = f"(max_delay_referred {zlit(rawmin)} {zlit(rawmax)})"
                        corr.append((f"hdr_close (hdr_dedisperse {hin_t} {q(dm)} {st} {coq_ns} {mdt}) {hdr_term(t.header)} && "
                                     f"(datalen_dedisperse {hin_t} {q(dm)} {st} {coq_ns} {mdt} =? {len(t.data)}) && ({mdt} =? {md})",
                                     dict(base, api="dedisperse", dm=dm, raw_delays=[rawmin, rawmax], impl=ho)))
                        if dm != 0.0 and len(t.data) >= 16:
                            ts_dd = t

            # ---- files written by the streaming transforms ------------------------------------------------------
            def out(name):
                p = os.path.join(d, f"o{ci}_{name}")
                written.pop(p, None)
                return p

            for rep in range(2 if R.tier == "quick" else 4):
                st, ns, gulp = sub()
                none = (rep == 1)            # nsamps left to its default: everything from start to the end of the file
                if none:
                    ns = N - st
                base = dict(cfg, start=st, nsamps=None if none else ns, gulp=gulp)
                ck = Checker(R, base)
                kw = dict(gulp=gulp, start=st, quiet=True) if none else dict(gulp=gulp, start=st, nsamps=ns, quiet=True)
                sel = Xf[st:st + ns]
                dtc = {"filterbank": 1, "time series": 2}
                hdm = hin["dm"]              # transforms that do not dedisperse keep the DM the input records

                def located(p, expected, rows=None):
                    """the input channel found in each column of the written file (expected[j] unless the data say otherwise)"""
                    if not os.path.exists(p):
                        return list(expected)
                    hh = reopen(p)
                    return col_sources(read_back(p, hh[0], hh[1]), sel if rows is None else rows, expected)

                def corr_file(api, args, h, depth_known=True):
                    corr.append((f"file_close (hdr_{api} {hin_t} {args}) {hdr_term(h)} && (depth_{api} {hin_t} {args} =? {int(h.nbits)})",
                                 dict(base, api=api, args=args, impl=hdict(h))))

                # invert_freq
                R.case(("invert_freq", ci, st, ns, gulp), nontrivial=True, regime="invert_freq")
                p = out("inv.fil")
                kk, r = call(fil.invert_freq, p, **kw)
                if kk != "ok":
                    ck.fail("invert_freq", "exception", "invert_freq raised", exc=r)
                else:
                    res = check_file(ck, "invert_freq", p, hin, dict(t0=st, dm=hdm, nch=C, depth=nbits,
                                                                     labels=("copy", located(p, list(range(C - 1, -1, -1))))), {})
                    if res:
                        corr_file("invert_freq", f"{st}", res[0])
                # apply_channel_mask
                R.case(("apply_channel_mask", ci, st, ns, gulp), nontrivial=st > 0, regime="apply_channel_mask")
                p = out("mask.fil")
                mask = np.zeros(C, dtype=bool); mask[rng.randrange(C)] = True
                kk, r = call(fil.apply_channel_mask, mask, 0, p, **kw)
                if kk != "ok":
                    ck.fail("apply_channel_mask", "exception", "apply_channel_mask raised", exc=r)
                else:
                    res = check_file(ck, "apply_channel_mask", p, hin, dict(t0=st, dm=hdm, nch=C, depth=nbits, labels=("copy", located(p, list(range(C))))), {})
                    if res:
                        corr_file("apply_channel_mask", f"{st}", res[0])
                # downsample
                tf = rng.choice([1, 2, 3]); ff = rng.choice([f for f in (1, 2, 3, 4) if C % f == 0])
                R.case(("downsample", ci, st, ns, gulp, tf, ff), nontrivial=True, regime="downsample")
                p = out("ds.fil")
                kk, r = call(fil.downsample, tf, ff, p, **kw)
                if kk != "ok":
                    ck.fail("downsample", "exception", "downsample raised", exc=r, tfactor=tf, ffactor=ff)
                else:
                    res = check_file(ck, "downsample", p, hin, dict(t0=st, tf=tf, dm=hdm, nch=C // ff, depth=nbits, labels=("sum", ff)), dict(tfactor=tf, ffactor=ff))
                    if res:
                        corr_file("downsample", f"{tf} {ff} {st}", res[0])
                # extract_samps
                R.case(("extract_samps", ci, st, ns, gulp), nontrivial=st > 0, regime="extract_samps")
                p = out("samps.fil")
                kk, r = call(fil.extract_samps, st, ns, p, gulp=gulp, quiet=True)
                if kk != "ok":
                    ck.fail("extract_samps", "exception", "extract_samps raised", exc=r)
                else:
                    t0 = st
                    hh = reopen(p)
                    back = read_back(p, hh[0], hh[1])
                    if back is not None and back.shape[1] == C:
                        o = find_offset(Xf, back, st)
                        t0 = st if o is None else o
                    res = check_file(ck, "extract_samps", p, hin, dict(t0=t0, dm=hdm, nch=C, depth=nbits, labels=("copy", list(range(C)))), {})
                    if res:
                        corr_file("extract_samps", f"{st} {ns}", res[0])
                # extract_chans
                chs = sorted(rng.sample(range(C), 2))
                chmode = rng.choice(["ascending", "descending", "default"])      # the selection in either order, or left to its default (all channels)
                if chmode == "descending":
                    chs = chs[::-1]
                elif chmode == "default":
                    chs = list(range(C))
                R.case(("extract_chans", ci, st, ns, gulp, tuple(chs), chmode), nontrivial=True, regime="extract_chans")
                basep = os.path.join(d, f"o{ci}_ch")
                for c in chs:
                    written.pop(f"{basep}_chan{c:04d}.tim", None)
                bs = rng.choice([1, 200])
                kk, r = call(fil.extract_chans, None if chmode == "default" else chs, basep, batch_size=bs, **kw)
                if kk != "ok":
                    ck.fail("extract_chans", "exception", "extract_chans raised", exc=r, chans=chs)
                else:
                    for c, p in zip(chs, r):
                        c0, t0 = c, st
                        if os.path.exists(p):
                            hh = reopen(p)
                            back = read_back(p, hh[0], hh[1])
                            if back is not None and back.shape[1] == 1:
                                found = [(cc, find_offset(Xf[:, cc], back[:, 0], st)) for cc in range(C)]
                                found = [(cc, o) for cc, o in found if o is not None]
                                if found and (c, st) not in found:
                                    c0, t0 = found[0]
                        res = check_file(ck, "extract_chans", p, hin, dict(t0=t0, dm=hdm, nch=1, depth=32, labels=("copy", [c0])), dict(chan=c, selection=chmode))
                        if res:
                            corr_file("extract_chans", f"{c} {st}", res[0])
                # extract_bands
                cps = rng.choice([x for x in (2, 3, 4) if x <= C])
                nb = rng.randrange(1, C // cps + 1)
                cstart = rng.randrange(0, C - nb * cps + 1)
                R.case(("extract_bands", ci, st, ns, gulp, cstart, nb, cps), nontrivial=True, regime="extract_bands")  # batch size drawn below
                basep = os.path.join(d, f"o{ci}_bd")
                for i in range(C):
                    written.pop(f"{basep}_sub{i:02d}.fil", None)
                bs = rng.choice([1, 2, 200])
                cps_arg = None if (nb == 1 and rng.random() < 0.5) else cps          # chanpersub left to its default (= nchans: one band)
                kk, r = call(fil.extract_bands, cstart, nb * cps, cps_arg, basep, batch_size=bs, **kw)
                if kk != "ok":
                    ck.fail("extract_bands", "exception", "extract_bands raised", exc=r, chanstart=cstart, nchans_sel=nb * cps, chanpersub=cps)
                else:
                    for i, p in enumerate(r):
                        c0 = cstart + i * cps
                        if os.path.exists(p):
                            hh = reopen(p)
                            back = read_back(p, hh[0], hh[1])
                            if back is not None and back.shape[1] == cps and back.shape[0] == ns:
                                hits = [cc for cc in range(C - cps + 1) if np.array_equal(back, sel[:, cc:cc + cps])]
                                if hits and c0 not in hits:
                                    c0 = hits[0]
                        res = check_file(ck, "extract_bands", p, hin, dict(t0=st, dm=hdm, nch=cps, depth=nbits, labels=("copy", list(range(c0, c0 + cps)))),
                                         dict(chanstart=cstart, chanpersub=cps_arg, band=i, batch_size=bs))
                        if res:
                            corr_file("extract_bands", f"{cstart} {cps} {(i // bs) * bs} {i % bs} {st}", res[0])
                # requantize
                # packed depths (1/2/4 bits) only from 8-bit inputs and only with whole bytes per block (see R.assume): gulp and nsamps multiples of 8
                nbo = rng.choice([1, 2, 4, 8, 16, 32] if nbits == 8 else [8, 16, 32])
                kwq, nsq = kw, ns
                if nbo < 8:
                    nsq = ns - ns % 8
                    kwq = dict(gulp=-(-gulp // 8) * 8, start=st, nsamps=nsq, quiet=True)
                R.case(("requantize", ci, st, nsq, kwq["gulp"], nbo), nontrivial=True, regime="requantize_packed" if nbo < 8 else "requantize")
                p = out("rq.fil")
                kk, r = call(fil.requantize, nbo, p, **kwq)
                if kk != "ok":
                    ck.fail("requantize", "exception", "requantize raised", exc=r, nbits_out=nbo, **({"gulp": kwq["gulp"], "nsamps": nsq} if nbo < 8 else {}))
                else:
                    res = check_file(ck, "requantize", p, hin, dict(t0=st, dm=hdm, nch=C, depth=nbo, labels=("copy", located(p, list(range(C)), Xf[st:st + nsq]))),
                                     dict(nbits_out=nbo, **({"gulp": kwq["gulp"], "nsamps": nsq} if nbo < 8 else {})))
                    if res:
                        corr_file("requantize", f"{nbo} {st}", res[0])
                # remove_zerodm
                R.case(("remove_zerodm", ci, st, ns, gulp), nontrivial=st > 0, regime="remove_zerodm")
                p = out("zdm.fil")
                kk, r = call(fil.remove_zerodm, p, **kw)
                if kk != "ok":
                    ck.fail("remove_zerodm", "exception", "remove_zerodm raised", exc=r)
                else:
                    res = check_file(ck, "remove_zerodm", p, hin, dict(t0=st, dm=hdm, nch=C, depth=nbits, labels=("copy", list(range(C)))), {})
                    if res:
                        corr_file("remove_zerodm", f"{st}", res[0])
                # subband
                nsub = rng.choice([x for x in (1, 2, 3, 4, 6) if C % x == 0])
                dm = rng.choice([0.0, rng.uniform(0.5, 30.0), rng.uniform(30.0, 200.0)]) * rng.choice([1, 1, -1]) + 0.0      # + 0.0: no -0.0
                if rep == 0 and dm_neg_delays() is not None:
                    dm = dm_neg_delays()
                delays = fil.header.get_dmdelays(dm).astype(int)
                neg = int(delays.min()) < 0       # ascending band / negative DM: delays referred to the earliest channel
                delays = delays - min(0, int(delays.min()))
                md = int(delays.max())
                if md < ns - 1:
                    R.case(("subband", ci, st, ns, gulp, nsub, md, neg), nontrivial=True, regime="subband_negative_delays" if neg else "subband",
                           sample=dict(base, api="subband", dm=dm, nsub=nsub, max_delay=md) if ci <= 2 and rep == 0 else None)
                    p = out("sb.fil")
                    kk, r = call(fil.subband, dm, nsub, p, **kw)
                    if kk != "ok":
                        ck.fail("subband", "exception", "subband raised", exc=r, dm=dm, nsub=nsub)
                    else:
                        res = check_file(ck, "subband", p, hin, dict(t0=st, dm=dm, nch=nsub, depth=32, labels=("sum", C // nsub)), dict(dm=dm, nsub=nsub, max_delay=md))
                        if res:
                            corr_file("subband", f"{q(dm)} {nsub} {st}", res[0])

            # ---- products of a block ------------------------------------------------------------------------------
            base = dict(cfg, block_start=blk_start, block_nsamps=int(blk.data.shape[1]))
            ck = Checker(R, base)
            ff = rng.choice([f for f in (1, 2, 3, 4) if C % f == 0]); tf = rng.choice([1, 2, 3, 5])
            R.case(("block_downsample", ci, ff, tf), nontrivial=True, regime="block_downsample")
            kk, b = call(blk.downsample, ff, tf)
            if kk != "ok":
                ck.fail("block.downsample", "exception", "FilterbankBlock.downsample raised", exc=b, ffactor=ff, tfactor=tf)
            else:
                ho = hdict(b.header)
                if b.data.shape != (ho["nchans"], ho["nsamples"]):
                    ck.fail("block.downsample", "shape", "nchans/nsamples differ from the data's shape", shape=list(b.data.shape), header_out=ho, ffactor=ff, tfactor=tf)
                ck.common("block.downsample", blk_h, ho, t0=0, tf=tf, dm=blk_h["dm"], extra=dict(ffactor=ff, tfactor=tf))
                ck.sum_labels("block.downsample", blk_h, ho, ff, ho["nchans"], extra=dict(ffactor=ff, tfactor=tf))
                corr.append((f"hdr_close (hdr_block_downsample {blk_t} {ff} {tf} {q(blk.dm)}) {hdr_term(b.header)}", dict(base, api="block.downsample", ffactor=ff, tfactor=tf, impl=ho)))
                corr.append((f"Qclose (1 # 1000000000) (cdm_block_downsample {blk_t} {ff} {tf} {q(blk.dm)}) {q(b.dm)}", dict(base, api="block.downsample", ffactor=ff, tfactor=tf, impl=ho)))
                keeps_dm(ck, "block.downsample", blk, b)
            kk, b = call(blk.normalise)
            R.case(("block_normalise", ci), nontrivial=False, regime="block_other")
            if kk != "ok":
                ck.fail("block.normalise", "exception", "FilterbankBlock.normalise raised", exc=b)
            else:
                if b.data.shape != (b.header.nchans, b.header.nsamples):
                    ck.fail("block.normalise", "shape", "nchans/nsamples differ from the data's shape", shape=list(b.data.shape))
                ck.common("block.normalise", blk_h, hdict(b.header), t0=0, dm=blk_h["dm"])
                ck.copy_labels("block.normalise", blk_h, hdict(b.header), list(range(C)))
                keeps_dm(ck, "block.normalise", blk, b)
                corr.append((f"hdr_close (hdr_block_normalise {blk_t}) {hdr_term(b.header)} && Qclose (1 # 1000000000) (cdm_block_new_like {q(blk.dm)}) {q(b.dm)}",
                             dict(base, api="block.normalise", impl=hdict(b.header))))
            nfin = blk.data.shape[1] + rng.randrange(1, 9)
            poff = rng.randrange(0, nfin - blk.data.shape[1] + 1)
            kk, b = call(blk.pad_samples, nfin, poff)
            R.case(("block_pad", ci, nfin), nontrivial=True, regime="block_other")
            if kk != "ok":
                ck.fail("block.pad_samples", "exception", "pad_samples raised", exc=b)
            else:
                if b.data.shape != (b.header.nchans, b.header.nsamples):
                    ck.fail("block.pad_samples", "shape", "nchans/nsamples differ from the data's shape", shape=list(b.data.shape))
                # column 0 of the padded block lies `offset` samples before the data: tstart moves back by the leading pad
                ck.common("block.pad_samples", blk_h, hdict(b.header), t0=-poff, dm=blk_h["dm"], extra=dict(nsamps_final=nfin, offset=poff))
                keeps_dm(ck, "block.pad_samples", blk, b)
                ck.copy_labels("block.pad_samples", blk_h, hdict(b.header), list(range(C)), extra=dict(nsamps_final=nfin, offset=poff))
                corr.append((f"hdr_close (hdr_block_pad_samples {blk_t} {nfin} {poff}) {hdr_term(b.header)}", dict(base, api="block.pad_samples", impl=hdict(b.header))))
            # the block as read (not dedispersed): its time series and the file written from it record the DM of the input
            kk, t = call(blk.get_tim)
            R.case(("block_get_tim_plain", ci), nontrivial=blk_h["dm"] != 0, regime="block_get_tim")
            if kk != "ok":
                ck.fail("block.get_tim", "exception", "get_tim raised", exc=t)
            else:
                ho = hdict(t.header)
                if len(t.data) != ho["nsamples"] or ho["nchans"] != 1:
                    ck.fail("block.get_tim", "shape", "nsamples/nchans differ from the data's shape", length=len(t.data), header_out=ho)
                ck.common("block.get_tim", blk_h, ho, t0=0, dm=blk_h["dm"], extra=dict(dedispersed=False))
                ck.sum_labels("block.get_tim", blk_h, ho, C, 1, spacing=False)
                corr.append((f"hdr_close (hdr_block_get_tim {blk_t} {q(blk.dm)}) {hdr_term(t.header)}", dict(base, api="block.get_tim", dedispersed=False, impl=ho)))
            p = out("blkp.fil")
            kk, r = call(blk.to_file, p)
            R.case(("block_to_file_plain", ci), nontrivial=blk_h["dm"] != 0, regime="block_to_file")
            if kk != "ok":
                ck.fail("block.to_file", "exception", "to_file raised", exc=r)
            else:
                res = check_file(ck, "block.to_file", p, blk_h, dict(t0=0, dm=blk_h["dm"], nch=C, depth=32, labels=("copy", list(range(C)))), dict(dedispersed=False))
                if res:
                    corr.append((f"file_close (hdr_block_to_file {blk_t} {q(blk.dm)}) {hdr_term(res[0])} && (depth_block_to_file {blk_t} {q(blk.dm)} =? {int(res[0].nbits)})",
                                 dict(base, api="block.to_file", dedispersed=False, impl=res[2])))
            # dedispersion options: another reference frequency (a rotation: nothing else changes), valid samples only
            dmv = rng.choice([rng.uniform(1.0, 60.0), rng.uniform(60.0, 600.0)]) * rng.choice([1, 1, -1])
            for opt, kwd in (("ref_center", dict(ref_freq="center")), ("only_valid", dict(only_valid_samples=True))):
                dl = np.asarray(blk.header.get_dmdelays(dmv)).astype(int)
                if opt == "only_valid" and int(dl.max()) - int(dl.min()) >= blk.data.shape[1] - 1:
                    continue        # not enough samples: the documented ValueError
                R.case(("block_dedisperse_" + opt, ci, round(dmv, 3)), nontrivial=True, regime="block_dedisperse_options")
                kk, bv = call(blk.dedisperse, dmv, **kwd)
                api = "block.dedisperse." + opt
                if kk != "ok":
                    ck.fail(api, "exception", "FilterbankBlock.dedisperse raised", exc=bv, dm=dmv, **kwd)
                    continue
                ho = hdict(bv.header)
                if bv.data.shape != (ho["nchans"], ho["nsamples"]):
                    ck.fail(api, "shape", "nchans/nsamples differ from the data's shape", shape=list(bv.data.shape), header_out=ho, dm=dmv)
                if not (close(float(bv.dm), dmv, STOL) or close(ho["dm"], dmv, STOL)):
                    ck.fail(api, "dm", "neither the block nor its header records the DM applied", block_dm=float(bv.dm), header_out=ho, dm=dmv)
                t0v = 0
                if opt == "only_valid":
                    # the first column kept, for the reference channel (delay 0): demanded when no delay is negative (see R.assume)
                    o = find_offset(blk.data[0], bv.data[0], 0) if bv.data.shape[1] <= blk.data.shape[1] else None
                    t0v = o if (o is not None and int(dl.min()) >= 0) else None
                    if bv.data.shape[1] != blk.data.shape[1] - (int(dl.max()) - int(dl.min())):
                        ck.fail(api, "valid-length", "the number of valid samples is not the block length less the spread of the delays",
                                shape=list(bv.data.shape), delays=[int(dl.min()), int(dl.max())], dm=dmv)
                ck.common(api, blk_h, ho, t0=t0v, extra=dict(dm=dmv))
                ck.copy_labels(api, blk_h, ho, list(range(C)), extra=dict(dm=dmv))
                if opt == "only_valid":
                    nb_, dmn_, dmx_ = blk.data.shape[1], zlit(int(dl.min())), zlit(int(dl.max()))
                    corr.append((f"(block_valid_cols {nb_} {dmn_} {dmx_} =? {bv.data.shape[1]})" +
                                 (f" && (block_valid_start {nb_} {dmn_} {dmx_} =? {o})" if o is not None else ""),
                                 dict(base, api=api, dm=dmv, delays=[int(dl.min()), int(dl.max())], first_column_is_block_sample=o, impl=ho)))
                corr.append((f"hdr_close (hdr_block_dedisperse {blk_t} {q(dmv)} {bv.data.shape[1]}) {hdr_term(bv.header)} && "
                             f"Qclose (1 # 1000000000) (cdm_block_dedisperse {blk_t} {q(dmv)} {bv.data.shape[1]}) {q(bv.dm)}", dict(base, api=api, dm=dmv, impl=ho)))
            dm = rng.uniform(1.0, 60.0) * rng.choice([1, 1, -1])
            kk, bd = call(blk.dedisperse, dm)
            R.case(("block_dedisperse", ci, round(dm, 3)), nontrivial=True, regime="block_dedisperse")
            if kk != "ok":
                ck.fail("block.dedisperse", "exception", "FilterbankBlock.dedisperse raised", exc=bd, dm=dm)
            else:
                ho = hdict(bd.header)
                if bd.data.shape != (ho["nchans"], ho["nsamples"]):
                    ck.fail("block.dedisperse", "shape", "nchans/nsamples differ from the data's shape", shape=list(bd.data.shape), header_out=ho)
                if not (close(float(bd.dm), dm, STOL) or close(ho["dm"], dm, STOL)):
                    ck.fail("block.dedisperse", "dm", "neither the block nor its header records the DM applied", block_dm=float(bd.dm), header_out=ho, dm=dm)
                ck.common("block.dedisperse", blk_h, ho, t0=0, extra=dict(dm=dm))
                ck.copy_labels("block.dedisperse", blk_h, ho, list(range(C)))
                corr.append((f"hdr_close (hdr_block_dedisperse {blk_t} {q(dm)} {bd.data.shape[1]}) {hdr_term(bd.header)} && "
                             f"Qclose (1 # 1000000000) (cdm_block_dedisperse {blk_t} {q(dm)} {bd.data.shape[1]}) {q(bd.dm)}", dict(base, api="block.dedisperse", dm=dm, impl=ho)))
                # time series of the dedispersed block
                kk, t = call(bd.get_tim)
                R.case(("block_get_tim", ci), nontrivial=True, regime="block_get_tim")
                if kk != "ok":
                    ck.fail("block.get_tim", "exception", "get_tim raised", exc=t)
                else:
                    ho = hdict(t.header)
                    if len(t.data) != ho["nsamples"] or ho["nchans"] != 1:
                        ck.fail("block.get_tim", "shape", "nsamples/nchans differ from the data's shape", length=len(t.data), header_out=ho)
                    ck.common("block.get_tim", blk_h, ho, t0=0, dm=dm, extra=dict(dm=dm))
                    ck.sum_labels("block.get_tim", blk_h, ho, C, 1, spacing=False)
                    corr.append((f"hdr_close (hdr_block_get_tim {hdr_term(bd.header)} {q(bd.dm)}) {hdr_term(t.header)}", dict(base, api="block.get_tim", impl=ho)))
                # the dedispersed block written to a file
                p = out("blk.fil")
                kk, r = call(bd.to_file, p)
                R.case(("block_to_file", ci), nontrivial=True, regime="block_to_file")
                if kk != "ok":
                    ck.fail("block.to_file", "exception", "to_file raised", exc=r)
                else:
                    res = check_file(ck, "block.to_file", p, hdict(bd.header), dict(t0=0, dm=dm, nch=C, depth=32, labels=("copy", list(range(C)))), dict(dm=dm))
                    if res:
                        corr.append((f"file_close (hdr_block_to_file {hdr_term(bd.header)} {q(bd.dm)}) {hdr_term(res[0])} && (depth_block_to_file {hdr_term(bd.header)} {q(bd.dm)} =? {int(res[0].nbits)})",
                                     dict(base, api="block.to_file", dm=dm, impl=res[2])))
            kk, b = call(blk.dmt_transform, 20.0, 4)
            R.case(("block_dmt", ci), nontrivial=False, regime="block_other")
            if kk != "ok":
                ck.fail("block.dmt_transform", "exception", "dmt_transform raised", exc=b)
            else:
                if b.data.shape[1] != b.header.nsamples:
                    ck.fail("block.dmt_transform", "shape", "nsamples differs from the data's length", shape=list(b.data.shape))
                ck.common("block.dmt_transform", blk_h, hdict(b.header), t0=0)

            # ---- products of a time series -------------------------------------------------------------------------
            for of, t in (("collapse", ts_for_later), ("dedisperse", ts_dd)):      # dedisperse: a series whose DM is not 0
                if t is None:
                    continue
                th, tt = hdict(t.header), hdr_term(t.header)
                base = dict(cfg, timeseries_of=of, length=len(t.data))
                ck = Checker(R, base)
                fac = rng.choice([2, 3, 5])
                kk, u = call(t.downsample, fac)
                R.case(("ts_downsample", ci, fac, of), nontrivial=True, regime="ts_downsample")
                if kk != "ok":
                    ck.fail("ts.downsample", "exception", "TimeSeries.downsample raised", exc=u, factor=fac)
                else:
                    ho = hdict(u.header)
                    if len(u.data) != ho["nsamples"]:
                        ck.fail("ts.downsample", "shape", "nsamples differs from the data's length", length=len(u.data), header_out=ho)
                    ck.common("ts.downsample", th, ho, t0=0, tf=fac, dm=th["dm"], extra=dict(factor=fac))
                    corr.append((f"hdr_close (hdr_ts_downsample {tt} {fac} {len(u.data)}) {hdr_term(u.header)}", dict(base, api="ts.downsample", factor=fac, impl=ho)))
                for nm, fn, args in (("pad", t.pad, (rng.randrange(1, 9),)), ("resample", t.resample, (rng.uniform(-50, 50),))):
                    kk, u = call(fn, *args)
                    R.case(("ts_" + nm, ci, of), nontrivial=False, regime="ts_other")
                    if kk != "ok":
                        ck.fail("ts." + nm, "exception", f"TimeSeries.{nm} raised", exc=u)
                    else:
                        if len(u.data) != u.header.nsamples:
                            ck.fail("ts." + nm, "shape", "nsamples differs from the data's length", length=len(u.data))
                        ck.common("ts." + nm, th, hdict(u.header), t0=0, tf=1, dm=th["dm"])
                        corr.append((f"hdr_close (hdr_ts_{nm} {tt} {len(u.data)}) {hdr_term(u.header)}", dict(base, api="ts." + nm, impl=hdict(u.header))))
                # the other TimeSeries -> TimeSeries methods: same sampling, start and DM; the data's length in the header
                other = np.asarray(t.data[: max(2, len(t.data) // 3)], dtype=np.float32)
                for nm, fn, args, kwa in (("normalise", t.normalise, (), {}), ("deredden", t.deredden, (), {"window": 7 * th["tsamp"]}),
                                          ("apply_boxcar", t.apply_boxcar, (rng.choice([1, 2, 3, 4]),), {}), ("correlate", t.correlate, (other,), {})):
                    kk, u = call(fn, *args, **kwa)
                    R.case(("ts_" + nm, ci, of), nontrivial=False, regime="ts_other")
                    if kk != "ok":
                        ck.fail("ts." + nm, "exception", f"TimeSeries.{nm} raised", exc=u)
                        continue
                    ho = hdict(u.header)
                    if len(u.data) != ho["nsamples"] or ho["nchans"] != 1:
                        ck.fail("ts." + nm, "shape", "nsamples/nchans differ from the data's shape", length=len(u.data), header_out=ho)
                    # a correlation is a function of lag, not of time: only the length and the sampling interval are demanded of it
                    ck.common("ts." + nm, th, ho, t0=None if nm == "correlate" else 0, tf=1, dm=th["dm"])
                    if nm == "correlate":
                        if len(u.data) != len(t.data) + len(other) - 1:
                            ck.fail("ts.correlate", "length", "the full correlation does not have len(a) + len(b) - 1 lags", length=len(u.data), lengths=[len(t.data), len(other)])
                        corr.append((f"hdr_close (hdr_ts_correlate {tt} {len(u.data)}) {hdr_term(u.header)}", dict(base, api="ts.correlate", impl=ho)))
                    else:
                        corr.append((f"hdr_close (hdr_ts_{nm} {tt}) {hdr_term(u.header)}", dict(base, api="ts." + nm, impl=ho)))
                p = out("ts.tim")
                kk, r = call(t.to_tim, p)
                R.case(("ts_to_tim", ci, of), nontrivial=True, regime="ts_to_tim")
                if kk != "ok":
                    ck.fail("ts.to_tim", "exception", "to_tim raised", exc=r)
                else:
                    res = check_file(ck, "ts.to_tim", p, th, dict(t0=0, dm=th["dm"], nch=1, depth=32), {})
                    if res:
                        corr.append((f"file_close (hdr_ts_to_tim {tt}) {hdr_term(res[0])} && (depth_ts_to_tim {tt} =? 32)", dict(base, api="ts.to_tim", impl=res[2])))
                        kk, u = call(TimeSeries.from_tim, p)
                        if kk != "ok" or len(u.data) != len(t.data):
                            ck.fail("ts.to_tim", "reread", "from_tim(to_tim(ts)) has a different length", got=(u if kk != "ok" else len(u.data)))
            # ---- the same data as a set of two contiguous files: a sub-range that starts in the second file --------------------
            if ci <= (4 if R.tier == "quick" else 12):
                cut = rng.randrange(N // 4, N // 2)
                kk, fs = call(lambda: FilReader(filutil.write_fil_set(os.path.join(d, f"o{ci}_set"), X, nbits, [cut], tsamp=tsamp, tstart=tstart,
                                                                      fch1=fch1, foff=foff, dm=in_dm)))
                st = rng.randrange(cut, cut + (N - cut) // 2)
                ns = rng.randrange(4, N - st + 1)
                gulp = rng.choice([3, 5, ns])
                base = dict(cfg, files=2, second_file_starts_at=cut, start=st, nsamps=ns, gulp=gulp)
                ck = Checker(R, base)
                R.case(("multifile", ci, cut, st, ns, gulp), nontrivial=True, regime="multifile")
                if kk != "ok":
                    ck.fail("FilReader", "multifile-exception", "a set of two contiguous files could not be opened", exc=fs)
                else:
                    hs = hdict(fs.header)
                    if hs["nsamples"] != N or abs(hs["tstart"] - hin["tstart"]) * 86400.0 > TTOL:
                        ck.fail("FilReader", "multifile-header", "the header of a file set does not start at the first file / span all files", header_out=hs)
                    kk, b = call(fs.read_block, st, ns)
                    if kk != "ok":
                        ck.fail("read_block", "exception", "read_block raised", exc=b)
                    else:
                        ho = hdict(b.header)
                        if b.data.shape != (ho["nchans"], ho["nsamples"]):
                            ck.fail("read_block", "shape", "nchans/nsamples of the header differ from the data's shape", shape=list(b.data.shape), header_out=ho)
                        t0 = find_offset(Xf, b.data.T, st)
                        ck.common("read_block", hin, ho, t0=st if t0 is None else t0, dm=hin["dm"])
                        ck.copy_labels("read_block", hin, ho, list(range(C)))
                        block_dm(ck, "read_block", b)
                        h1t, h2t = (hdr_term(Header.from_sigproc(os.path.join(d, f"o{ci}_set_{i}.fil"))) for i in (0, 1))
                        corr.append((f"hdr_close (fileset {h1t} {h2t}) {hdr_term(fs.header)} && "
                                     f"match read_block_model (fileset {h1t} {h2t}) {st} {ns} {q(hin['fch1'])} {C} {b.data.shape[1]} with None => false | Some (cs, rows, hh) => "
                                     f"(cs =? 0) && (rows =? {b.data.shape[0]}) && hdr_close hh {hdr_term(b.header)} && "
                                     f"Qle_bool (Qabs (h_tstart hh - mjd_after_nsamps {h2t} ({st} - {cut}))) tt5us end",
                                     dict(base, api="read_block", impl=ho)))
                    kk, t = call(fs.collapse, gulp=gulp, start=st, nsamps=ns, quiet=True)
                    if kk != "ok":
                        ck.fail("collapse", "exception", "collapse raised", exc=t)
                    else:
                        ho = hdict(t.header)
                        if len(t.data) != ho["nsamples"] or ho["nchans"] != 1:
                            ck.fail("collapse", "shape", "nsamples/nchans differ from the data's shape", length=len(t.data), header_out=ho)
                        t0 = find_offset(Xf.sum(1), np.asarray(t.data, dtype=np.float64), st)
                        ck.common("collapse", hin, ho, t0=st if t0 is None else t0, dm=0.0)
                    p = out("set_samps.fil")
                    kk, r = call(fs.extract_samps, st, ns, p, gulp=gulp, quiet=True)
                    if kk != "ok":
                        ck.fail("extract_samps", "exception", "extract_samps raised", exc=r)
                    else:
                        t0 = st
                        hh = reopen(p)
                        back = read_back(p, hh[0], hh[1])
                        if back is not None and back.shape[1] == C:
                            o = find_offset(Xf, back, st)
                            t0 = st if o is None else o
                        check_file(ck, "extract_samps", p, hin, dict(t0=t0, dm=hin["dm"], nch=C, depth=nbits, labels=("copy", list(range(C)))), {})
            for f in os.listdir(d):
                if f.startswith(f"o{ci}_"):
                    os.remove(os.path.join(d, f))

        # ---- frequency -> index on a wide band (binary64 twin) ---------------------------------------------------
        wide = [(1500.0, -0.1, 96), (1400.0, -1.0 / 3.0, 96), (1200.0, 0.1, 64), (1420.405, -0.0244140625 * 3, 128), (800.0, 1.0 / 7.0, 64)]
        for wi, (fch1, foff, C) in enumerate(wide):
            X = np.tile(np.arange(C), (2, 1)) + 1
            path = filutil.write_fil(os.path.join(d, f"wide{wi}.fil"), X, 32, fch1=fch1, foff=foff)
            fil = FilReader(path)
            hin = hdict(fil.header)
            cf32 = [float(v) for v in fil.header.chan_freqs]
            ks = range(C) if R.tier != "quick" else sorted(set(list(range(0, C, 3)) + [C - 1]))
            for k in ks:
                for spelling, f in (("fch1+k*foff", fch1 + k * foff), ("chan_freqs[k]", cf32[k])):
                    base = dict(fch1=fch1, foff=foff, nchans=C, channel=k, requested=f, spelling=spelling)
                    R.case(("wide", wi, k, spelling), nontrivial=k > 0, regime="read_block_by_freq_wide")
                    kk, b = call(fil.read_block, 0, 1, fch1=f, nchans=1)
                    if kk != "ok":
                        Checker(R, base).fail("read_block", "refused", "a block requested by the frequency of an existing channel is refused", exc=b,
                                              foff_sign=("+" if foff > 0 else "-"))
                        continue
                    got = int(round(float(b.data[0, 0]))) - 1
                    if got != k:
                        Checker(R, base).fail("read_block", "freq-index", "requesting a channel's frequency returned a different channel",
                                              returned_first_channel=got, its_label=label(hin, got))
                    idx_cases.append((f, hin["fch1"], hin["foff"], got))
    finally:
        fileio.FileWriter.cwrite = orig_cwrite
        _readers.track = orig_track
        shutil.rmtree(d, ignore_errors=True)

    # ---- correspondence: regenerated header functions (vm_compute) vs implementation -------------------------------
    prelude = ["From Coq Require Import ZArith QArith Qabs Qminmax List Bool PrimFloat.", "Require Import SPP.Model.C08_rt SPP.Model.C08_spec SPP.Gen.C08.",
               "Import ListNotations.", "Open Scope Z_scope.",
               "Definition tt5us : Q := (5 # 86400000000).",
               "Definition hdr_close (m i : Hdr) : bool :=",
               "  (h_nchans m =? h_nchans i) && (h_nbits m =? h_nbits i) && (h_nsamples m =? h_nsamples i) && (h_dtype m =? h_dtype i) &&",
               "  Qclose (1 # 1000000000) (h_fch1 m) (h_fch1 i) && Qclose (1 # 1000000000) (h_foff m) (h_foff i) &&",
               "  Qclose (1 # 1000000000) (h_tsamp m) (h_tsamp i) && Qclose (1 # 1000000000) (h_dm m) (h_dm i) &&",
               "  Qle_bool (Qabs (h_tstart m - h_tstart i)) tt5us.",
               "Definition file_close (m i : Hdr) : bool := hdr_close (mkHdr (h_nchans m) (h_nbits m) (h_nsamples i) (h_fch1 m) (h_foff m) (h_tsamp m) (h_tstart m) (h_dm m) (h_dtype m)) i.",
               "Definition bad (l : list bool) : list nat := map fst (filter (fun p => negb (snd p)) (combine (seq 0 (length l)) l))."]
    rng.shuffle(corr)
    lim = 1400 if R.tier == "quick" else 8000
    corr = corr[:lim]
    per = 350
    nval = 0
    for si in range(0, len(corr), per):
        shd = corr[si:si + per]
        v = prelude + ["Definition cases : list bool := [", ";\n".join("(" + t + ")" for t, _ in shd), "].", "Eval vm_compute in (length cases, bad cases)."]
        rc, outp = vlib.coq_run(f"c08_{si // per}", "\n".join(v), timeout=600)
        vals = vlib.parse_eval(outp)
        if rc != 0 or not vals:
            R.red.append("correspondence: Corr/c08 did not evaluate (Gen/C08.v incomplete?): " + outp[-300:])
            continue
        nums = [int(z) for z in re.findall(r"(\d+)%nat", vals[0])]
        nval += nums[0] if nums else 0
        for bi in nums[1:4]:
            R.disagree("regenerated header function and implementation differ", shd[bi][1])
    # binary64 twin of the quotient
    def fl(x):
        return f"({float(x).hex()})%float"
    for si in range(0, len(idx_cases), 400):
        shd = idx_cases[si:si + 400]
        v = prelude + ["Definition cases : list bool := [",
                       ";\n".join(f"(read_block_chan_start_f {fl(f)} {fl(a)} {fl(b)} =? {g})" for f, a, b, g in shd), "].",
                       "Eval vm_compute in (length cases, bad cases)."]
        rc, outp = vlib.coq_run(f"c08_idx_{si // 400}", "\n".join(v), timeout=600)
        vals = vlib.parse_eval(outp)
        if rc != 0 or not vals:
            R.red.append("correspondence: Corr/c08_idx did not evaluate: " + outp[-300:])
            continue
        nums = [int(z) for z in re.findall(r"(\d+)%nat", vals[0])]
        nval += nums[0] if nums else 0
        for bi in nums[1:4]:
            f, a, b, g = shd[bi]
            R.disagree("binary64 twin of the frequency -> channel index and read_block differ", {"requested": f, "fch1": a, "foff": b, "impl_channel": g})
    R.extra_cov["traces_validated_against_impl"] = nval
    R.extra_cov["correspondence_cases"] = len(corr) + len(idx_cases)
    _pulse_cases(R)
    return R


# ---- PulseExtractor.get_data: Props/C08_pulse.v, Gen/Pulse.v ------------------------------------------------------------------
def _pulse_cases(R):
    """the block extracted around a pulse: shape = header, sample k is file sample nstart+k inside the file and the channel's pad value
    elsewhere, the pulse sits at the centre sample; the regenerated geometry (Gen/Pulse.v) is run under vm_compute against the
    implementation's own derived quantities and one row of the returned data"""
    import filutil
    import logging
    from sigpyproc.readers import PulseExtractor
    logging.getLogger("sigpyproc").setLevel(logging.ERROR)
    logging.getLogger("sigpyproc.readers").setLevel(logging.ERROR)
    R.need(["Gen/Pulse.vo"])
    rng = R.rng
    d = os.path.join(vlib.SCRATCH, f"c08p_{os.getpid()}")
    os.makedirs(d, exist_ok=True)
    rows = []
    try:
        for N, nch in ((40, 4), (97, 2), (300, 4)) if R.tier == "quick" else ((40, 4), (97, 2), (300, 4), (41, 8), (1000, 2)):
            x = (2 * np.arange(N)[:, None] + 1000 * np.arange(nch)[None, :]).astype(np.float64)      # even values: every median is an integer
            path = filutil.write_fil(os.path.join(d, f"p{N}.fil"), x, 32, fch1=1500.0, foff=-25.0, tsamp=0.001)
            p_tstart, p_tsamp = 60000.0, 0.001        # write_fil's default tstart
            toas = sorted(set([0, 1, 2, N // 2, N - 2, N - 1] + [rng.randrange(0, N) for _ in range(6 if R.tier == "quick" else 40)]))
            for toa in toas:
                for pw in (1, 2, 4, 7):
                    for dm in (0.0, 3.0, 40.0):
                        mn = rng.choice([1, 2, 8, 16, 256])
                        case = {"api": "PulseExtractor.get_data", "N": N, "nchans": nch, "pulse_toa": toa, "pulse_width": pw, "pulse_dm": dm, "min_nsamps": mn}
                        R.tick(case)
                        try:
                            px = PulseExtractor(path, toa, pw, dm, min_nsamps=mn)
                            geom = [int(v) for v in (px.t_decimate, px.block_delay, px.nsamps, px.nstart, px.nstart_file, px.nsamps_file, px.pulse_toa_block)]
                            dd = int(px.disp_delay)
                        except Exception as e:  # noqa: BLE001
                            R.fail("PulseExtractor-exception", "PulseExtractor could not be constructed / queried", dict(case, exc=f"{type(e).__name__}: {str(e)[:100]}"))
                            continue
                        tdec, bdel, ns, nst = geom[0], geom[1], geom[2], geom[3]
                        R.case(("pulse", N, toa, pw, dm, mn), nontrivial=nst < 0 or nst + ns > N, regime="pulse-extractor")
                        case.update(disp_delay=dd, geometry=dict(zip(("t_decimate", "block_delay", "nsamps", "nstart", "nstart_file", "nsamps_file", "pulse_toa_block"), geom)))
                        if not (tdec >= 1 and ns % tdec == 0 and bdel > dd and ns >= 2 * bdel and geom[6] == ns // 2 and nst <= toa - dd - 1 and toa + dd < nst + ns):
                            R.fail("PulseExtractor-geometry", "the block is not centred on the pulse / does not cover the dispersion sweep / is not a whole number of decimation steps", case)
                        try:
                            blk = px.get_data(pad_mode="median")
                        except Exception as e:  # noqa: BLE001
                            R.fail("PulseExtractor-exception", "get_data raised although the block overlaps the file", dict(case, exc=f"{type(e).__name__}: {str(e)[:100]}"))
                            continue
                        data = np.asarray(blk.data)
                        if data.shape != (nch, ns) or blk.header.nsamples != ns or blk.header.nchans != nch:
                            R.fail("PulseExtractor-shape", "shape of the extracted block / header nsamples differs from the declared block length",
                                   dict(case, shape=list(data.shape), header_nsamples=int(blk.header.nsamples)))
                            continue
                        if True:          # with a leading pad too: column 0 is file sample nstart (negative: before the file)
                            err = (float(blk.header.tstart) - (p_tstart + nst * p_tsamp / 86400.0)) * 86400.0
                            if abs(err) > TTOL:
                                R.fail("PulseExtractor-tstart", "tstart of the extracted block is not the file's advanced by nstart*tsamp (5 us)",
                                       dict(case, header_tstart=float(blk.header.tstart), error_seconds=err))
                        if not (close(float(blk.header.tsamp), p_tsamp, STOL) and lclose(float(blk.header.fch1), 1500.0, 25.0) and close(float(blk.header.foff), -25.0, FTOL)):
                            R.fail("PulseExtractor-header", "tsamp / fch1 / foff of the extracted block differ from the file's",
                                   dict(case, header_out=hdict(blk.header)))
                        ks = np.arange(ns) + nst
                        inside = (ks >= 0) & (ks < N)
                        want = np.empty((nch, ns))
                        want[:, inside] = x[ks[inside]].T
                        med = np.median(x[ks[inside]], axis=0)
                        want[:, ~inside] = med[:, None]
                        if not np.array_equal(data.astype(np.float64), want):
                            bad = np.argwhere(data.astype(np.float64) != want)[0]
                            R.fail("PulseExtractor-values", "sample k of the block is not file sample nstart+k (inside the file) / the channel's pad value (outside)",
                                   dict(case, channel=int(bad[0]), k=int(bad[1]), got=float(data[bad[0], bad[1]]), want=float(want[bad[0], bad[1]])))
                        c = rng.randrange(nch)
                        rows.append((toa, pw, dd, mn, N, geom, c, int(med[c]), data[c].astype(np.int64).tolist(), case))
        # a pulse given at another channel's frequency with a selection of channels, foff of either sign and not representable
        for pi, (pf1, pfo, pC, pN) in enumerate(((1400.0, -1.0 / 3.0, 6, 200), (1200.0, 0.1, 8, 160), (1500.0, -25.0, 4, 300))):
            x = (2 * np.arange(pN)[:, None] + 1000 * np.arange(pC)[None, :]).astype(np.float64)
            path = filutil.write_fil(os.path.join(d, f"ps{pi}.fil"), x, 32, fch1=pf1, foff=pfo, tsamp=0.001)
            for _ in range(6 if R.tier == "quick" else 24):
                k0 = rng.randrange(0, pC)
                n = rng.randrange(1, pC - k0 + 1)
                toa, pw, dm, mn = rng.randrange(0, pN), rng.choice([1, 2, 4]), rng.choice([0.0, 3.0, 40.0]), rng.choice([1, 8, 16])
                fq = rng.choice([pf1 + k0 * pfo, float(np.float32(pf1 + k0 * pfo))])
                case = {"api": "PulseExtractor.get_data", "N": pN, "nchans": pC, "fch1": pf1, "foff": pfo, "pulse_toa": toa, "pulse_width": pw, "pulse_dm": dm,
                        "min_nsamps": mn, "toa_freq": fq, "toa_channel": k0, "nchans_req": n}
                R.tick(case)
                R.case(("pulse-sub", pi, toa, pw, dm, mn, k0, n), nontrivial=k0 > 0 or n < pC, regime="pulse-extractor-selection")
                try:
                    px = PulseExtractor(path, toa, pw, dm, min_nsamps=mn, toa_freq=fq, nchans=n)
                    nst, ns = int(px.nstart), int(px.nsamps)
                    blk = px.get_data(pad_mode="median")
                except Exception as e:  # noqa: BLE001
                    R.fail("PulseExtractor-exception", "PulseExtractor with toa_freq / nchans raised although the block overlaps the file and the channels exist",
                           dict(case, exc=f"{type(e).__name__}: {str(e)[:100]}"))
                    continue
                data = np.asarray(blk.data, dtype=np.float64)
                ho = hdict(blk.header)
                if data.shape != (n, ns) or ho["nsamples"] != ns or ho["nchans"] != n:
                    R.fail("PulseExtractor-shape", "shape of the extracted block / header nsamples, nchans differ from the declared block",
                           dict(case, shape=list(data.shape), header_out=ho))
                    continue
                ks = np.arange(ns) + nst
                inside = (ks >= 0) & (ks < pN)
                srcs = [[c for c in range(pC) if np.array_equal(data[j, inside], x[ks[inside], c])] for j in range(n)]
                src0 = k0 if (srcs[0] and k0 in srcs[0]) or not srcs[0] else srcs[0][0]
                if any(not r for r in srcs) or any((src0 + j) not in srcs[j] for j in range(n)):
                    R.fail("PulseExtractor-values", "the rows of the extracted block are not consecutive channels of the file at samples nstart+k", dict(case, sources=srcs))
                elif src0 != k0:
                    R.fail("PulseExtractor-channel", "the block does not start at the channel whose frequency was given", dict(case, first_channel=src0))
                if not lclose(ho["fch1"], pf1 + src0 * pfo, pfo) or not close(ho["foff"], pfo, FTOL):
                    R.fail("PulseExtractor-label", "fch1 / foff of the extracted block are not the labels of the channels it holds",
                           dict(case, header_out=ho, first_channel=src0, its_label=pf1 + src0 * pfo))
                if abs(ho["tstart"] - (60000.0 + nst * 0.001 / 86400.0)) * 86400.0 > TTOL:
                    R.fail("PulseExtractor-tstart", "tstart of the extracted block is not the file's advanced by nstart*tsamp (5 us)", dict(case, header_out=ho, nstart=nst))
        # correspondence: regenerated geometry and row against the implementation
        per = 200
        for si in range(0, len(rows), per):
            sh = rows[si:si + per]
            lits = [f"(({t}, {pw}, {dd}, {mn}, {N}), ({', '.join(str(g) if g >= 0 else f'({g})' for g in geom)}), ({c}, {padv}), {vlib.zlist(row)})"
                    for t, pw, dd, mn, N, geom, c, padv, row, _ in sh]
            v = ["From Coq Require Import ZArith List Bool.", "Require Import SPP.Base.Rt SPP.Gen.Pulse.", "Import ListNotations.", "Open Scope Z_scope.",
                 "Definition cases : list ((Z * Z * Z * Z * Z) * (Z * Z * Z * Z * Z * Z * Z) * (Z * Z) * list Z) := [", ";\n".join(lits), "].",
                 "Definition ok (c : (Z * Z * Z * Z * Z) * (Z * Z * Z * Z * Z * Z * Z) * (Z * Z) * list Z) : bool :=",
                 "  let '((toa, pw, dd, mn, N), (g1, g2, g3, g4, g5, g6, g7), (ch, padv), row) := c in",
                 "  let '(h1, h2, h3, h4, h5, h6, h7) := px_geom toa pw dd mn N in",
                 "  let r := px_get_row (fun k => 2 * k + 1000 * ch) padv toa pw dd mn N in",
                 "  (g1 =? h1) && (g2 =? h2) && (g3 =? h3) && (g4 =? h4) && (g5 =? h5) && (g6 =? h6) && (g7 =? h7) && list_eqb (to_list (snd r) (fst r)) row.",
                 "Definition idx := map fst (filter (fun p => negb (ok (snd p))) (combine (seq 0 (length cases)) cases)).",
                 "Eval vm_compute in (length cases, idx)."]
            rc, outp = vlib.coq_run(f"c08_pulse_{si // per}", "\n".join(v), timeout=600)
            vals = vlib.parse_eval(outp)
            if rc != 0 or not vals:
                R.red.append("correspondence: Corr/c08_pulse did not evaluate (Gen/Pulse.v incomplete?): " + outp[-300:])
                continue
            nums = [int(z) for z in re.findall(r"(\d+)%nat", vals[0])]
            R.extra_cov["pulse_blocks_validated_against_model"] = R.extra_cov.get("pulse_blocks_validated_against_model", 0) + (nums[0] if nums else 0)
            for bi in nums[1:4]:
                R.disagree("regenerated PulseExtractor geometry / row (Gen/Pulse.v) and the implementation differ", sh[bi][-1])
    finally:
        shutil.rmtree(d, ignore_errors=True)


# ---- the at-scale search ------------------------------------------------------------------------------------------------
def _scale_data(seed, fi, nsamps, nchans, hi, dtype=np.uint8):
    """the data of file number `fi` of scale(): nsamps x nchans integers 1 .. hi-1 (replay: same seed and arguments)"""
    return np.random.default_rng([seed, fi]).integers(1, hi, (nsamps, nchans), dtype=dtype)


def _locate(ref, out, prefer):
    """an offset o with ref[o:o+len(out)] == out (along axis 0), `prefer` if it is one; affordable on millions of rows:
    one comparison at `prefer`, otherwise candidates are filtered by the first rows and confirmed by one full comparison"""
    n, m = len(out), len(ref) - len(out) + 1
    if n == 0 or m <= 0 or ref.shape[1:] != out.shape[1:]:
        return None
    if 0 <= prefer < m and np.array_equal(ref[prefer:prefer + n], out):
        return int(prefer)
    cand = np.arange(m)
    for j in range(min(n, 32)):
        hit = ref[cand + j] == out[j]
        if hit.ndim > 1:
            hit = hit.reshape(len(cand), -1).all(1)
        cand = cand[hit]
        if cand.size == 0:
            return None
    for o in cand[:4]:
        if np.array_equal(ref[o:o + n], out):
            return int(o)
    return None


class ScaleChecker(Checker):
    """the clauses of Checker with failure keys scale-<api>-<clause>; the label clauses are evaluated with arrays (same
    arithmetic and tolerances as Checker: float64 fch1 + k*foff, FTOL relative and at most LFRAC of a channel) so that 2**16 channels stay affordable"""

    def fail(self, api, clause, what, **kw):
        self.R.fail(f"scale-{api}-{clause}", what + " [at scale]", dict(self.base, api=api, **kw))

    def common(self, api, hin, hout, t0=None, tf=1, dm=None, extra=None):
        # Checker.common, with the clause's own value merged into (not passed beside) the caller's parameters
        ex = dict(extra or {}, header_in=hin, header_out=hout)
        if tf is not None and not close(hout["tsamp"], hin["tsamp"] * tf, STOL):
            self.fail(api, "tsamp", "tsamp is not the input's times the time-decimation factor", **dict(ex, tfactor=tf))
        if t0 is not None:
            want = hin["tstart"] + t0 * hin["tsamp"] / 86400.0
            if abs(hout["tstart"] - want) * 86400.0 > TTOL:
                self.fail(api, "tstart", "tstart is not the input's advanced by start*tsamp (5 us)",
                          **dict(ex, first_input_sample=int(t0), error_seconds=(hout["tstart"] - want) * 86400.0))
        if dm is not None and not close(hout["dm"], dm, STOL):
            self.fail(api, "dm", "dm does not record the DM that was applied", **dict(ex, dm_applied=dm))

    def copy_labels(self, api, hin, hout, chans, extra=None):
        c = np.asarray(chans, dtype=np.int64)
        out = hout["fch1"] + np.arange(len(c), dtype=np.int64) * hout["foff"]
        inn = hin["fch1"] + c * hin["foff"]
        bad = np.flatnonzero(np.abs(out - inn) > np.minimum(FTOL * np.maximum(np.abs(out), np.abs(inn)), LFRAC * abs(hin["foff"])))
        if bad.size:
            j = int(bad[0])
            self.fail(api, "label", "label of an output channel differs from that of the input channel it was copied from",
                      out_channel=j, in_channel=int(c[j]), out_label=float(out[j]), in_label=float(inn[j]), n_bad=int(bad.size),
                      **dict(extra or {}, header_in=hin, header_out=hout))
            return False
        return True

    def sum_labels(self, api, hin, hout, factor, nout, extra=None, spacing=True):
        ex = dict(extra or {}, header_in=hin, header_out=hout, factor=factor)
        if spacing and not close(hout["foff"], hin["foff"] * factor, FTOL):
            self.fail(api, "foff", "channel spacing is not the input's scaled by the factor", **ex)
        j = np.arange(nout, dtype=np.int64)
        a = hin["fch1"] + (j * factor) * hin["foff"]
        b = hin["fch1"] + (j * factor + factor - 1) * hin["foff"]
        lo, hi = np.minimum(a, b), np.maximum(a, b)
        x = hout["fch1"] + j * hout["foff"]
        slack = np.minimum(FTOL * np.maximum(np.abs(lo), np.abs(hi)), LFRAC * abs(hin["foff"]))
        bad = np.flatnonzero(~((lo - slack <= x) & (x <= hi + slack)))
        if bad.size:
            k = int(bad[0])
            self.fail(api, "label-span", "label of a summed/averaged channel lies outside the span of its inputs",
                      out_channel=k, out_label=float(x[k]), span=[float(lo[k]), float(hi[k])], n_bad=int(bad.size), **ex)


class _Src:
    """one input file of scale(): its reader, header, and the data x of samples x0 .. x0+len(x) (the whole file when x0 == 0)"""

    def __init__(self, fil, cfg, x, x0=0):
        self.fil, self.cfg, self.x, self.x0 = fil, cfg, x, x0
        self.hin = hdict(fil.header)
        self.C, self.N, self.nbits = int(fil.header.nchans), int(fil.header.nsamples), int(fil.header.nbits)
        self._tim = None

    def rows(self, st, ns):
        return self.x[st - self.x0:st - self.x0 + ns]

    def tim(self):
        if self._tim is None:
            self._tim = self.x.sum(1, dtype=np.int32)
        return self._tim


def scale(R: vlib.Run):
    """at-scale search (run when something no longer checks and no small failing input was found, and in the thorough tier).
    The clauses of the property, evaluated by the same oracle as run(), on
      L  2**24+70001 samples x 2 channels, 8 bit: whole file and sub-ranges that start above 2**16 / 2**22 / 2**24, gulps 16384 /
         4097 / 70000, dispersion delays above 65536 samples, a time series of 2**24+ samples and its products, a chain of products;
      H  a sparse file of 2**31+2**17 samples (data only in a window): start above 2**31 samples, byte offsets above 2**32;
      W  66000 channels x 320 samples: channel indices around 2**15 / 2**16 by frequency (both spellings), factors >= 256,
         hundreds of output files (more than one batch), 6600 sub-bands, a block of 2**24+ elements and its products;
      B  256 channels x 80001 samples at 8 and 2 bits, 64 x 70000 at 32 bits (ascending band): blocks handed to the writer of
         more than 2**20 / 2**22 / 2**24 elements, a block of 2**24+ elements read, transformed and written;
      M  200001 samples x 2 channels, 8 bit, gulp 3: more than 65536 blocks.
    Data are located in the input exactly as in run() (first at the requested offset, then anywhere); every case is a small dict."""
    from sigpyproc import readers as _readers
    from sigpyproc.header import Header
    from sigpyproc.io import fileio
    from sigpyproc.readers import FilReader
    from sigpyproc.timeseries import TimeSeries

    seed = R.seed + 808
    d = os.path.join(vlib.SCRATCH, f"c08s_{os.getpid()}")
    os.makedirs(d, exist_ok=True)
    written = {}
    orig_cwrite = fileio.FileWriter.cwrite

    def counting_cwrite(self, arr):
        nm = str(self.files[0])
        written[nm] = written.get(nm, 0) + int(np.asarray(arr).size)
        return orig_cwrite(self, arr)
    orig_track = _readers.track

    def source(fi, tag, N, C, nbits, hi, fch1, foff, tsamp, tstart, dtype=np.uint8, dm=0.0):
        x = _scale_data(seed, fi, N, C, hi, dtype)
        path = filutil.write_fil(os.path.join(d, f"{tag}.fil"), x, nbits, fch1=fch1, foff=foff, tsamp=tsamp, tstart=tstart, dm=dm)
        cfg = {"file": tag, "fch1": fch1, "foff": foff, "nchans": C, "nsamples": N, "nbits": nbits, "tsamp": tsamp, "tstart": tstart, "header_dm": dm,
               "data": f"props/c08.py _scale_data({seed}, {fi}, {N}, {C}, {hi}) written by filutil.write_fil; see scale()"}
        R.tick(dict(cfg, api="FilReader"))
        fil = FilReader(path)
        hdrlen = fil.header.stream_info.entries[0].hdrlen
        if (os.path.getsize(path) - hdrlen) * 8 != N * C * nbits or fil.header.nsamples != N:
            # the writer is part of the implementation: the input itself already breaks the on-disk clause
            R.fail("scale-input-ondisk-depth", "a file of nsamples x nchans elements written through Header.prep_outfile / FileWriter.cwrite "
                   "does not hold nsamples x nchans x nbits bits [at scale]",
                   dict(cfg, api="prep_outfile+cwrite", data_bytes=os.path.getsize(path) - hdrlen, header_nsamples=int(fil.header.nsamples)))
            os.remove(path)
            return None, path
        return _Src(fil, cfg, x), path

    def begin(S, api, **par):
        """count the case; returns (case, checker); R.tick(case) goes immediately before the implementation call"""
        case = dict(S.cfg, api=api, **par)
        R.case(("scale", S.cfg["file"], api, json_key(par)), regime="scale")
        return case, ScaleChecker(R, dict(S.cfg, **par))

    def json_key(par):
        return tuple(sorted((k, str(v)) for k, v in par.items()))

    def reopen(path):
        h = Header.from_sigproc(path)
        hdrlen = h.stream_info.entries[0].hdrlen
        return h, hdrlen, os.path.getsize(path) - hdrlen

    def read_back(path, h, hdrlen):
        """the data section in its on-disk type (8/16/32 bit files only), samples x channels"""
        dt = {8: np.uint8, 16: np.uint16, 32: np.float32}.get(h.nbits)
        if dt is None or h.nchans < 1:
            return None
        a = np.fromfile(path, dtype=dt, offset=hdrlen)
        if a.size % h.nchans:
            return None
        return a.reshape(-1, h.nchans)

    def out(name):
        p = os.path.join(d, "o_" + name)
        written.pop(p, None)
        if os.path.exists(p):
            os.remove(p)
        return p

    def check_file(ck, api, path, hin, spec, params):
        """as in run(): spec = dict(t0, tf, dm, nch, labels=('copy', chans)|('sum', factor)|None, depth)"""
        if not os.path.exists(path):
            ck.fail(api, "missing", "output file was not written", **params)
            return None
        h, hdrlen, datalen = reopen(path)
        ho = hdict(h)
        nel = written.get(os.path.abspath(path), written.get(path))
        ex = dict(params, elements_written=nel, data_bytes=datalen)
        if nel is None:
            R.red.append(f"harness: no cwrite recorded for {path}")
            return None
        if nel * ho["nbits"] != 8 * datalen:
            ck.fail(api, "ondisk-depth", "nbits of the header is not the number of bits per written sample", header_out=ho, **ex)
        elif ho["nchans"] < 1 or nel % ho["nchans"] or ho["nsamples"] * ho["nchans"] != nel:
            ck.fail(api, "nsamples", "nsamples x nchans of the re-opened header is not the number of samples written", header_out=ho, **ex)
        if spec.get("nch") is not None and ho["nchans"] != spec["nch"]:
            ck.fail(api, "nchans", "nchans of the header differs from the channels written per sample", header_out=ho, expected=spec["nch"], **ex)
        if spec.get("depth") is not None and ho["nbits"] != spec["depth"]:
            ck.fail(api, "nbits", "nbits of the header differs from the depth the API writes", header_out=ho, expected=spec["depth"], **ex)
        ck.common(api, hin, ho, t0=spec.get("t0"), tf=spec.get("tf", 1), dm=spec.get("dm"), extra=params)
        lab = spec.get("labels")
        if lab and lab[0] == "copy":
            ck.copy_labels(api, hin, ho, lab[1], extra=params)
        elif lab and lab[0] == "sum":
            ck.sum_labels(api, hin, ho, lab[1], ho["nchans"], extra=params)
        return h, hdrlen, ho

    def delays_of(S, dm):
        """delays referred to the earliest channel (ascending band / negative DM: some raw delays are negative), their maximum, 0"""
        dl = S.fil.header.get_dmdelays(dm).astype(int)
        dl = dl - min(0, int(dl.min()))
        return dl, int(dl.max()), int(dl.min())

    def pick_dm(S, lo, hi):
        """a DM whose largest delay (referred to the earliest channel) lies in [lo, hi) samples, else None"""
        for v in np.geomspace(0.05, 5000.0, 400):
            dl, md, mn = delays_of(S, float(v))
            if mn >= 0 and lo <= md < hi:
                return float(v)
        return None

    def series(ck, api, kk, t, hin, t0, dm, labels, extra=None):
        """a TimeSeries product: shape, tsamp/tstart/dm, labels"""
        if kk != "ok":
            ck.fail(api, "exception", f"{api} raised", exc=t, **(extra or {}))
            return None
        ho = hdict(t.header)
        if len(t.data) != ho["nsamples"] or ho["nchans"] != 1:
            ck.fail(api, "shape", "nsamples/nchans differ from the data's shape", length=len(t.data), header_out=ho, **(extra or {}))
        ck.common(api, hin, ho, t0=t0(t), dm=dm, extra=extra)
        if labels is not None:
            labels(ho)
        return ho

    def streams(S, st, ns, gulp, dms, none=False, chans=None):
        """collapse, bandpass, read_chan, dedisperse on one (start, nsamps, gulp); returns the collapse product"""
        fil, hin, C = S.fil, S.hin, S.C
        kw = dict(gulp=gulp, start=st, quiet=True) if none else dict(gulp=gulp, start=st, nsamps=ns, quiet=True)
        nsel = S.N - st if none else ns
        par = dict(start=st, nsamps=None if none else ns, gulp=gulp)
        keep = None
        # collapse
        case, ck = begin(S, "collapse", **par)
        R.tick(case)
        kk, t = call(fil.collapse, **kw)

        def t0_collapse(t):
            o = _locate(S.tim(), np.asarray(t.data), st - S.x0)
            return st if o is None else o + S.x0
        if series(ck, "collapse", kk, t, hin, t0_collapse, 0.0, lambda ho: ck.sum_labels("collapse", hin, ho, C, 1, spacing=False)):
            keep = t
        # bandpass (a spectrum held in a TimeSeries: only the shape clause applies)
        case, ck = begin(S, "bandpass", **par)
        R.tick(case)
        kk, t = call(fil.bandpass, **kw)
        if kk != "ok":
            ck.fail("bandpass", "exception", "bandpass raised", exc=t)
        else:
            ho = hdict(t.header)
            if len(t.data) != ho["nsamples"] or ho["nchans"] != 1:
                ck.fail("bandpass", "shape", "nsamples/nchans differ from the data's shape", length=len(t.data), header_out=ho)
        # read_chan
        for ich in (chans if chans is not None else [C - 1]):
            case, ck = begin(S, "read_chan", ichan=ich, **par)
            R.tick(case)
            kk, t = call(fil.read_chan, ich, **kw)
            src = {}

            def t0_chan(t):
                got = np.asarray(t.data)
                o = _locate(S.x[:, ich], got, st - S.x0)
                src["c"] = ich
                if o is None and len(got) == nsel:       # another channel at the requested offset?
                    hits = np.flatnonzero((S.rows(st, nsel) == got[:, None]).all(0)) if nsel * C <= (1 << 25) else []
                    if len(hits):
                        src["c"], o = int(hits[0]), st - S.x0
                return st if o is None else o + S.x0
            series(ck, "read_chan", kk, t, hin, t0_chan, 0.0,
                   lambda ho: ck.copy_labels("read_chan", hin, ho, [src["c"]], extra={"ichan": ich}), extra={"ichan": ich})
        # dedisperse
        for dm in dms:
            if dm is None:
                continue
            dl, md, mn = delays_of(S, dm)
            if mn < 0 or md >= nsel - 1:
                continue
            case, ck = begin(S, "dedisperse", dm=dm, max_delay=md, **par)
            R.tick(case)
            kk, t = call(fil.dedisperse, dm, **kw)

            def t0_dd(t):
                n = len(S.x) - md
                ref = np.zeros(n, dtype=np.int32)
                for c in range(C):
                    ref += S.x[dl[c]:dl[c] + n, c]
                o = _locate(ref, np.asarray(t.data), st - S.x0)
                return st if o is None else o + S.x0
            series(ck, "dedisperse", kk, t, hin, t0_dd, dm, lambda ho: ck.sum_labels("dedisperse", hin, ho, C, 1, spacing=False),
                   extra={"dm": dm, "max_delay": md})
        return keep

    def files(S, st, ns, gulp, tf, ff, chs, bands, nbo, nsub, dm, zerodm=True, only=None):
        """every transform that writes a file, on one (start, nsamps, gulp); bands = (chanstart, nbands, chanpersub)"""
        fil, hin, C, nbits = S.fil, S.hin, S.C, S.nbits
        par = dict(start=st, nsamps=ns, gulp=gulp)
        kw = dict(gulp=gulp, start=st, nsamps=ns, quiet=True)

        def want(api):
            return only is None or api in only

        def simple(api, fn, args, spec, params):
            case, ck = begin(S, api, **dict(par, **params))
            p = out(api + ".fil")
            R.tick(case)
            kk, r = call(fn, *args(p), **kw)
            if kk != "ok":
                ck.fail(api, "exception", f"{api} raised", exc=r, **params)
            else:
                check_file(ck, api, p, hin, spec, params)
            if os.path.exists(p):
                os.remove(p)

        allc = np.arange(C)
        hdm = hin["dm"]        # transforms that do not dedisperse keep the DM the input records
        if want("invert_freq"):
            simple("invert_freq", fil.invert_freq, lambda p: (p,), dict(t0=st, dm=hdm, nch=C, depth=nbits, labels=("copy", allc[::-1])), {})
        if want("apply_channel_mask"):
            mask = np.zeros(C, dtype=bool); mask[C // 2] = True
            simple("apply_channel_mask", fil.apply_channel_mask, lambda p: (mask, 0, p), dict(t0=st, dm=hdm, nch=C, depth=nbits, labels=("copy", allc)), {})
        if want("downsample"):
            simple("downsample", fil.downsample, lambda p: (tf, ff, p), dict(t0=st, tf=tf, dm=hdm, nch=C // ff, depth=nbits, labels=("sum", ff)),
                   dict(tfactor=tf, ffactor=ff))
        if want("requantize") and nbo:
            simple("requantize", fil.requantize, lambda p: (nbo, p), dict(t0=st, dm=hdm, nch=C, depth=nbo, labels=("copy", allc)), dict(nbits_out=nbo))
        if want("remove_zerodm") and zerodm:
            simple("remove_zerodm", fil.remove_zerodm, lambda p: (p,), dict(t0=st, dm=hdm, nch=C, depth=nbits, labels=("copy", allc)), {})
        if want("subband") and dm is not None:
            dl, md, mn = delays_of(S, dm)
            if mn >= 0 and md < ns - 1:
                simple("subband", fil.subband, lambda p: (dm, nsub, p), dict(t0=st, dm=dm, nch=nsub, depth=32, labels=("sum", C // nsub)),
                       dict(dm=dm, nsub=nsub, max_delay=md))
        # extract_samps: the rows written are located in the input
        if want("extract_samps"):
            case, ck = begin(S, "extract_samps", **par)
            p = out("samps.fil")
            R.tick(case)
            kk, r = call(fil.extract_samps, st, ns, p, gulp=gulp, quiet=True)
            if kk != "ok":
                ck.fail("extract_samps", "exception", "extract_samps raised", exc=r)
            else:
                t0 = st
                hh = reopen(p)
                back = read_back(p, hh[0], hh[1])
                if back is not None and back.shape[1] == C:
                    o = _locate(S.x, back, st - S.x0)
                    t0 = st if o is None else o + S.x0
                del back
                check_file(ck, "extract_samps", p, hin, dict(t0=t0, dm=hdm, nch=C, depth=nbits, labels=("copy", allc)), {})
            if os.path.exists(p):
                os.remove(p)
        # extract_chans
        if want("extract_chans") and chs is not None:
            case, ck = begin(S, "extract_chans", chans=(chs if len(chs) <= 8 else f"{len(chs)} channels {chs[:3]}..{chs[-3:]}"), **par)
            basep = os.path.join(d, "o_ch")
            for c in chs:
                written.pop(f"{basep}_chan{c:04d}.tim", None)
            R.tick(case)
            kk, r = call(fil.extract_chans, chs, basep, gulp=gulp, start=st, nsamps=ns, quiet=True)
            if kk != "ok":
                ck.fail("extract_chans", "exception", "extract_chans raised", exc=r, chans=chs[:8])
            else:
                if len(r) != len(chs):
                    ck.fail("extract_chans", "missing", "fewer files than requested channels", files=len(r), requested=len(chs))
                sel = S.rows(st, ns)
                for c, p in zip(chs, r):
                    c0, t0 = c, st
                    if os.path.exists(p):
                        hh = reopen(p)
                        back = read_back(p, hh[0], hh[1])
                        if back is not None and back.shape[1] == 1:
                            o = _locate(S.x[:, c], back[:, 0], st - S.x0)
                            if o is not None:
                                t0 = o + S.x0
                            elif len(back) == len(sel) and sel.size <= (1 << 25):
                                hits = np.flatnonzero((sel == back).all(0))
                                if len(hits):
                                    c0 = int(hits[0])
                    check_file(ck, "extract_chans", p, hin, dict(t0=t0, dm=hdm, nch=1, depth=32, labels=("copy", [c0])), dict(chan=c))
                for p in r:
                    if os.path.exists(p):
                        os.remove(p)
        # extract_bands
        if want("extract_bands") and bands is not None:
            cstart, nb, cps = bands
            case, ck = begin(S, "extract_bands", chanstart=cstart, nchans_sel=nb * cps, chanpersub=cps, **par)
            basep = os.path.join(d, "o_bd")
            for i in range(nb):
                written.pop(f"{basep}_sub{i:02d}.fil", None)
            R.tick(case)
            kk, r = call(fil.extract_bands, cstart, nb * cps, cps, basep, gulp=gulp, start=st, nsamps=ns, quiet=True)
            if kk != "ok":
                ck.fail("extract_bands", "exception", "extract_bands raised", exc=r)
            else:
                if len(r) != nb:
                    ck.fail("extract_bands", "missing", "fewer files than sub-bands", files=len(r), requested=nb)
                sel = S.rows(st, ns)
                for i, p in enumerate(r):
                    c0 = cstart + i * cps
                    if os.path.exists(p):
                        hh = reopen(p)
                        back = read_back(p, hh[0], hh[1])
                        if back is not None and back.shape == (ns, cps) and not np.array_equal(back, sel[:, c0:c0 + cps]):
                            first = np.flatnonzero((sel == back[:, :1]).all(0))       # channels equal to the file's first column
                            hits = [int(cc) for cc in first[:8] if cc + cps <= C and np.array_equal(back, sel[:, cc:cc + cps])]
                            if hits:
                                c0 = hits[0]
                    check_file(ck, "extract_bands", p, hin, dict(t0=st, dm=hdm, nch=cps, depth=nbits, labels=("copy", np.arange(c0, c0 + cps))),
                               dict(chanstart=cstart, chanpersub=cps, band=i))
                for p in r:
                    if os.path.exists(p):
                        os.remove(p)

    def blocks(S, st, ns, ff, tf, dm, nfin, dmt=True, norm=True, chain=0):
        """read_block(st, ns) and every product of the block"""
        fil, hin, C = S.fil, S.hin, S.C
        par = dict(start=st, nsamps=ns)
        case, ck = begin(S, "read_block", **par)
        R.tick(case)
        kk, blk = call(fil.read_block, st, ns)
        if kk != "ok":
            ck.fail("read_block", "exception", "read_block raised", exc=blk)
            return
        bh = hdict(blk.header)
        if blk.data.shape != (bh["nchans"], bh["nsamples"]):
            ck.fail("read_block", "shape", "nchans/nsamples of the header differ from the data's shape", shape=list(blk.data.shape), header_out=bh)
        o = _locate(S.x, blk.data.T, st - S.x0)
        ck.common("read_block", hin, bh, t0=st if o is None else o + S.x0, dm=hin["dm"])
        ck.copy_labels("read_block", hin, bh, np.arange(C))
        if not close(float(blk.dm), hin["dm"], STOL):
            ck.fail("read_block", "block-dm", "the dm of a block read from the file is not the DM the input's header records", block_dm=float(blk.dm), header_in=hin)
        par = dict(block_start=st, block_nsamps=int(blk.data.shape[1]))
        # downsample
        case, ck = begin(S, "block.downsample", ffactor=ff, tfactor=tf, **par)
        R.tick(case)
        kk, b = call(blk.downsample, ff, tf)
        if kk != "ok":
            ck.fail("block.downsample", "exception", "FilterbankBlock.downsample raised", exc=b, ffactor=ff, tfactor=tf)
        else:
            ho = hdict(b.header)
            if b.data.shape != (ho["nchans"], ho["nsamples"]):
                ck.fail("block.downsample", "shape", "nchans/nsamples differ from the data's shape", shape=list(b.data.shape), header_out=ho)
            ck.common("block.downsample", bh, ho, t0=0, tf=tf, dm=bh["dm"], extra=dict(ffactor=ff, tfactor=tf))
            ck.sum_labels("block.downsample", bh, ho, ff, ho["nchans"], extra=dict(ffactor=ff, tfactor=tf))
        b = None
        if chain:       # a history of products: `chain` successive downsample(2, 2), then dedisperse and get_tim
            case, ck = begin(S, "block.chain", steps=chain, **par)
            u, fac = blk, 1
            for i in range(chain):
                if u.data.shape[0] % 2:
                    break
                R.tick(dict(case, step=i))
                kk, v = call(u.downsample, 2, 2)
                if kk != "ok":
                    ck.fail("block.chain", "exception", "FilterbankBlock.downsample raised in a chain of products", exc=v, step=i)
                    break
                u, fac = v, fac * 2
                ho = hdict(u.header)
                if u.data.shape != (ho["nchans"], ho["nsamples"]):
                    ck.fail("block.chain", "shape", "nchans/nsamples differ from the data's shape after a chain of products", step=i,
                            shape=list(u.data.shape), header_out=ho)
                    break
                ck.common("block.chain", bh, ho, t0=0, tf=fac, extra=dict(step=i))
                ck.sum_labels("block.chain", bh, ho, fac, ho["nchans"], extra=dict(step=i))
            else:
                R.tick(dict(case, step="dedisperse"))
                kk, v = call(u.dedisperse, dm)
                if kk == "ok":
                    R.tick(dict(case, step="get_tim"))
                    kk, v = call(v.get_tim)
                if kk != "ok":
                    ck.fail("block.chain", "exception", "dedisperse / get_tim raised in a chain of products", exc=v)
                else:
                    ho = hdict(v.header)
                    if len(v.data) != ho["nsamples"] or ho["nchans"] != 1:
                        ck.fail("block.chain", "shape", "nsamples/nchans differ from the data's shape after a chain of products", length=len(v.data), header_out=ho)
                    ck.common("block.chain", bh, ho, t0=0, tf=fac, dm=dm, extra=dict(step="get_tim"))
                    ck.sum_labels("block.chain", bh, ho, C, 1, spacing=False, extra=dict(step="get_tim"))
            u = v = None
        if norm:
            case, ck = begin(S, "block.normalise", **par)
            R.tick(case)
            kk, b = call(blk.normalise)
            if kk != "ok":
                ck.fail("block.normalise", "exception", "FilterbankBlock.normalise raised", exc=b)
            elif b.data.shape != (b.header.nchans, b.header.nsamples):
                ck.fail("block.normalise", "shape", "nchans/nsamples differ from the data's shape", shape=list(b.data.shape))
            b = None
        case, ck = begin(S, "block.pad_samples", nsamps_final=nfin, **par)
        R.tick(case)
        kk, b = call(blk.pad_samples, nfin, (nfin - blk.data.shape[1]) // 2)
        if kk != "ok":
            ck.fail("block.pad_samples", "exception", "pad_samples raised", exc=b)
        elif b.data.shape != (b.header.nchans, b.header.nsamples):
            ck.fail("block.pad_samples", "shape", "nchans/nsamples differ from the data's shape", shape=list(b.data.shape))
        b = None
        if dmt:
            case, ck = begin(S, "block.dmt_transform", **par)
            R.tick(case)
            kk, b = call(blk.dmt_transform, 20.0, 4)
            if kk != "ok":
                ck.fail("block.dmt_transform", "exception", "dmt_transform raised", exc=b)
            elif b.data.shape[1] != b.header.nsamples:
                ck.fail("block.dmt_transform", "shape", "nsamples differs from the data's length", shape=list(b.data.shape))
            b = None
        case, ck = begin(S, "block.dedisperse", dm=dm, **par)
        R.tick(case)
        kk, bd = call(blk.dedisperse, dm)
        blk = None
        if kk != "ok":
            ck.fail("block.dedisperse", "exception", "FilterbankBlock.dedisperse raised", exc=bd, dm=dm)
            return
        ho = hdict(bd.header)
        if bd.data.shape != (ho["nchans"], ho["nsamples"]):
            ck.fail("block.dedisperse", "shape", "nchans/nsamples differ from the data's shape", shape=list(bd.data.shape), header_out=ho)
        if not (close(float(bd.dm), dm, STOL) or close(ho["dm"], dm, STOL)):
            ck.fail("block.dedisperse", "dm", "neither the block nor its header records the DM applied", block_dm=float(bd.dm), header_out=ho, dm=dm)
        ck.common("block.dedisperse", bh, ho, t0=0, extra=dict(dm=dm))
        ck.copy_labels("block.dedisperse", bh, ho, np.arange(C))
        case, ck = begin(S, "block.get_tim", dm=dm, **par)
        R.tick(case)
        kk, t = call(bd.get_tim)
        series(ck, "block.get_tim", kk, t, bh, lambda t: 0, dm, lambda ho: ck.sum_labels("block.get_tim", bh, ho, C, 1, spacing=False), extra=dict(dm=dm))
        t = None
        case, ck = begin(S, "block.to_file", dm=dm, **par)
        p = out("blk.fil")
        R.tick(case)
        kk, r = call(bd.to_file, p)
        if kk != "ok":
            ck.fail("block.to_file", "exception", "to_file raised", exc=r)
        else:
            check_file(ck, "block.to_file", p, hdict(bd.header), dict(t0=0, dm=dm, nch=C, depth=32, labels=("copy", np.arange(C))), dict(dm=dm))
        if os.path.exists(p):
            os.remove(p)

    def ts_products(S, t, of, facs, npad, accel, chain=0):
        """products of a time series; `chain`: that many successive halvings, then pad and resample (a long history)"""
        th = hdict(t.header)
        par = dict(timeseries_of=of, length=len(t.data))
        for fac in facs:
            case, ck = begin(S, "ts.downsample", factor=fac, **par)
            R.tick(case)
            kk, u = call(t.downsample, fac)
            if kk != "ok":
                ck.fail("ts.downsample", "exception", "TimeSeries.downsample raised", exc=u, factor=fac)
            else:
                ho = hdict(u.header)
                if len(u.data) != ho["nsamples"]:
                    ck.fail("ts.downsample", "shape", "nsamples differs from the data's length", length=len(u.data), header_out=ho)
                ck.common("ts.downsample", th, ho, t0=0, tf=fac, dm=th["dm"], extra=dict(factor=fac))
            u = None
        for nm, fn, args in (("pad", t.pad, (npad,)), ("resample", t.resample, (accel,))):
            case, ck = begin(S, "ts." + nm, arg=args[0], **par)
            R.tick(case)
            kk, u = call(fn, *args)
            if kk != "ok":
                ck.fail("ts." + nm, "exception", f"TimeSeries.{nm} raised", exc=u)
            else:
                if len(u.data) != u.header.nsamples:
                    ck.fail("ts." + nm, "shape", "nsamples differs from the data's length", length=len(u.data))
                ck.common("ts." + nm, th, hdict(u.header), t0=0, tf=1)
            u = None
        case, ck = begin(S, "ts.to_tim", **par)
        p = out("ts.tim")
        R.tick(case)
        kk, r = call(t.to_tim, p)
        if kk != "ok":
            ck.fail("ts.to_tim", "exception", "to_tim raised", exc=r)
        else:
            res = check_file(ck, "ts.to_tim", p, th, dict(t0=0, dm=th["dm"], nch=1, depth=32), {})
            if res:
                R.tick(dict(case, api="TimeSeries.from_tim"))
                kk, u = call(TimeSeries.from_tim, p)
                if kk != "ok" or len(u.data) != len(t.data):
                    ck.fail("ts.to_tim", "reread", "from_tim(to_tim(ts)) has a different length", got=(u if kk != "ok" else len(u.data)))
                u = None
        if os.path.exists(p):
            os.remove(p)
        if chain:
            case, ck = begin(S, "ts.chain", halvings=chain, **par)
            u, tfac, hist = t, 1, []
            for i in range(chain):
                R.tick(dict(case, step=i))
                kk, v = call(u.downsample, 2)
                if kk != "ok":
                    ck.fail("ts.chain", "exception", "TimeSeries.downsample raised in a chain of products", exc=v, step=i)
                    break
                u, tfac = v, tfac * 2
                hist.append("downsample(2)")
                ho = hdict(u.header)
                if len(u.data) != ho["nsamples"]:
                    ck.fail("ts.chain", "shape", "nsamples differs from the data's length after a chain of products", step=i, length=len(u.data), header_out=ho)
                    break
                ck.common("ts.chain", th, ho, t0=0, tf=tfac, dm=th["dm"], extra=dict(step=i, history=len(hist)))
            else:
                for nm, args in (("pad", (1001,)), ("resample", (-accel,)), ("pad", (7,))):
                    R.tick(dict(case, step=nm))
                    kk, v = call(getattr(u, nm), *args)
                    if kk != "ok":
                        ck.fail("ts.chain", "exception", f"TimeSeries.{nm} raised in a chain of products", exc=v)
                        break
                    u = v
                    ho = hdict(u.header)
                    if len(u.data) != ho["nsamples"]:
                        ck.fail("ts.chain", "shape", "nsamples differs from the data's length after a chain of products", step=nm, length=len(u.data), header_out=ho)
                    ck.common("ts.chain", th, ho, t0=0, tf=tfac, dm=th["dm"], extra=dict(step=nm))

    def by_frequency(S, ks, st, ns):
        """read_block requested by the frequency of channel k (both spellings), and requests running past the last channel"""
        fil, hin, C = S.fil, S.hin, S.C
        fch1, foff = S.cfg["fch1"], S.cfg["foff"]
        cf32 = fil.header.chan_freqs
        xs = S.rows(st, ns)
        for k in ks:
            for spelling, f in (("fch1+k*foff", fch1 + k * foff), ("chan_freqs[k]", float(cf32[k]))):
                n = min(3, C - k)
                case, ck = begin(S, "read_block", start=st, nsamps=ns, channel=k, nchans_req=n, requested=f, spelling=spelling)
                R.tick(case)
                kk, b = call(fil.read_block, st, ns, fch1=f, nchans=n)
                if kk != "ok":
                    ck.fail("read_block", "refused", "a block requested by the frequency of an existing channel is refused", exc=b,
                            foff_sign=("+" if foff > 0 else "-"))
                    continue
                ho = hdict(b.header)
                if b.data.shape != (ho["nchans"], ho["nsamples"]):
                    ck.fail("read_block", "shape", "nchans/nsamples of the header differ from the data's shape", shape=list(b.data.shape), header_out=ho)
                rows = [np.flatnonzero((xs == b.data[j][:, None]).all(0)) if b.data.shape[1] == len(xs) else [] for j in range(b.data.shape[0])]
                if any(len(r) != 1 for r in rows):
                    ck.fail("read_block", "rows", "returned rows are not rows of the input at the requested samples", shape=list(b.data.shape))
                    continue
                src = [int(r[0]) for r in rows]
                if not nearest(f, label(hin, src[0]), hin["foff"]):
                    ck.fail("read_block", "freq-index", "requesting a channel's frequency returned a different channel",
                            returned_first_channel=src[0], its_label=label(hin, src[0]))
                ck.copy_labels("read_block", hin, ho, src)
                ck.common("read_block", hin, ho, t0=st, dm=hin["dm"])
                if not close(float(b.dm), hin["dm"], STOL):
                    ck.fail("read_block", "block-dm", "the dm of a block read from the file is not the DM the input's header records", block_dm=float(b.dm), header_in=hin)
        for k, n in ((C - 2, 5), (C - 1, 2)):
            case, ck = begin(S, "read_block", start=st, nsamps=ns, channel=k, nchans_req=n, overrun=True)
            R.tick(case)
            kk, b = call(fil.read_block, st, ns, fch1=fch1 + k * foff, nchans=n)
            if kk == "ok" and b.data.shape[0] != b.header.nchans:
                ck.fail("read_block", "chan-overrun", "a request past the last channel returns a container whose nchans differs from its rows",
                        shape=list(b.data.shape), header_nchans=int(b.header.nchans))

    def dedisp_block(S, st, ns, dm):
        fil, hin, C = S.fil, S.hin, S.C
        delays = fil.header.get_dmdelays(dm)
        if st + int(delays.min()) < 0 or st + int(delays.max()) + ns > S.N:
            return
        case, ck = begin(S, "read_dedisp_block", start=st, nsamps=ns, dm=dm)
        R.tick(case)
        kk, b = call(fil.read_dedisp_block, st, ns, dm)
        if kk != "ok":
            ck.fail("read_dedisp_block", "exception", "read_dedisp_block raised", exc=b)
            return
        ho = hdict(b.header)
        if b.data.shape != (ho["nchans"], ho["nsamples"]):
            ck.fail("read_dedisp_block", "shape", "nchans/nsamples of the header differ from the data's shape", shape=list(b.data.shape), header_out=ho)
        ck.common("read_dedisp_block", hin, ho, t0=st)
        ck.copy_labels("read_dedisp_block", hin, ho, np.arange(C))
        if not (close(float(b.dm), dm, STOL) or close(ho["dm"], dm, STOL)):
            ck.fail("read_dedisp_block", "dm", "neither the block nor its header records the DM applied", block_dm=float(b.dm), header_out=ho)

    def with_source(body, *args, **kw):
        S, path = source(*args, **kw)
        try:
            if S is not None:
                body(S)
        finally:
            if os.path.exists(path):
                os.remove(path)

    # ---- L: 2**24 + 70001 samples x 2 channels -----------------------------------------------------------------------------------
    def long_file(S):
        N = S.N
        dm_s, dm_l = pick_dm(S, 900, 1500), pick_dm(S, 66000, 75000)
        ts = streams(S, 0, N, 16384, [dm_l], none=True, chans=[1])
        if ts is not None:
            ts_products(S, ts, "collapse", [3, 65537], 70001, 25.0, chain=14)
        ts = None
        for st, ns, gulp in (((1 << 24) + 5, 65000, 4097), (65537, (1 << 20) + 3, 70000), ((1 << 22) - 1, (1 << 18) + 1, 16384)):
            streams(S, st, ns, gulp, [dm_s, dm_l], chans=[0])
            files(S, st, ns, gulp, 3, 2, [1], (0, 1, 2), 16, 1, dm_s)
        for st, ns, gulp in ((3, 1 << 16, 16384), (1 << 16, (1 << 22) + 1, 65536), (65, 1 << 24, 1 << 20)):   # lengths at 2**16, 2**24
            streams(S, st, ns, gulp, [dm_s], chans=[1])
            files(S, st, ns, gulp, 2, 1, [0], None, None, 2, dm_s, only=("extract_samps", "downsample", "extract_chans", "subband"))
        files(S, 0, N, 70000, 300, 1, [0], (0, 1, 2), None, 2, dm_l, zerodm=False,
              only=("downsample", "extract_samps", "extract_chans", "subband", "invert_freq"))
        blocks(S, (1 << 24) + 11, 66000, 2, 300, dm_s, 66000 + 4099)
        blocks(S, N - 65537, 65537, 1, 65537, dm_s, 1 << 17, dmt=False, norm=False)
        dedisp_block(S, (1 << 24) + 11, 3000, dm_s)

    # ---- H: sparse file of 2**31 + 2**17 samples x 2 channels; data only in a window around sample 2**31 ---------------------------
    def huge_file():
        N, C, w0, wl = (1 << 31) + (1 << 17), 2, (1 << 31) - 2000, 100000
        xw = _scale_data(seed, 1, wl, C, 64)
        path = os.path.join(d, "H.fil")
        hd = dict(fch1=1400.0, foff=-1.0 / 3.0, tsamp=6.4e-5, tstart=51544.999999)
        try:
            w = Header(filename="H.fil", data_type="filterbank", nchans=C, nbits=8, nsamples=N, **hd).prep_outfile(path)
            w.close()
            hl = os.path.getsize(path)
            try:
                os.truncate(path, hl + N * C)
                with open(path, "r+b") as fh:
                    fh.seek(hl + w0 * C)
                    fh.write(xw.tobytes())
            except OSError as e:
                R.notes.append(f"at-scale search: the 2**31-sample sparse file could not be made ({e}); skipped")
                return
            if os.stat(path).st_blocks * 512 > (64 << 20):
                R.notes.append("at-scale search: the scratch file system does not keep sparse files sparse; the 2**31-sample file was skipped")
                return
            cfg = dict(file="H", nchans=C, nsamples=N, nbits=8, **hd,
                       data=f"props/c08.py scale() huge_file: header + zeros, samples {w0}..{w0 + wl} = _scale_data({seed}, 1, {wl}, {C}, 64)")
            R.tick(dict(cfg, api="FilReader"))
            S = _Src(FilReader(path), cfg, xw, w0)
            dm_h = pick_dm(S, 40, 200)
            for st, ns, gulp in (((1 << 31) + 5, 40000, 16384), ((1 << 31) - 1000, 70001, 70000)):
                streams(S, st, ns, gulp, [dm_h], chans=[1])
                files(S, st, ns, gulp, 3, 2, [0, 1], (0, 1, 2), 32, 2, dm_h, zerodm=False)
            blocks(S, (1 << 31) + 7, 5000, 2, 5, dm_h, 6000)
            # read_dedisp_block is left out here: on the unchanged tree it raises OverflowError for start >= 2**31 - max delay
            # (int32 delays + a Python int above the int32 range, NumPy 2 promotion), so there is no header to examine;
            # remove_zerodm is left out because it reads the whole file for its bandpass
        finally:
            if os.path.exists(path):
                os.remove(path)

    # ---- W: 66000 channels x 320 samples ---------------------------------------------------------------------------------------------
    def wide_file(S):
        C, N = S.C, S.N
        by_frequency(S, [0, 1, 255, 256, 32767, 32768, 32769, 65535, 65536, 65537, C - 1], 5, 16)
        dm_w = pick_dm(S, 40, 80)
        hi_ch = [65535, 65536, 65537, C - 1]
        streams(S, 0, N, 16384, [dm_w], none=True, chans=hi_ch[:2])
        streams(S, 17, 290, 100, [dm_w], chans=hi_ch[2:])
        chs = sorted(set(int(c) for c in np.random.default_rng([seed, 20]).choice(C, 246, replace=False)) | set(hi_ch))
        files(S, 17, 290, 100, 2, 300, chs, (64800, 300, 4), 16, 6600, dm_w)      # 250 .tim files, 300 sub-band files: two batches each
        files(S, 0, N, 16384, 3, C, None, (0, 2, C // 2), None, 1, dm_w, only=("downsample", "extract_bands", "subband"))
        dedisp_block(S, 3, 200, dm_w)
        blocks(S, 0, N, 300, 2, dm_w, N + 77)

    # ---- B: big blocks handed to the writer ------------------------------------------------------------------------------------------
    def big_blocks(gulps, exact, blk):
        def body(S):
            C, N, nbits = S.C, S.N, S.nbits
            dm_b = pick_dm(S, 300, 900)
            for gi, gulp in enumerate(gulps):
                st, ns = (777, N - 1000) if gi else (0, N)
                streams(S, st, ns, gulp, [dm_b], chans=[C - 1])
                files(S, st, ns, gulp, (7, 2, 300)[gi], (4, 2, 64)[gi], [3, C - 1], (C // 2, 2, C // 4), (16, 32, 8)[gi] if nbits != 2 else 8,
                      (4, C, 1)[gi], dm_b)
            for gulp in exact:      # blocks of exactly 2**20 / 2**22 / 2**24 elements
                streams(S, 5, N - 9, gulp, [dm_b], chans=[0])
                files(S, 5, N - 9, gulp, 2, 2, [1], None, 8 if nbits != 8 else 32, 2, dm_b,
                      only=("invert_freq", "extract_samps", "downsample", "requantize", "subband", "extract_chans"))
            if blk:
                blocks(S, 1001, blk, 4, 7, dm_b, blk + 1001, dmt=False, chain=5)
            if S.cfg["foff"] > 0:
                by_frequency(S, [0, 1, C // 2, C - 1], 65537, 16)
        return body

    # ---- M: more than 65536 blocks -----------------------------------------------------------------------------------------------------
    def many_blocks(S):
        N = S.N
        streams(S, 0, N, 3, [], none=True, chans=[1])
        files(S, 1, N - 1, 3, 3, 2, [1], (0, 1, 2), 32, 1, None, only=("extract_samps", "downsample", "invert_freq", "extract_chans", "extract_bands"))
        files(S, 12345, 100000, 7, 2, 1, None, None, 8, 1, None, only=("apply_channel_mask", "requantize", "remove_zerodm"))

    fileio.FileWriter.cwrite = counting_cwrite
    _readers.track = lambda it, **k: it
    try:
        with_source(long_file, 0, "L", (1 << 24) + 70001, 2, 8, 64, 400.0, -100.0 / 3.0, 6.4e-5, 58000.123456789)
        huge_file()
        with_source(wide_file, 2, "W", 320, 66000, 8, 64, 1500.0, -0.005, 1e-3, 60000.0, dm=12.5)
        with_source(big_blocks((4097, 16385, 70000), (4096, 16384, 65536), 70000), 3, "B8", 80001, 256, 8, 64, 1400.0, -1.0 / 3.0, 2.56e-4, 59999.5)
        with_source(big_blocks((4097, 16385, 70000), (65536,), None), 4, "B2", 80000, 256, 2, 4, 1500.0, -0.1, 2.56e-4, 59999.5, dm=12.5)
        with_source(big_blocks((16385, 65537), (16384, 65536), None), 5, "B32", 70000, 64, 32, 1000, 1100.0, 0.1, 2.56e-4, 59999.5, dtype=np.uint16)
        with_source(many_blocks, 6, "M", 200001, 2, 8, 128, 1200.0, -1.0 / 7.0, 1e-3, 60000.0, dm=12.5)
    finally:
        fileio.FileWriter.cwrite = orig_cwrite
        _readers.track = orig_track
        shutil.rmtree(d, ignore_errors=True)
