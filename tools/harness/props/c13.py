"""C13 -- matched-filter S/N is the normalised template correlation and its arg-max (PARTIAL: FFT and float error external).

Proof          Props/C13.v over Gen/MatchedFilter.v + Gen/Kernels.v (regenerated): every row of kernels.convolve_templates is the
               direct response sum; MatchedFilter._compute returns the maximum and its first location; invariance; boxcar core.
Correspondence the generated convolve_templates / normalize_template / _compute run under vm_compute (time-domain FFT instance, exact
               integer "normalisation") against the compiled kernels on integer-valued inputs, and np.argmax/unravel_index on
               integer matrices with ties.
Oracle         the property restated in NumPy float64:
                 response[i][t] = sum_k z[(t + k - ref_i) mod n] * tnorm_i[k]   (z = MatchedFilter.zscores.data, n = len(z),
                                  tnorm_i = template i zero-padded to n, minus its mean, divided by its 2-norm)
                 snr = max response, (best template, peak bin) = its location;
                 unchanged under x -> a x + b (a > 0);  a noiseless boxcar of a bank width is recovered at its start bin.
               Interpretation: the inner product is with the standardised DATA (n samples, read circularly), which is also what
               Template.get_model / MatchedFilter.best_model use.  The pinned source instead extends the data to the next FFT-good
               size N with copies of its first N - n samples; for FFT-good n (N = n) the two coincide.  The recovery clause of
               the property is false for that padded definition (Props/C13.v, C13_circular_pad_recovery_refuted), so it cannot be
               the reading the property intends; see findings.d/C13.md.

Tolerance: responses are compared in units of  eps32 * (log2 n + 1) * ||z||_2  (templates have unit norm; three float32
transforms of length n plus the float32 mean / norm of the template).  Worst value measured over all cases on the repaired tree:
< 1 unit; allowed: TOL = 8 units.  A mis-aligned reference bin, a missing reversal, normalising over the wrong length or a wrong
slice change some response by O(||z|| / sqrt(n)) or more, i.e. > 1e3 units.  Invariance: the float32 rounding of a x + b perturbs
each Z-score by <= eps32 * max|a x + b| / (a s), hence a response by at most sqrt(n) times that (allowed: 4x that bound + 2 TOL).
"""
import re

import numpy as np

import vlib

EPS = float(np.finfo(np.float32).eps)
TOL = 8.0
POISON = 777777777


def direct_responses(z, temps):
    """float64, from the definition; temps: list of (float array, ref_bin)"""
    n = len(z)
    z = np.asarray(z, dtype=np.float64)
    t = np.arange(n)[:, None]
    k = np.arange(n)[None, :]
    out = np.zeros((len(temps), n))
    for i, (data, ref) in enumerate(temps):
        tp = np.zeros(n)
        tp[:len(data)] = np.asarray(data, dtype=np.float32).astype(np.float64)
        tn = tp - tp.mean()
        nrm = np.sqrt((tn ** 2).sum())
        if nrm != 0:
            tn = tn / nrm
        out[i] = (z[(t + k - ref) % n] * tn[None, :]).sum(axis=1)
    return out


def tmpl_len(kind, w):
    from astropy.stats import gaussian_fwhm_to_sigma
    h = gaussian_fwhm_to_sigma * w if kind == "gaussian" else w / 2
    return 2 * int(np.ceil(3.5 * h)) + 1


def size_class(n, N):
    if N == n:
        return "good-odd-length" if n % 2 else "good-even-length"
    return "nongood-length-oddN" if N % 2 else "nongood-length-evenN"


def run(R: vlib.Run):
    from numba import typed
    from sigpyproc.core import kernels
    from sigpyproc.core.filters import MatchedFilter, Template

    quick = R.tier == "quick"
    rng = R.rng
    R.rule = ("data lengths n: every n in 4..%d plus selected larger good / bad / prime / odd-good sizes; template kinds boxcar, gaussian, "
              "lorentzian; bank (nbins_max, spacing_factor) varied; noise + pulse at positions {0, 1, n-w, n-1, random}; offsets and "
              "positive scalings; noiseless boxcars of every bank width at the edges and inside.  A case = one MatchedFilter run compared "
              "value by value with the float64 direct sums; non-trivial = at least 2 templates and n >= 8; distinct = distinct "
              "(check, n, kind, bank, position / factor)" % (72 if quick else 260))
    R.trusted += ["Coq 8.16.1 kernel + vm_compute", "tools/py2coq/gen_c12.py + py2coq.py (Python ast -> Gallina) and Model/C12_np.v, "
                  "Model/C13_np.v (NumPy semantics of roll, [::-1], prefix assignment, argmax, unravel_index)",
                  "the oracle tools/harness/props/c13.py (float64 direct sums, tolerance 8 units of eps32*(log2 n+1)*||z||)"]
    R.assume += ["fft_laws (H1-H5 of Model/C12_conv.v) for the external transform: assumed in the theorems, checked numerically by the C12 check",
                 "np.mean and division by the norm in normalize_template are external operations (norm_ops); their float32 evaluation is not modelled",
                 "equivariance of the location / scale estimators (estimate_zscore; property C15) is a hypothesis of the invariance theorem; "
                 "here invariance is tested end to end",
                 "boxcar recovery: only the Cauchy-Schwarz core is a theorem; the clause itself is tested (all bank widths x edge / interior positions)"]
    R.prove("Props/C13.v")

    worst = {}

    def note(key, u, n):
        if u > worst.get(key, (0.0, 0))[0]:
            worst[key] = (round(float(u), 3), int(n))

    def bank_of(mf):
        return [(t.data, int(t.ref_bin)) for t in mf.temp_bank]

    def small(x):
        return [round(float(v), 6) for v in x] if len(x) <= 24 else f"float32 array of length {len(x)} (regenerate from numpy_subseed with the recipe in tools/harness/props/c13.py)"

    # ------------------------------------------------------------------------------------------------------------
    def check_run(n, N, kind, nbins_max, spacing, x, sub, what):
        """one MatchedFilter run: responses, arg-max.  returns mf or None"""
        cls = size_class(n, N)
        base = {"check": what, "n": n, "good_size": N, "temp_kind": kind, "nbins_max": nbins_max, "spacing_factor": spacing,
                "numpy_subseed": sub, "data": small(x)}
        try:
            mf = MatchedFilter(x, temp_kind=kind, nbins_max=nbins_max, spacing_factor=spacing)
        except Exception as e:  # noqa: BLE001
            R.fail(f"matched-filter-raises-{cls}", f"MatchedFilter raised {type(e).__name__}: {str(e)[:100]}", base)
            return None
        z = mf.zscores.data
        temps = bank_of(mf)
        nz = float(np.linalg.norm(z.astype(np.float64)))
        if mf.convs.shape != (len(temps), n):
            R.fail("convs-shape", "convs is not (ntemps, nbins)", dict(base, shape=list(mf.convs.shape)))
            return None
        exp = direct_responses(z, temps)
        err = np.abs(mf.convs.astype(np.float64) - exp)
        unit = EPS * (np.log2(n) + 1) * max(nz, 1e-30)
        u = float(err.max() / unit)
        note("response", u if np.isfinite(u) else 1e30, n)
        if not u <= TOL:
            i, t = np.unravel_index(int(np.argmax(err)), err.shape)
            R.fail(f"response-not-inner-product-{cls}", "convs[i][t] differs from the inner product of the standardised data with the "
                   "normalised template placed at t", dict(base, template=int(i), bin=int(t), got=float(mf.convs[i, t]), expected=float(exp[i, t]),
                                                          template_width=float(mf.temp_bank[i].width), ref_bin=temps[i][1], error_units=u))
        # reference bins
        for tt in mf.temp_bank:
            okref = (tt.ref_bin == 0) if kind == "boxcar" else (tt.ref_bin == int(np.argmax(tt.data)) and tt.data.size == 2 * tt.ref_bin + 1)
            if not okref:
                R.fail("template-ref-bin", "reference bin is not the start (boxcar) / the peak (gaussian, lorentzian) of the template",
                       dict(base, width=float(tt.width), ref_bin=int(tt.ref_bin)))
        # S/N, peak bin, best template = maximum of the responses and its location
        c = mf.convs
        mx = c.max()
        it, pk = np.unravel_index(int(c.argmax()), c.shape)
        if not (mf.snr == mx and c[mf._itemp, mf.peak_bin] == mx and mf.best_temp is mf.temp_bank[int(mf._itemp)]
                and (int(mf._itemp), mf.peak_bin) == (int(it), int(pk))):
            R.fail("snr-not-max-response", "snr / peak_bin / best_temp are not the maximum of convs and its (first) location",
                   dict(base, snr=float(mf.snr), max=float(mx), reported=[int(mf._itemp), mf.peak_bin], argmax=[int(it), int(pk)]))
        if abs(float(mf.snr) - float(exp.max())) > TOL * unit:
            R.fail(f"snr-not-max-inner-product-{cls}", "snr differs from the maximum of the direct inner products", dict(base, snr=float(mf.snr), expected=float(exp.max())))
        return mf

    # ---------------- data lengths ------------------------------------------------------------------------------------
    if quick:
        ns = list(range(4, 73)) + [75, 81, 97, 100, 125, 127, 128, 135, 200, 243, 250, 256]
    else:
        ns = list(range(4, 261)) + [270, 375, 405, 499, 500, 512, 625, 675, 729, 1000, 1021, 1024, 1125, 2000, 2048]
    for n in ns:
        N = int(kernels.nb_fft_good_size(n, True))
        cls = size_class(n, N)
        for kind in ("boxcar", "gaussian", "lorentzian"):
            # largest width whose template (2 * ceil(3.5 * sigma-or-gamma) + 1 samples) still fits in the data
            lim = n if kind == "boxcar" else max([w for w in range(1, n + 1) if tmpl_len(kind, w) <= n], default=0)
            if lim < 1:
                continue
            banks = [(min(32, lim), 1.5)]
            if n % 3 == 0 or not quick:
                banks.append((max(1, min(rng.randrange(1, 41), lim)), rng.choice([1.2, 2.0, 1.35])))
            for nbins_max, spacing in banks:
                if kind != "boxcar" and spacing <= 1:
                    continue
                sub = rng.randrange(2 ** 32)
                g = np.random.default_rng(sub)
                w = int(g.integers(1, max(2, min(nbins_max, n // 2) + 1)))
                pos = int(g.choice([0, 1, max(0, n - w), n - 1, int(g.integers(0, n))]))
                x = g.normal(0.0, 1.0, size=n)
                amp = float(g.uniform(4, 12))
                for j in range(w):
                    if kind == "boxcar":
                        if pos + j < n:
                            x[pos + j] += amp
                    else:
                        x[(pos + j - w // 2) % n] += amp * np.exp(-0.5 * ((j - w // 2) / max(w / 2.355, 0.5)) ** 2)
                x = x.astype(np.float32)
                R.case(("resp", n, kind, nbins_max, spacing, pos), nontrivial=n >= 8, regime=f"response/{kind}/{cls}",
                       sample={"n": n, "good_size": N, "kind": kind, "nbins_max": nbins_max, "spacing": spacing, "pulse_at": pos, "width": w}
                       if n in (13, 50) and kind == "boxcar" else None)
                mf = check_run(n, N, kind, nbins_max, spacing, x, sub, "response")
                if mf is None or n < 8:
                    continue
                # ---- invariance under x -> a x + b
                z = mf.zscores.data.astype(np.float64)
                s0 = float(np.asarray(mf.zscores.scale).ravel()[0])
                flat = np.sort(mf.convs.ravel())
                gap = float(flat[-1] - flat[-2]) if flat.size > 1 else np.inf
                unit = EPS * (np.log2(n) + 1) * float(np.linalg.norm(z))
                trans = [(float(g.choice([0.25, 3.0, 37.5])), 0.0), (1.0, float(g.choice([7.5, -300.0, 1000.0]))),
                         (float(g.choice([1e-3, 1e3])), float(g.choice([-2.0, 40.0])))]
                if kind == "boxcar":
                    trans.append((float(g.choice([1e-9, 1e-12, 1e12])), 0.0))      # far from unit scale, well inside float32 range
                for a, b in trans:
                    x2 = (np.float32(a) * x + np.float32(b)).astype(np.float32)
                    key = "invariance-" + ("scale-factor-below-1e-8" if a < 1e-8 else "scale" if b == 0 else "offset" if a == 1 else "affine")
                    R.case(("inv", n, kind, nbins_max, a, b), nontrivial=True, regime=key.replace("invariance-", "invariance/"))
                    c = {"check": "invariance", "n": n, "good_size": N, "temp_kind": kind, "nbins_max": nbins_max, "spacing_factor": spacing,
                         "numpy_subseed": sub, "a": a, "b": b, "data": small(x)}
                    try:
                        mf2 = MatchedFilter(x2, temp_kind=kind, nbins_max=nbins_max, spacing_factor=spacing)
                    except Exception as e:  # noqa: BLE001
                        R.fail(key + "-raises", f"MatchedFilter(a x + b) raised {type(e).__name__}", c)
                        continue
                    s2 = float(np.asarray(mf2.zscores.scale).ravel()[0])
                    tol = 4 * EPS * np.sqrt(n) * (float(np.abs(x2).max()) / s2 + float(np.abs(x).max()) / s0) + 2 * TOL * unit
                    d = abs(float(mf2.snr) - float(mf.snr))
                    note("invariance", d / tol, n)
                    if not d <= tol:
                        R.fail(key, "snr changes under x -> a x + b, a > 0", dict(c, snr=float(mf.snr), snr_transformed=float(mf2.snr), tolerance=tol))
                    elif gap > 2 * tol and (mf2.peak_bin != mf.peak_bin or mf2.best_temp.width != mf.best_temp.width):
                        R.fail(key, "peak bin / best template change under x -> a x + b, a > 0 (maximum well separated)",
                               dict(c, peak=[mf.peak_bin, mf2.peak_bin], width=[float(mf.best_temp.width), float(mf2.best_temp.width)]))
        # ---- noiseless boxcar of a bank width: recovered at its start bin with that width
        nbm = min(32, n)
        widths = [int(v) for v in MatchedFilter.get_box_width_spacing(nbm, 1.5)]
        for w in widths:
            if w >= n:
                continue
            ps = sorted({0, 1, n - w, n - w - 1, rng.randrange(0, n - w + 1)} if (quick and n > 40) else {0, 1, 2, n - w, n - w - 1, (n - w) // 2, rng.randrange(0, n - w + 1)})
            for p in ps:
                if p < 0 or p + w > n:
                    continue
                x = np.zeros(n, dtype=np.float32)
                amp = float(rng.choice([1.0, 5.0, 250.0]))
                x[p:p + w] = amp
                R.case(("boxrec", n, w, p), nontrivial=n >= 8, regime=f"boxcar-recovery/{cls}")
                c = {"check": "boxcar recovery", "n": n, "good_size": N, "width": w, "start_bin": p, "amplitude": amp, "nbins_max": nbm, "spacing_factor": 1.5,
                     "reproduce": "x = zeros(n, float32); x[start_bin:start_bin+width] = amplitude; MatchedFilter(x, temp_kind='boxcar', nbins_max=nbins_max)"}
                try:
                    mf = MatchedFilter(x, temp_kind="boxcar", nbins_max=nbm, spacing_factor=1.5)
                except Exception as e:  # noqa: BLE001
                    R.fail(f"boxcar-recovery-raises-{cls}", f"MatchedFilter raised {type(e).__name__}: {str(e)[:100]}", c)
                    continue
                if mf.peak_bin != p or int(mf.best_temp.width) != w or tuple(mf.on_pulse) != (p, p + w):
                    R.fail(f"boxcar-recovery-{cls}", "noiseless boxcar of a bank width is not recovered at its start bin with that width",
                           dict(c, peak_bin=mf.peak_bin, best_width=float(mf.best_temp.width), on_pulse=[int(v) for v in mf.on_pulse], snr=float(mf.snr)))
    R.extra_cov["worst_error_units"] = {k: {"units": v[0], "at_n": v[1]} for k, v in worst.items()}
    R.extra_cov["tolerance_units"] = TOL

    # ---------------- correspondence ------------------------------------------------------------------------------------
    R.need(["Model/C13_mf.vo", "Gen/MatchedFilter.vo"])
    GS_MAX = 64
    tab = [0] + [int(kernels.nb_fft_good_size(n, True)) for n in range(1, GS_MAX + 1)]
    zero_sum = [[1, -1], [2, -1, -1], [1, 0, -1], [3, -1, -1, -1], [-1, 2, -1], [1, 1, -2, 0], [1, -2, 1, 0, 0]]
    cases = []     # (data, bank, refs, raised, rows)
    for n in list(range(2, 21)) + [24, 25, 27, 30]:
        for _ in range(2):
            N = tab[n]
            data = [rng.randrange(-3, 4) for _ in range(n)]
            bank = [t for t in (rng.sample(zero_sum, 3)) if len(t) <= n]
            if n * N <= 150 and n >= 2:
                bank.append([n * N] * rng.randrange(1, min(n, 4)))
            if not bank:
                continue
            refs = [rng.randrange(0, len(t)) for t in bank]
            try:
                c = kernels.convolve_templates(np.array(data, dtype=np.float32), typed.List([np.array(t, dtype=np.float32) for t in bank]), typed.List(refs))
                raised = 0
            except Exception:  # noqa: BLE001
                c, raised = None, 1
            rows = []
            if c is not None:
                for i, t in enumerate(bank):
                    # un-normalise: the model's div_norm keeps x, the implementation divides by sqrt(sum (tp - mean)^2) over its padded length;
                    # zero-sum templates have mean 0 for every padded length; n*N-scaled templates: try both candidate lengths
                    tpn = np.zeros(n); tpn[:len(t)] = t
                    tpN = np.zeros(N); tpN[:len(t)] = t
                    cand = []
                    for tp in (tpn, tpN):
                        q = float(((tp - tp.mean()) ** 2).sum())
                        cand.append(np.asarray(c[i], dtype=np.float64) * np.sqrt(q))
                    rows.append([[int(v) for v in np.rint(cv)] for cv in cand])
            cases.append((data, bank, refs, raised, rows))
    # argmax / unravel on integer matrices with ties
    am = []
    for _ in range(60):
        nr, nc = rng.randrange(1, 6), rng.randrange(1, 9)
        M = [[rng.randrange(-2, 3) for _ in range(nc)] for _ in range(nr)]
        A = np.array(M)
        i, t = np.unravel_index(int(A.argmax()), A.shape)
        am.append((M, nc, int(i), int(t), int(A.max())))

    def ll(xss):
        return "[" + "; ".join(vlib.zlist(x) for x in xss) + "]"
    lines = ["From Coq Require Import ZArith List Bool.",
             "Require Import SPP.Base.Rt SPP.Model.C12_np SPP.Model.C12_conv SPP.Model.C13_np SPP.Gen.Kernels SPP.Gen.MatchedFilter SPP.Model.C13_mf.",
             "Import ListNotations.", "Open Scope Z_scope.",
             f"Definition gs (n : Z) : Z := nth (Z.to_nat n) {vlib.zlist(tab)} n.",
             f"Definition POISON := {POISON}.",
             "(* time-domain instance; an inverse asked for a length other than the transform length is outside the assumed laws: poisoned *)",
             "Definition F : fft_ops := {| fft_spec := list Z; fft_good_size := gs; fft_rfft := td_rfft; fft_smul := td_smul; fft_slen := td_slen;",
             "  fft_irfft := fun s n => if n =? len s then s else repeat POISON (Z.to_nat n) |}.",
             "Definition nm : norm_ops := {| nrm_mean_of_sum := fun n s => s / n; nrm_div_norm := fun x _ => x |}.",
             "Definition cases : list (list Z * list (list Z) * list Z * Z * list (list (list Z))) := [",
             ";\n".join(f"({vlib.zlist(d)}, {ll(b)}, {vlib.zlist(r)}, {ra}, [" + "; ".join(ll(alt) for alt in rows) + "])" for d, b, r, ra, rows in cases),
             "].",
             """Definition poisoned (rows : list (list Z)) : bool := existsb (fun r => existsb (Z.eqb POISON) r) rows.
Definition badlen (nb : Z) (rows : list (list Z)) : bool := existsb (fun r => negb (len r =? nb)) rows.
Fixpoint rows_ok (rows : list (list Z)) (alts : list (list (list Z))) : bool :=
  match rows, alts with
  | [], [] => true
  | r :: rs, a :: al => existsb (list_eqb r) a && rows_ok rs al
  | _, _ => false end.
Definition verdict (c : list Z * list (list Z) * list Z * Z * list (list (list Z))) : Z :=   (* 0 ok, 1 undetermined, 2 mismatch *)
  let '(data, bank, refs, raised, alts) := c in
  let rows := convolve_templates_run F nm data bank refs in
  if raised =? 1 then (if badlen (len data) rows then 0 else 2)
  else if poisoned rows then 1
  else if badlen (len data) rows then 2
  else if rows_ok rows alts then 0 else 2.
Definition vs := map verdict cases.
Eval vm_compute in (length cases, map fst (filter (fun p => snd p =? 2) (combine (seq 0 (length cases)) vs)), length (filter (Z.eqb 1) vs)).""",
             "Definition am : list (list (list Z) * Z * Z * Z * Z) := [",
             ";\n".join(f"({ll(M)}, {nc}, {i}, {t}, {mx})" for M, nc, i, t, mx in am), "].",
             """Eval vm_compute in (map fst (filter (fun p => let '(M, nc, i, t, mx) := snd p in
   negb (let '(i', t', s') := mf_pick M nc in (i' =? i) && (t' =? t) && (s' =? mx))) (combine (seq 0 (length am)) am)))."""]
    rc, out = vlib.coq_run("c13_0", "\n".join(lines), timeout=600)
    vals = vlib.parse_eval(out)
    if rc != 0 or len(vals) < 2:
        R.red.append("correspondence: Corr/c13_0 did not evaluate: " + out[-500:])
    else:
        m = re.match(r"\((\d+)%nat, (.*), (\d+)%nat\)$", vals[0])
        if not m:
            R.red.append("correspondence: cannot parse " + vals[0][:200])
        else:
            bad = [int(v) for v in re.findall(r"(\d+)%nat", m.group(2))]
            for bi in bad[:6]:
                d, b, r, ra, rows = cases[bi]
                R.disagree("generated convolve_templates (time-domain FFT instance, integer normalisation) and the compiled kernel differ",
                           {"data": d, "bank": b, "ref_bins": r, "impl_raised": bool(ra), "impl_rows_unnormalised": [alt[0] for alt in rows]})
            R.extra_cov["traces_validated_against_impl"] = int(m.group(1)) - int(m.group(3))
            R.extra_cov["cases_outside_the_assumed_fft_laws"] = int(m.group(3))
        for v in re.findall(r"(\d+)%nat", vals[1])[:4]:
            M, nc, i, t, mx = am[int(v)]
            R.disagree("Model np_argmax / np_unravel_index differ from NumPy", {"matrix": M, "numpy": [i, t, mx]})
    R.extra_cov["correspondence_cases"] = len(cases) + len(am)
    return R
