"""C13 -- matched-filter S/N is the normalised template correlation and its arg-max (PARTIAL: FFT and float error external).

Proof          Props/C13.v over Gen/MatchedFilter.v + Gen/Kernels.v (regenerated): every row of kernels.convolve_templates is the
               direct response sum; MatchedFilter._compute returns the maximum and its first location; invariance; boxcar core.
Correspondence the generated convolve_templates / normalize_template / _compute run under vm_compute (time-domain FFT instance, exact
               integer "normalisation") against the compiled kernels on integer-valued inputs, and np.argmax/unravel_index on
               integer matrices with ties.
Oracle         the property restated in NumPy float64:
                 response[i][t] = sum_k z[(t + k - ref_i) mod n] * tnorm_i[k]   (z = MatchedFilter.zscores.data, n = len(z),
                                  tnorm_i = template i zero-padded to n, minus its mean, divided by its 2-norm)
                 snr = max response, (best template, peak bin) = its location;
                 unchanged under x -> a x + b (a > 0);  a noiseless boxcar of a bank width is recovered at its start bin.
               Interpretation: the inner product is with the standardised DATA (n samples, read circularly), which is also what
               Template.get_model / MatchedFilter.best_model use.  The pinned source instead extends the data to the next FFT-good
               size N with copies of its first N - n samples; for FFT-good n (N = n) the two coincide.  The recovery clause of
               the property is false for that padded definition (Props/C13.v, C13_circular_pad_recovery_refuted), so it cannot be
               the reading the property intends; see findings.d/C13.md.
               General banks: kernels.convolve_templates is also called directly with ascending, descending, shuffled and repeated
               banks and with each template alone (free_templates): every row must be the direct sum for ITS template and agree
               with the row that template gets alone -- the response of a template does not depend on the rest of the bank.
At scale       scale(R): the same definitions on series of 2**16 .. 2**24 samples (float64 rows from ScaleRef), see its docstring.

Tolerance: responses are compared in units of  eps32 * (log2 n + 1) * ||z||_2  (templates have unit norm; three float32
transforms of length n plus the float32 mean / norm of the template).  Worst value measured over all cases on the repaired tree:
< 1 unit; allowed: TOL = 8 units.  A mis-aligned reference bin, a missing reversal, normalising over the wrong length or a wrong
slice change some response by O(||z|| / sqrt(n)) or more, i.e. > 1e3 units.  Invariance: the float32 rounding of a x + b perturbs
each Z-score by <= eps32 * max|a x + b| / (a s), hence a response by at most sqrt(n) times that (allowed: 4x that bound + 2 TOL).
"""
import re

import numpy as np

import vlib

EPS = float(np.finfo(np.float32).eps)
TOL = 8.0
POISON = 777777777


def direct_responses(z, temps):
    """float64, from the definition; temps: list of (float array, ref_bin)"""
    n = len(z)
    z = np.asarray(z, dtype=np.float64)
    t = np.arange(n)[:, None]
    k = np.arange(n)[None, :]
    out = np.zeros((len(temps), n))
    for i, (data, ref) in enumerate(temps):
        tp = np.zeros(n)
        tp[:len(data)] = np.asarray(data, dtype=np.float32).astype(np.float64)
        tn = tp - tp.mean()
        nrm = np.sqrt((tn ** 2).sum())
        if nrm != 0:
            tn = tn / nrm
        out[i] = (z[(t + k - ref) % n] * tn[None, :]).sum(axis=1)
    return out


def tmpl_len(kind, w):
    from astropy.stats import gaussian_fwhm_to_sigma
    h = gaussian_fwhm_to_sigma * w if kind == "gaussian" else w / 2
    return 2 * int(np.ceil(3.5 * h)) + 1


def size_class(n, N):
    if N == n:
        return "good-odd-length" if n % 2 else "good-even-length"
    return "nongood-length-oddN" if N % 2 else "nongood-length-evenN"


# ---- independent references for what MatchedFilter derives from its arguments (not read back from the implementation) ----------
FWHM_TO_SIGMA = 1.0 / (2.0 * np.sqrt(2.0 * np.log(2.0)))       # gaussian: sigma = FWHM / 2.3548...
IQR_TO_SIGMA = 1.3489795003921634                               # 2 * Phi^-1(0.75)
MAD_TO_SIGMA = 1.482602218505602                                # 1 / Phi^-1(0.75)
LOCS = ("median", "mean")
# diffcov is not drawn: sqrt|cov| of a signed sum is ill-conditioned (on noise + pulse data the sum cancels to 1e-3 of its terms), so
# the float32 rounding of a x + b alone moves its value, and with it every response, by 1e-3 relative; C15 exempts such lanes from
# the float32 Z-score relation.  (R.assume)
SCALES = ("iqr", "mad", "doublemad", "biweight", "qn", "sn", "gapper", "std")


def ref_loc_scale(x64, loc, scl):
    """float64 location and scale from their textbook definitions, for the estimators that have a one-line one (the others are
    C15's subject: for them only equivariance is demanded here, through the invariance cases); None when there is none"""
    if loc == "median":
        L = float(np.median(x64))
    elif loc == "mean":
        L = float(x64.mean())
    elif loc == "norm":
        L = 0.0
    else:
        return None
    if scl == "iqr":
        q1, q3 = np.percentile(x64, [25, 75])
        S = float(q3 - q1) / IQR_TO_SIGMA
    elif scl == "mad":
        S = float(np.median(np.abs(x64 - np.median(x64)))) * MAD_TO_SIGMA
    elif scl == "std":
        S = float(x64.std())
    elif scl == "norm":
        S = 1.0
    else:
        return None
    return L, S


def template_shape(kind, w):
    """the template of nominal width w from its definition: boxcar = w ones; gaussian of FWHM w / lorentzian of FWHM w sampled
    at the integers -m .. m, m = ceil(3.5 * sigma) resp. ceil(3.5 * gamma), peak value 1"""
    if kind == "boxcar":
        return np.ones(int(w))
    h = FWHM_TO_SIGMA * float(w) if kind == "gaussian" else float(w) / 2
    m = int(np.ceil(3.5 * h))
    xs = np.arange(-m, m + 1, dtype=np.float64)
    return np.exp(-0.5 * xs ** 2 / h ** 2) if kind == "gaussian" else h ** 2 / (xs ** 2 + h ** 2)


def width_ladder(kind, nbins_max, spacing):
    """the widths of the bank: boxcar 1, then max(w + 1, floor(spacing * w)) while <= nbins_max; otherwise
    ceil(ln nbins_max / ln spacing) + 1 widths spaced geometrically from 1 to nbins_max"""
    if kind == "boxcar":
        ws = [1]
        while ws[-1] < nbins_max:
            nxt = int(max(ws[-1] + 1, spacing * ws[-1]))
            if nxt > nbins_max:
                break
            ws.append(nxt)
        return np.array(ws, dtype=np.float64)
    npts = int(np.ceil(np.log(nbins_max) / np.log(spacing))) + 1
    return np.geomspace(1, nbins_max, npts)


def run(R: vlib.Run):
    from numba import typed
    from sigpyproc.core import kernels
    from sigpyproc.core.filters import MatchedFilter, Template

    quick = R.tier == "quick"
    rng = R.rng
    R.rule = ("data lengths n: 1, 2, 3 (boxcar), every n in 4..%d plus selected larger good / bad / prime / odd-good sizes; template kinds boxcar, gaussian, "
              "lorentzian; bank (nbins_max, spacing_factor) varied; noise + pulse at positions {0, 1, n-w, n-1, random}; offsets and "
              "positive scalings (every transformed run is itself compared value by value, and its rows with the rows of the original); "
              "for n divisible by 5 a second run with a drawn (location, scale) estimator pair out of 2 x 8 (all but diffcov), for n divisible by 10 "
              "('norm', 'norm'); noiseless boxcars of every bank width at the edges and inside, for the bank (min(32, n), 1.5) and, for "
              "n <= 40 or n divisible by 7, the banks (n, 1.0) = every width, (min(n, 40), 1.2), (n, 2.0) with an offset.  A case = one "
              "MatchedFilter run compared value by value with the float64 direct sums, its Z-scores with (x - loc) / scale from the "
              "textbook definitions (median / mean, iqr / mad / std), its templates and width ladder with their closed forms, on_pulse "
              "with the clipped interval; non-trivial = at least 2 templates and n >= 8; distinct = distinct "
              "(check, n, kind, bank, position / factor, estimators).  Kernel on general banks: 3..6 templates of pairwise different lengths (boxcar, "
              "peaked, free-form; any reference bin) in ascending / descending / shuffled / repeated order and alone" % (72 if quick else 260))
    R.trusted += ["Coq 8.16.1 kernel + vm_compute", "tools/py2coq/gen_c12.py + py2coq.py (Python ast -> Gallina) and Model/C12_np.v, "
                  "Model/C13_np.v (NumPy semantics of roll, [::-1], prefix assignment, argmax, unravel_index)",
                  "the oracle tools/harness/props/c13.py (float64 direct sums, tolerance 8 units of eps32*(log2 n+1)*||z||)"]
    R.assume += ["fft_laws (H1-H5 of Model/C12_conv.v) for the external transform: assumed in the theorems, checked numerically by the C12 check",
                 "np.mean and division by the norm in normalize_template are external operations (norm_ops); their float32 evaluation is not modelled",
                 "equivariance of the location / scale estimators (estimate_zscore; property C15) is a hypothesis of the invariance theorem; "
                 "here invariance is tested end to end",
                 "boxcar recovery: only the Cauchy-Schwarz core is a theorem; the clause itself is tested (all bank widths x edge / interior positions)",
                 "invariance of the S/N under a positive factor is demanded where the scale estimate of the data is not zero: when it is exactly 0 "
                 "(noiseless pulse narrower than a quarter of the data under iqr, more than half of the samples tied) estimate_zscore falls back "
                 "to unit scale by design (C15) and the S/N is proportional to the factor, peak bin and width staying unchanged "
                 "(findings.d/C13.md, 'not a defect'); the invariance cases therefore use continuous noise, and the Z-score reference is "
                 "compared only where the reference scale exceeds 1e-6 of the largest deviation",
                 "location / scale estimators without a one-line definition (doublemad, biweight, qn, sn, gapper) are taken from "
                 "zscores.data as they are (their values are C15's subject); for them only the consequences stated here are demanded",
                 "scale_method='doublemad' is drawn for the response and recovery clauses but not for the offset / factor cases: its per-sample scale "
                 "jumps at the median, so a sample that the float32 rounding of a x + b moves onto the median changes its Z-score by the ratio of "
                 "the lower and upper scales (n = 135, loc mean, a = 1e-3, b = 40: one Z-score -0.95 -> -0.63); no float32 bound exists there",
                 "scale_method='diffcov' is not among the estimator pairs drawn: sqrt|cov| of a signed sum that cancels to ~1e-3 of its terms on "
                 "noise + pulse data, so the float32 rounding of a x + b by itself changes the scale, hence the S/N, by ~3e-3 relative "
                 "(n = 40, a = 1e-3, b = -2: 164.06 -> 163.64); C15 exempts such ill-conditioned lanes from the float32 Z-score relation"]
    R.prove("Props/C13.v")

    worst = {}

    def note(key, u, n):
        if u > worst.get(key, (0.0, 0))[0]:
            worst[key] = (round(float(u), 3), int(n))

    def bank_of(mf):
        return [(t.data, int(t.ref_bin)) for t in mf.temp_bank]

    def small(x):
        return [round(float(v), 6) for v in x] if len(x) <= 24 else f"float32 array of length {len(x)} (regenerate from numpy_subseed with the recipe in tools/harness/props/c13.py)"

    # ------------------------------------------------------------------------------------------------------------
    def est_kw(loc, scl):
        """the default estimators are requested by NOT passing them (so the defaults themselves are under test)"""
        return {} if (loc, scl) == ("median", "iqr") else {"loc_method": loc, "scale_method": scl}

    def check_mf(mf, n, N, kind, nbins_max, spacing, x, base, loc="median", scl="iqr"):
        """everything the property fixes about one finished MatchedFilter run on the float32 series x.  returns True unless the
        shape of convs is wrong"""
        cls = size_class(n, N)
        z = mf.zscores.data
        temps = bank_of(mf)
        nz = float(np.linalg.norm(z.astype(np.float64)))
        if mf.convs.shape != (len(temps), n):
            R.fail("convs-shape", "convs is not (ntemps, nbins)", dict(base, shape=list(mf.convs.shape)))
            return False
        # "standardised data": (x - location) / scale, location and scale from their definitions (not read back from the run)
        x64 = np.asarray(x, dtype=np.float32).astype(np.float64)
        ls = ref_loc_scale(x64, loc, scl)
        if z.shape != (n,):
            R.fail("zscores-not-standardised", "zscores.data does not have the shape of the data", dict(base, shape=list(z.shape)))
        elif ls is not None and ls[1] > 1e-6 * float(np.abs(x64 - ls[0]).max()):        # zero-scale fallback regime excluded (R.assume)
            L, S = ls
            zref = (x64 - L) / S
            amax = float(np.abs(x64).max())
            tolz = 4 * EPS * (1.0 + float(np.abs(zref).max()) + amax / S)
            dz = float(np.abs(z.astype(np.float64) - zref).max())
            note("zscore", dz / tolz if np.isfinite(dz) else 1e30, n)
            gl = float(np.asarray(mf.zscores.loc).ravel()[0])
            gs = float(np.asarray(mf.zscores.scale).ravel()[0])
            if not dz <= tolz:
                t = int(np.argmax(np.abs(z.astype(np.float64) - zref)))
                R.fail("zscores-not-standardised", "zscores.data is not (data - location) / scale with the location and scale estimators asked for "
                       "(default: median, iqr / 1.349)", dict(base, bin=t, got=float(z[t]), expected=float(zref[t]), loc=gl, loc_expected=L,
                                                             scale=gs, scale_expected=S, tolerance=tolz))
            elif not (abs(gl - L) <= 4 * EPS * (amax + S) and abs(gs - S) <= 4 * EPS * (amax + S)):
                R.fail("zscores-not-standardised", "zscores.loc / zscores.scale are not the location / scale of the data",
                       dict(base, loc=gl, loc_expected=L, scale=gs, scale_expected=S))
        exp = direct_responses(z, temps)
        err = np.abs(mf.convs.astype(np.float64) - exp)
        unit = EPS * (np.log2(n) + 1) * max(nz, 1e-30)
        u = float(err.max() / unit)
        note("response", u if np.isfinite(u) else 1e30, n)
        if not u <= TOL:
            i, t = np.unravel_index(int(np.argmax(err)), err.shape)
            R.fail(f"response-not-inner-product-{cls}", "convs[i][t] differs from the inner product of the standardised data with the "
                   "normalised template placed at t", dict(base, template=int(i), bin=int(t), got=float(mf.convs[i, t]), expected=float(exp[i, t]),
                                                          template_width=float(mf.temp_bank[i].width), ref_bin=temps[i][1], error_units=u))
        # reference bins
        for tt in mf.temp_bank:
            okref = (tt.ref_bin == 0) if kind == "boxcar" else (tt.ref_bin == int(np.argmax(tt.data)) and tt.data.size == 2 * tt.ref_bin + 1)
            if not okref:
                R.fail("template-ref-bin", "reference bin is not the start (boxcar) / the peak (gaussian, lorentzian) of the template",
                       dict(base, width=float(tt.width), ref_bin=int(tt.ref_bin)))
        # the bank asked for: width ladder (nbins_max, spacing_factor) and, per width, the template of that kind from its closed form
        wexp = width_ladder(kind, nbins_max, spacing)
        wgot = np.asarray(mf.temp_widths, dtype=np.float64).ravel()
        wbank = np.array([float(tt.width) for tt in mf.temp_bank])
        if not (wgot.shape == wexp.shape == wbank.shape and np.allclose(wgot, wexp, rtol=1e-6, atol=0) and np.allclose(wbank, wexp, rtol=1e-6, atol=0)):
            R.fail("bank-width-ladder", "the widths of the template bank are not the ladder of (nbins_max, spacing_factor): boxcar 1, "
                   "max(w + 1, floor(s w)), ... <= nbins_max; otherwise ceil(ln nbins_max / ln s) + 1 widths spaced geometrically from 1 to nbins_max",
                   dict(base, temp_widths=[float(v) for v in wgot[:64]], bank_widths=[float(v) for v in wbank[:64]], expected=[float(v) for v in wexp[:64]]))
        for tt in mf.temp_bank:
            sh = template_shape(kind, tt.width)
            d = np.asarray(tt.data, dtype=np.float64)
            if not (d.shape == sh.shape and float(np.abs(d - sh).max()) <= 1e-6):
                R.fail("template-shape", "a template of the bank is not the shape of its kind and width (boxcar: width ones; gaussian / lorentzian "
                       "of that FWHM, peak 1, on -m..m with m = ceil(3.5 sigma / gamma))",
                       dict(base, width=float(tt.width), size=int(d.size), expected_size=int(sh.size),
                            max_abs_difference=float(np.abs(d - sh).max()) if d.shape == sh.shape else None))
                break
        # S/N, peak bin, best template = maximum of the responses and its location
        c = mf.convs
        mx = c.max()
        it, pk = np.unravel_index(int(c.argmax()), c.shape)
        if not (mf.snr == mx and c[mf._itemp, mf.peak_bin] == mx and mf.best_temp is mf.temp_bank[int(mf._itemp)]
                and (int(mf._itemp), mf.peak_bin) == (int(it), int(pk))):
            R.fail("snr-not-max-response", "snr / peak_bin / best_temp are not the maximum of convs and its (first) location",
                   dict(base, snr=float(mf.snr), max=float(mx), reported=[int(mf._itemp), mf.peak_bin], argmax=[int(it), int(pk)]))
        if abs(float(mf.snr) - float(exp.max())) > TOL * unit:
            R.fail(f"snr-not-max-inner-product-{cls}", "snr differs from the maximum of the direct inner products", dict(base, snr=float(mf.snr), expected=float(exp.max())))
        # on_pulse: the extent of the best template placed at the peak bin, clipped to the data: [peak, peak + width) for the
        # start-referenced boxcar, peak -/+ round(width) for the peak-referenced kinds
        bw = mf.best_temp.width
        lo, hi = (mf.peak_bin, mf.peak_bin + int(bw)) if kind == "boxcar" else (mf.peak_bin - round(float(bw)), mf.peak_bin + round(float(bw)))
        want = (max(0, lo), min(n, hi))
        try:
            got = tuple(int(v) for v in mf.on_pulse)
        except Exception as e:  # noqa: BLE001
            got = f"raised {type(e).__name__}"
        if got != want:
            R.fail("on-pulse", "on_pulse is not the extent of the best template at the peak bin, clipped to the data",
                   dict(base, peak_bin=mf.peak_bin, best_width=float(bw), on_pulse=list(got) if isinstance(got, tuple) else got, expected=list(want)))
        return True

    def check_run(n, N, kind, nbins_max, spacing, x, sub, what, loc="median", scl="iqr"):
        """one MatchedFilter run: Z-scores, bank, responses, arg-max, on_pulse.  returns mf or None"""
        cls = size_class(n, N)
        base = {"check": what, "n": n, "good_size": N, "temp_kind": kind, "nbins_max": nbins_max, "spacing_factor": spacing,
                "numpy_subseed": sub, "data": small(x)}
        if est_kw(loc, scl):
            base.update(est_kw(loc, scl))
        try:
            mf = MatchedFilter(x, temp_kind=kind, nbins_max=nbins_max, spacing_factor=spacing, **est_kw(loc, scl))
        except Exception as e:  # noqa: BLE001
            R.fail(f"matched-filter-raises-{cls}", f"MatchedFilter raised {type(e).__name__}: {str(e)[:100]}", base)
            return None
        return mf if check_mf(mf, n, N, kind, nbins_max, spacing, x, base, loc, scl) else None

    # ---------------- data lengths ------------------------------------------------------------------------------------
    if quick:
        ns = [1, 2, 3] + list(range(4, 73)) + [75, 81, 97, 100, 125, 127, 128, 135, 200, 243, 250, 256]
    else:
        ns = [1, 2, 3] + list(range(4, 261)) + [270, 375, 405, 499, 500, 512, 625, 675, 729, 1000, 1021, 1024, 1125, 2000, 2048]
    for n in ns:
        N = int(kernels.nb_fft_good_size(n, True))
        cls = size_class(n, N)
        # a second (location, scale) estimator pair for every fifth length (estimators want >= 8 samples), never the default pair
        est2 = None
        if n >= 10 and n % 5 == 0:
            est2 = (LOCS[rng.randrange(len(LOCS))], SCALES[rng.randrange(len(SCALES))])
            if est2 == ("median", "iqr"):
                est2 = ("mean", "iqr")
        for kind in ("boxcar", "gaussian", "lorentzian"):
            # largest width whose template (2 * ceil(3.5 * sigma-or-gamma) + 1 samples) still fits in the data
            lim = n if kind == "boxcar" else max([w for w in range(1, n + 1) if tmpl_len(kind, w) <= n], default=0)
            if lim < 1:
                continue
            banks = [(min(32, lim), 1.5, "median", "iqr")]
            if n % 3 == 0 or not quick:
                banks.append((max(1, min(rng.randrange(1, 41), lim)), rng.choice([1.2, 2.0, 1.35]), "median", "iqr"))
            if est2 is not None:
                banks.append((min(32, lim), 1.5) + est2)
            if n >= 10 and n % 10 == 0 and kind == "boxcar":
                banks.append((min(32, lim), 1.5, "norm", "norm"))       # data declared already standardised: z = x
            for nbins_max, spacing, loc, scl in banks:
                if kind != "boxcar" and spacing <= 1:
                    continue
                default_est = (loc, scl) == ("median", "iqr")
                ekey = () if default_est else (loc, scl)
                sub = rng.randrange(2 ** 32)
                g = np.random.default_rng(sub)
                w = int(g.integers(1, max(2, min(nbins_max, n // 2) + 1)))
                pos = int(g.choice([0, 1, max(0, n - w), n - 1, int(g.integers(0, n))]))
                x = g.normal(0.0, 1.0, size=n)
                amp = float(g.uniform(4, 12))
                for j in range(w):
                    if kind == "boxcar":
                        if pos + j < n:
                            x[pos + j] += amp
                    else:
                        x[(pos + j - w // 2) % n] += amp * np.exp(-0.5 * ((j - w // 2) / max(w / 2.355, 0.5)) ** 2)
                x = x.astype(np.float32)
                R.case(("resp", n, kind, nbins_max, spacing, pos) + ekey, nontrivial=n >= 8,
                       regime=f"response/{kind}/{cls}" if default_est else f"response/estimators/{loc}-{scl}",
                       sample={"n": n, "good_size": N, "kind": kind, "nbins_max": nbins_max, "spacing": spacing, "pulse_at": pos, "width": w}
                       if n in (13, 50) and kind == "boxcar" and default_est else None)
                mf = check_run(n, N, kind, nbins_max, spacing, x, sub, "response", loc, scl)
                if mf is None or n < 8 or "norm" in (loc, scl):
                    continue
                if scl == "doublemad":
                    continue        # per-sample scale that jumps at the median: not continuous in the data, no float32 invariance bound (R.assume)
                # ---- invariance under x -> a x + b
                z = mf.zscores.data.astype(np.float64)
                s0 = float(np.asarray(mf.zscores.scale).min())          # one value, except doublemad (lower / upper scale per sample)
                flat = np.sort(mf.convs.ravel())
                gap = float(flat[-1] - flat[-2]) if flat.size > 1 else np.inf
                unit = EPS * (np.log2(n) + 1) * float(np.linalg.norm(z))
                trans = [(float(g.choice([0.25, 3.0, 37.5])), 0.0), (1.0, float(g.choice([7.5, -300.0, 1000.0]))),
                         (float(g.choice([1e-3, 1e3])), float(g.choice([-2.0, 40.0])))]
                if kind == "boxcar":
                    trans.append((float(g.choice([1e-9, 1e-12, 1e12])), 0.0))      # far from unit scale, well inside float32 range
                for a, b in trans:
                    x2 = (np.float32(a) * x + np.float32(b)).astype(np.float32)
                    key = "invariance-" + ("scale-factor-below-1e-8" if a < 1e-8 else "scale" if b == 0 else "offset" if a == 1 else "affine")
                    R.case(("inv", n, kind, nbins_max, a, b) + ekey, nontrivial=True, regime=key.replace("invariance-", "invariance/"))
                    c = {"check": "invariance", "n": n, "good_size": N, "temp_kind": kind, "nbins_max": nbins_max, "spacing_factor": spacing,
                         "numpy_subseed": sub, "a": a, "b": b, "data": small(x)}
                    c.update(est_kw(loc, scl))
                    try:
                        mf2 = MatchedFilter(x2, temp_kind=kind, nbins_max=nbins_max, spacing_factor=spacing, **est_kw(loc, scl))
                    except Exception as e:  # noqa: BLE001
                        R.fail(key + "-raises", f"MatchedFilter(a x + b) raised {type(e).__name__}", c)
                        continue
                    s2 = float(np.asarray(mf2.zscores.scale).min())
                    tol = 4 * EPS * np.sqrt(n) * (float(np.abs(x2).max()) / s2 + float(np.abs(x).max()) / s0) + 2 * TOL * unit
                    # the scale estimate itself moves with the float32 rounding of a x + b: by at most K eps32 max|x| for an estimator that is
                    # K-Lipschitz in the largest sample perturbation (iqr 1.5, mad 3, biweight measured 1.6: allowed 4), which scales every
                    # response by that relative amount.  Used for the new comparisons; the original S/N comparison of the default pair keeps tol
                    tol_s = tol + 4 * EPS * (float(np.abs(x2).max()) / s2 + float(np.abs(x).max()) / s0) * max(float(np.abs(mf.convs).max()), float(np.abs(mf2.convs).max()))
                    if not default_est:
                        tol = tol_s
                    d = abs(float(mf2.snr) - float(mf.snr))
                    note("invariance", d / tol, n)
                    if not d <= tol:
                        R.fail(key, "snr changes under x -> a x + b, a > 0", dict(c, snr=float(mf.snr), snr_transformed=float(mf2.snr), tolerance=tol))
                    elif gap > 2 * tol and (mf2.peak_bin != mf.peak_bin or mf2.best_temp.width != mf.best_temp.width):
                        R.fail(key, "peak bin / best template change under x -> a x + b, a > 0 (maximum well separated)",
                               dict(c, peak=[mf.peak_bin, mf2.peak_bin], width=[float(mf.best_temp.width), float(mf2.best_temp.width)]))
                    # the transformed run is a MatchedFilter run like any other: the whole of check_mf on the data a x + b ...
                    c2 = dict(c, check="response of the transformed data float32(a) * data + float32(b)")
                    if not check_mf(mf2, n, N, kind, nbins_max, spacing, x2, c2, loc, scl):
                        continue
                    # ... and every response, not only the largest, is unchanged (same bound: it is a bound on each inner product)
                    dr = np.abs(mf2.convs.astype(np.float64) - mf.convs.astype(np.float64))
                    note("invariance-rows", float(dr.max()) / tol_s, n)
                    if not float(dr.max()) <= tol_s:
                        i, t = np.unravel_index(int(np.argmax(dr)), dr.shape)
                        R.fail(key, "a response value changes under x -> a x + b, a > 0",
                               dict(c, template=int(i), bin=int(t), response=float(mf.convs[i, t]), response_transformed=float(mf2.convs[i, t]), tolerance=tol_s))
        # ---- noiseless boxcar of a bank width: recovered at its start bin with that width
        # families: (nbins_max, spacing_factor, location, scale, offset).  The first is the original one; further bank families
        # (every width; fine and coarse ladders up to the data length) with an offset for short data and every seventh length, and the
        # drawn estimator pair.  A noiseless pulse has scale estimate 0 for most estimators (unit-scale fallback): recovery is about the
        # location of the maximum, which does not depend on the scale
        fams = [(min(32, n), 1.5, "median", "iqr", 0.0)]
        if n <= 40 or n % 7 == 0:
            for nbm_, sp_ in ((n if n <= 100 else 64, 1.0), (min(n, 40), 1.2), (n, 2.0)):     # (n, 1.0): every width below n
                fams.append((nbm_, sp_, "median", "iqr", float(rng.choice([-300.0, 1000.0]))))
        if est2 is not None:
            fams.append((min(32, n), 1.5) + est2 + (float(rng.choice([0.0, 40.0])),))
        for ifam, (nbm, spf, loc, scl, off) in enumerate(fams):
            widths = [int(v) for v in MatchedFilter.get_box_width_spacing(nbm, spf)]
            if [float(v) for v in widths] != [float(v) for v in width_ladder("boxcar", nbm, spf)]:
                R.fail("bank-width-ladder", "get_box_width_spacing is not the ladder 1, max(w + 1, floor(s w)), ... <= size_max",
                       {"check": "boxcar recovery", "nbins_max": nbm, "spacing_factor": spf, "widths": widths})
            for w in widths:
                if w >= n:
                    continue
                if ifam == 0:
                    ps = sorted({0, 1, n - w, n - w - 1, rng.randrange(0, n - w + 1)} if (quick and n > 40) else {0, 1, 2, n - w, n - w - 1, (n - w) // 2, rng.randrange(0, n - w + 1)})
                else:
                    ps = sorted({0, n - w, rng.randrange(0, n - w + 1)} if quick else {0, 1, n - w, n - w - 1, rng.randrange(0, n - w + 1)})
                for p in ps:
                    if p < 0 or p + w > n:
                        continue
                    x = np.zeros(n, dtype=np.float32)
                    amp = float(rng.choice([1.0, 5.0, 250.0]))
                    x[p:p + w] = amp
                    if off:
                        x += np.float32(off)                 # amplitude + offset are small integers: exact in float32
                    if ifam == 0:
                        R.case(("boxrec", n, w, p), nontrivial=n >= 8, regime=f"boxcar-recovery/{cls}")
                        c = {"check": "boxcar recovery", "n": n, "good_size": N, "width": w, "start_bin": p, "amplitude": amp, "nbins_max": nbm, "spacing_factor": 1.5,
                             "reproduce": "x = zeros(n, float32); x[start_bin:start_bin+width] = amplitude; MatchedFilter(x, temp_kind='boxcar', nbins_max=nbins_max)"}
                    else:
                        R.case(("boxrec", n, w, p, nbm, spf, loc, scl, off), nontrivial=n >= 8,
                               regime="boxcar-recovery/bank-families" if (loc, scl) == ("median", "iqr") else f"boxcar-recovery/estimators/{loc}-{scl}")
                        c = {"check": "boxcar recovery", "n": n, "good_size": N, "width": w, "start_bin": p, "amplitude": amp, "offset": off, "nbins_max": nbm,
                             "spacing_factor": spf, "reproduce": "x = zeros(n, float32); x[start_bin:start_bin+width] = amplitude; x += offset; "
                             "MatchedFilter(x, temp_kind='boxcar', nbins_max=nbins_max, spacing_factor=spacing_factor [, loc_method=, scale_method=])"}
                        c.update(est_kw(loc, scl))
                    try:
                        mf = MatchedFilter(x, temp_kind="boxcar", nbins_max=nbm, spacing_factor=spf, **est_kw(loc, scl))
                    except Exception as e:  # noqa: BLE001
                        R.fail(f"boxcar-recovery-raises-{cls}", f"MatchedFilter raised {type(e).__name__}: {str(e)[:100]}", c)
                        continue
                    if mf.peak_bin != p or int(mf.best_temp.width) != w or tuple(mf.on_pulse) != (p, p + w):
                        R.fail(f"boxcar-recovery-{cls}", "noiseless boxcar of a bank width is not recovered at its start bin with that width",
                               dict(c, peak_bin=mf.peak_bin, best_width=float(mf.best_temp.width), on_pulse=[int(v) for v in mf.on_pulse], snr=float(mf.snr)))
    # ---------------- the public kernel on general banks --------------------------------------------------------------
    # "For every template in the bank": the response of a template is a function of the data and of that template only.
    # MatchedFilter only ever builds banks of non-decreasing template length; kernels.convolve_templates (the mechanism the
    # property names) takes any bank: ascending, descending, shuffled, with repeated templates, a single template.  Every row must
    # be the float64 direct inner product for ITS template (TOL units), hence also the row that template gets when it is alone
    # in the bank (2 TOL units).
    def free_templates(g, n, m):
        """m templates of pairwise different lengths <= n with their reference bins: generated shapes and free-form ones"""
        lens = sorted({int(v) for v in g.integers(1, min(n, 48) + 1, size=3 * m)} | ({n, max(1, n - 1)} if g.random() < 0.3 else set()))
        lens = [int(v) for v in g.permutation(lens)[:m]]
        out = []
        for L in sorted(lens):
            k = int(g.integers(0, 3))
            if k == 0:
                d, ref = Template.gen_boxcar(L).data, 0
            elif k == 1 and L >= 3:
                ref = int(g.integers(0, L))
                xs = np.arange(L) - ref
                d = np.exp(-0.5 * (xs / max(L / 6.0, 0.5)) ** 2) if g.random() < 0.5 else 1.0 / (1.0 + (xs / max(L / 7.0, 0.5)) ** 2)
            else:
                ref = int(g.integers(0, L))
                d = g.uniform(-1.0, 1.0, size=L)
                d[int(g.integers(0, L))] += 2.0          # never constant
            out.append((np.ascontiguousarray(d, dtype=np.float32), int(ref)))
        return out

    def kernel_rows(z, temps):
        return kernels.convolve_templates(z, typed.List([d for d, _ in temps]), typed.List([r for _, r in temps]))

    kb_ns = ([8, 12, 13, 16, 25, 27, 31, 32, 45, 64, 81, 96, 97, 100, 128] if quick
             else list(range(6, 70)) + [75, 81, 96, 97, 100, 125, 127, 128, 135, 200, 243, 256, 257])
    for n in kb_ns:
        N = int(kernels.nb_fft_good_size(n, True))
        cls = size_class(n, N)
        for rep in range(2 if quick else 3):
            sub = rng.randrange(2 ** 32)
            g = np.random.default_rng(sub)
            z = g.normal(0.0, 1.0, size=n)
            p0, w0 = int(g.integers(0, n)), int(g.integers(1, max(2, n // 4)))
            z[(p0 + np.arange(w0)) % n] += float(g.uniform(3, 9))
            z = z.astype(np.float32)
            asc = free_templates(g, n, int(g.integers(3, 7)))
            m = len(asc)
            unit = EPS * (np.log2(n) + 1) * max(float(np.linalg.norm(z.astype(np.float64))), 1e-30)
            exp1 = direct_responses(z, asc)                     # row j: template asc[j], from the definition
            base = {"check": "kernel on a general bank", "n": n, "good_size": N, "numpy_subseed": sub, "data": small(z),
                    "templates_ascending": [{"length": len(d), "ref_bin": r, "samples": small(d)} for d, r in asc],
                    "reproduce": "kernels.convolve_templates(data, typed.List(templates in the given order), typed.List(ref bins)); "
                                 "generator: free_templates in tools/harness/props/c13.py"}
            alone = []
            ok = True
            for j in range(m):
                R.case(("kbank", n, "single", sub, j), nontrivial=False, regime="kernel-bank/single")
                try:
                    c1 = kernel_rows(z, [asc[j]])
                except Exception as e:  # noqa: BLE001
                    R.fail(f"kernel-bank-raises-{cls}", f"convolve_templates raised {type(e).__name__}: {str(e)[:100]}", dict(base, order=[j]))
                    ok = False
                    break
                alone.append(c1[0].astype(np.float64))
                u = float(np.abs(alone[j] - exp1[j]).max() / unit)
                note("kernel-bank", u if np.isfinite(u) else 1e30, n)
                if c1.shape != (1, n) or not u <= TOL:
                    R.fail(f"kernel-bank-single-{cls}", "the response of a single-template bank differs from the inner product of the data with "
                           "the normalised template", dict(base, order=[j], error_units=u))
            if not ok:
                continue
            perm = [int(v) for v in g.permutation(m)]
            if perm == sorted(perm) or perm == sorted(perm, reverse=True):
                perm = perm[1:] + perm[:1]
            lo, hi = 0, m - 1
            orders = {"ascending": list(range(m)), "descending": list(range(m - 1, -1, -1)), "shuffled": perm,
                      "repeated": [hi, lo, hi, lo, lo, int(g.integers(0, m)), hi]}
            for oname, order in orders.items():
                R.case(("kbank", n, oname, sub), nontrivial=n >= 8, regime=f"kernel-bank/{oname}",
                       sample={"n": n, "order": order, "lengths": [len(asc[j][0]) for j in order]} if n in (13, 64) and rep == 0 else None)
                try:
                    c = kernel_rows(z, [asc[j] for j in order])
                except Exception as e:  # noqa: BLE001
                    R.fail(f"kernel-bank-raises-{cls}", f"convolve_templates raised {type(e).__name__}: {str(e)[:100]}", dict(base, order=order))
                    continue
                if c.shape != (len(order), n):
                    R.fail("kernel-bank-shape", "the response is not (ntemps, nbins)", dict(base, order=order, shape=list(c.shape)))
                    continue
                for i, j in enumerate(order):
                    row = c[i].astype(np.float64)
                    u = float(np.abs(row - exp1[j]).max() / unit)
                    ua = float(np.abs(row - alone[j]).max() / unit)
                    note("kernel-bank", u if np.isfinite(u) else 1e30, n)
                    if not u <= TOL or not ua <= 2 * TOL:
                        t = int(np.argmax(np.abs(row - exp1[j])))
                        R.fail(f"kernel-bank-{oname}-{cls}", "a row of convolve_templates is not the inner product of the data with ITS normalised "
                               "template: it differs from the float64 direct sum and from the response of the same template alone in the bank "
                               "(the response depends on the other templates of the bank / their order)",
                               dict(base, order=order, row=i, template=j, template_length=len(asc[j][0]),
                                    preceded_by_lengths=[len(asc[q][0]) for q in order[:i]], bin=t, got=float(row[t]),
                                    expected=float(exp1[j][t]), alone=float(alone[j][t]), error_units=u, error_vs_alone_units=ua))
                        break

    R.extra_cov["worst_error_units"] = {k: {"units": v[0], "at_n": v[1]} for k, v in worst.items()}
    R.extra_cov["tolerance_units"] = TOL

    # ---------------- correspondence ------------------------------------------------------------------------------------
    R.need(["Model/C13_mf.vo", "Gen/MatchedFilter.vo"])
    GS_MAX = 64
    tab = [0] + [int(kernels.nb_fft_good_size(n, True)) for n in range(1, GS_MAX + 1)]
    zero_sum = [[1, -1], [2, -1, -1], [1, 0, -1], [3, -1, -1, -1], [-1, 2, -1], [1, 1, -2, 0], [1, -2, 1, 0, 0]]
    cases = []     # (data, bank, refs, raised, rows)
    for n in list(range(2, 21)) + [24, 25, 27, 30]:
        for _ in range(2):
            N = tab[n]
            data = [rng.randrange(-3, 4) for _ in range(n)]
            bank = [t for t in (rng.sample(zero_sum, 3)) if len(t) <= n]
            if n * N <= 150 and n >= 2:
                bank.append([n * N] * rng.randrange(1, min(n, 4)))
            if not bank:
                continue
            refs = [rng.randrange(0, len(t)) for t in bank]
            try:
                c = kernels.convolve_templates(np.array(data, dtype=np.float32), typed.List([np.array(t, dtype=np.float32) for t in bank]), typed.List(refs))
                raised = 0
            except Exception:  # noqa: BLE001
                c, raised = None, 1
            rows = []
            if c is not None:
                for i, t in enumerate(bank):
                    # un-normalise: the model's div_norm keeps x, the implementation divides by sqrt(sum (tp - mean)^2) over its padded length;
                    # zero-sum templates have mean 0 for every padded length; n*N-scaled templates: try both candidate lengths
                    tpn = np.zeros(n); tpn[:len(t)] = t
                    tpN = np.zeros(N); tpN[:len(t)] = t
                    cand = []
                    for tp in (tpn, tpN):
                        q = float(((tp - tp.mean()) ** 2).sum())
                        cand.append(np.asarray(c[i], dtype=np.float64) * np.sqrt(q))
                    rows.append([[int(v) for v in np.rint(cv)] for cv in cand])
            cases.append((data, bank, refs, raised, rows))
    # argmax / unravel on integer matrices with ties
    am = []
    for _ in range(60):
        nr, nc = rng.randrange(1, 6), rng.randrange(1, 9)
        M = [[rng.randrange(-2, 3) for _ in range(nc)] for _ in range(nr)]
        A = np.array(M)
        i, t = np.unravel_index(int(A.argmax()), A.shape)
        am.append((M, nc, int(i), int(t), int(A.max())))

    def ll(xss):
        return "[" + "; ".join(vlib.zlist(x) for x in xss) + "]"
    lines = ["From Coq Require Import ZArith List Bool.",
             "Require Import SPP.Base.Rt SPP.Model.C12_np SPP.Model.C12_conv SPP.Model.C13_np SPP.Gen.Kernels SPP.Gen.MatchedFilter SPP.Model.C13_mf.",
             "Import ListNotations.", "Open Scope Z_scope.",
             f"Definition gs (n : Z) : Z := nth (Z.to_nat n) {vlib.zlist(tab)} n.",
             f"Definition POISON := {POISON}.",
             "(* time-domain instance; an inverse asked for a length other than the transform length is outside the assumed laws: poisoned *)",
             "Definition F : fft_ops := {| fft_spec := list Z; fft_good_size := gs; fft_rfft := td_rfft; fft_smul := td_smul; fft_slen := td_slen;",
             "  fft_irfft := fun s n => if n =? len s then s else repeat POISON (Z.to_nat n) |}.",
             "Definition nm : norm_ops := {| nrm_mean_of_sum := fun n s => s / n; nrm_div_norm := fun x _ => x |}.",
             "Definition cases : list (list Z * list (list Z) * list Z * Z * list (list (list Z))) := [",
             ";\n".join(f"({vlib.zlist(d)}, {ll(b)}, {vlib.zlist(r)}, {ra}, [" + "; ".join(ll(alt) for alt in rows) + "])" for d, b, r, ra, rows in cases),
             "].",
             """Definition poisoned (rows : list (list Z)) : bool := existsb (fun r => existsb (Z.eqb POISON) r) rows.
Definition badlen (nb : Z) (rows : list (list Z)) : bool := existsb (fun r => negb (len r =? nb)) rows.
Fixpoint rows_ok (rows : list (list Z)) (alts : list (list (list Z))) : bool :=
  match rows, alts with
  | [], [] => true
  | r :: rs, a :: al => existsb (list_eqb r) a && rows_ok rs al
  | _, _ => false end.
Definition verdict (c : list Z * list (list Z) * list Z * Z * list (list (list Z))) : Z :=   (* 0 ok, 1 undetermined, 2 mismatch *)
  let '(data, bank, refs, raised, alts) := c in
  let rows := convolve_templates_run F nm data bank refs in
  if raised =? 1 then (if badlen (len data) rows then 0 else 2)
  else if poisoned rows then 1
  else if badlen (len data) rows then 2
  else if rows_ok rows alts then 0 else 2.
Definition vs := map verdict cases.
Eval vm_compute in (length cases, map fst (filter (fun p => snd p =? 2) (combine (seq 0 (length cases)) vs)), length (filter (Z.eqb 1) vs)).""",
             "Definition am : list (list (list Z) * Z * Z * Z * Z) := [",
             ";\n".join(f"({ll(M)}, {nc}, {i}, {t}, {mx})" for M, nc, i, t, mx in am), "].",
             """Eval vm_compute in (map fst (filter (fun p => let '(M, nc, i, t, mx) := snd p in
   negb (let '(i', t', s') := mf_pick M nc in (i' =? i) && (t' =? t) && (s' =? mx))) (combine (seq 0 (length am)) am)))."""]
    rc, out = vlib.coq_run("c13_0", "\n".join(lines), timeout=600)
    vals = vlib.parse_eval(out)
    if rc != 0 or len(vals) < 2:
        R.red.append("correspondence: Corr/c13_0 did not evaluate: " + out[-500:])
    else:
        m = re.match(r"\((\d+)%nat, (.*), (\d+)%nat\)$", vals[0])
        if not m:
            R.red.append("correspondence: cannot parse " + vals[0][:200])
        else:
            bad = [int(v) for v in re.findall(r"(\d+)%nat", m.group(2))]
            for bi in bad[:6]:
                d, b, r, ra, rows = cases[bi]
                R.disagree("generated convolve_templates (time-domain FFT instance, integer normalisation) and the compiled kernel differ",
                           {"data": d, "bank": b, "ref_bins": r, "impl_raised": bool(ra), "impl_rows_unnormalised": [alt[0] for alt in rows]})
            R.extra_cov["traces_validated_against_impl"] = int(m.group(1)) - int(m.group(3))
            R.extra_cov["cases_outside_the_assumed_fft_laws"] = int(m.group(3))
        for v in re.findall(r"(\d+)%nat", vals[1])[:4]:
            M, nc, i, t, mx = am[int(v)]
            R.disagree("Model np_argmax / np_unravel_index differ from NumPy", {"matrix": M, "numpy": [i, t, mx]})
    R.extra_cov["correspondence_cases"] = len(cases) + len(am)

    # ---------------- correspondence of the regenerated width ladder and on-pulse extent (Gen/MatchedFilter.v) ---------------------
    # spacing factors sp / sq exactly representable in binary, so that the float product of the implementation is the exact rational
    lad = []
    for size_max in list(range(0, 41)) + [50, 64, 100, 256, 1000]:
        for sp, sq in ((3, 2), (1, 1), (5, 4), (2, 1), (7, 4), (9, 8), (3, 1), (1, 2)):
            try:
                got = [int(v) for v in MatchedFilter.get_box_width_spacing(size_max, sp / sq)]
            except Exception:  # noqa: BLE001
                got = [-1]
            lad.append((size_max, sp, sq, got))
    onp = []
    for _ in range(140):
        nb = rng.randrange(1, 80)
        pk = rng.randrange(0, nb)
        if rng.random() < 0.5:
            w = rng.randrange(1, 40)
            t, isstart, rw = Template.gen_boxcar(w), 1, w
        else:
            wf = rng.choice([0.4, 0.5, 1.0, 1.5, 2.5, 3.5, 2.49, 7.3, 12.0, 25.5])
            t = Template.gen_gaussian(wf) if rng.random() < 0.5 else Template.gen_lorentzian(wf)
            isstart, rw, w = 0, int(round(wf)), int(round(wf))
        try:
            a_, b_ = t.get_on_pulse(pk, nb)
            got = (int(a_), int(b_)) if (a_ == int(a_) and b_ == int(b_)) else (-7, -7)
        except Exception:  # noqa: BLE001
            got = (-9, -9)
        onp.append((isstart, w, rw, pk, nb, got[0], got[1]))
    blines = ["From Coq Require Import ZArith List Bool.",
              "Require Import SPP.Base.Rt SPP.Model.C12_np SPP.Model.C13_np SPP.Gen.Kernels SPP.Gen.MatchedFilter.",
              "Import ListNotations.", "Open Scope Z_scope.",
              "Definition lad : list (Z * Z * Z * list Z) := [",
              ";\n".join(f"({a_}, {b_}, {c_}, {vlib.zlist(g_)})" for a_, b_, c_, g_ in lad), "].",
              "Eval vm_compute in (map fst (filter (fun p => let '(sm, sp, sq, g) := snd p in negb (list_eqb (box_width_spacing_run sm sp sq) g)) "
              "(combine (seq 0 (length lad)) lad))).",
              "Definition onp : list (Z * Z * Z * Z * Z * Z * Z) := [",
              ";\n".join("(" + ", ".join(str(v) if v >= 0 else f"({v})" for v in r_) + ")" for r_ in onp), "].",
              "Eval vm_compute in (map fst (filter (fun p => let '(st, w, rw, pk, nb, a, b) := snd p in "
              "negb (let '(s, e) := on_pulse_run (st =? 1) w rw pk nb in (s =? a) && (e =? b))) (combine (seq 0 (length onp)) onp)))."]
    rc, out = vlib.coq_run("c13_bank", "\n".join(blines), timeout=300)
    vals = vlib.parse_eval(out)
    if rc != 0 or len(vals) < 2:
        R.red.append("correspondence: Corr/c13_bank did not evaluate: " + out[-500:])
    else:
        for v in re.findall(r"(\d+)%nat", vals[0])[:4]:
            sm, sp, sq, g_ = lad[int(v)]
            R.disagree("generated get_box_width_spacing (box_width_spacing_run) and the implementation differ",
                       {"size_max": sm, "spacing_factor": f"{sp}/{sq}", "implementation": g_})
        for v in re.findall(r"(\d+)%nat", vals[1])[:4]:
            st, w, rw, pk, nb, a_, b_ = onp[int(v)]
            R.disagree("generated get_on_pulse (on_pulse_run) and the implementation differ",
                       {"ref": "start" if st else "peak", "width": w, "round_width": rw, "peak_bin": pk, "nbins": nb, "implementation": [a_, b_]})
    R.extra_cov["correspondence_cases"] = R.extra_cov.get("correspondence_cases", 0) + len(lad) + len(onp)

    # ---------------- which of the four source forms of Props/C13.v (C13_source_form) the regenerated kernel has -------------------
    # C13_response_formula_exact_length (every data length, odd ones included) has the hypothesis src_is nopad ilen_given; the other
    # three forms only have the even-length / padded statements.  Each form holds by reflexivity or not at all.
    forms = [("cpad/ilen_default", "(cpad F) (ilen_default F)"), ("cpad/ilen_given", "(cpad F) (ilen_given F)"),
             ("nopad/ilen_default", "nopad (ilen_default F)"), ("nopad/ilen_given", "nopad (ilen_given F)")]
    flines = ["From Coq Require Import ZArith List Bool.",
              "Require Import SPP.Base.Rt SPP.Model.C12_np SPP.Model.C12_conv SPP.Model.C13_np SPP.Gen.Kernels SPP.Gen.MatchedFilter SPP.Model.C13_mf SPP.Proofs.C13_mf.",
              "Open Scope Z_scope.", "Goal True."]
    for i, (_, args) in enumerate(forms):
        flines.append(f"  tryif (assert (forall (F : fft_ops) (Nm : norm_ops), src_is F Nm {args}) by (intros F Nm d b r; reflexivity)) "
                      f"then idtac \"C13FORM {i} yes\" else idtac \"C13FORM {i} no\".")
    flines += ["  exact I.", "Qed."]
    rc, out = vlib.coq_run("c13_form", "\n".join(flines), timeout=300)
    got = dict((int(i), v == "yes") for i, v in re.findall(r"C13FORM (\d) (yes|no)", out))
    if rc != 0 or len(got) != len(forms):
        R.red.append("source form: Corr/c13_form did not evaluate: " + out[-400:])
    else:
        held = [forms[i][0] for i in sorted(got) if got[i]]
        R.extra_cov["source_form"] = held
        if "nopad/ilen_given" not in held:
            R.red.append("source form: the regenerated convolve_templates is of the form " + (", ".join(held) or "(none of the four)") +
                         ", not nopad/ilen_given: the hypothesis of C13_response_formula_exact_length does not hold for the current source, so the "
                         "response formula is not established for odd data lengths (only C13_response_formula_partial applies)")
    return R


# ======================================================================================================================
# at-scale search
# ======================================================================================================================
def scale_data(seed, n, pulses, noise=True):
    """generator of the at-scale inputs (replay: the case dict carries seed, n, pulses, noise):
    float32 N(0,1) noise from numpy.random.default_rng(seed).standard_normal(n, dtype=float32) (zeros when noise is False)
    plus, for every (start, width, height) in pulses, `height` added to the bins start .. start+width-1 (circular)"""
    g = np.random.default_rng(seed)
    x = g.standard_normal(n, dtype=np.float32) if noise else np.zeros(n, dtype=np.float32)
    for p, w, a in pulses:
        x[(p + np.arange(w)) % n] += np.float32(a)
    return x


def scale_template(seed, L):
    """free-form template of L samples for the at-scale kernel cases: a decaying oscillation with float32 noise, never constant"""
    g = np.random.default_rng(seed)
    k = np.arange(L, dtype=np.float64)
    d = np.cos(k * (2 * np.pi / 37.0)) * np.exp(-k / max(L / 3.0, 1.0)) + 0.25 * g.standard_normal(L)
    d[0] += 2.0
    return d.astype(np.float32)


class ScaleRef:
    """float64 reference rows  r[t] = sum_k z[(t + k - ref) mod n] * tnorm[k]  without the n x n index matrix of direct_responses:
    constant templates (boxcars) by window sums of a float64 cumulative sum, others by a float64 FFT correlation; `spot` evaluates
    the defining sum itself at chosen bins."""

    def __init__(self, z):
        self.z = np.asarray(z, dtype=np.float64)
        self.n = len(self.z)
        self.sumz = float(self.z.sum())
        self.norm = float(np.sqrt((self.z ** 2).sum()))
        self._fz = None

    def stats(self, d):
        d = np.asarray(d, dtype=np.float32).astype(np.float64)
        mean = float(d.sum()) / self.n
        q = float(((d - mean) ** 2).sum()) + (self.n - len(d)) * mean * mean
        return d, mean, (np.sqrt(q) if q > 0 else 0.0)

    def row(self, d, ref):
        n = self.n
        d, mean, nrm = self.stats(d)
        L = len(d)
        if L <= n and np.all(d == d[0]):
            c = np.empty(n + L + 1)
            c[0] = 0.0
            np.cumsum(self.z, out=c[1:n + 1])
            if L:
                np.cumsum(self.z[:L], out=c[n + 1:])
                c[n + 1:] += c[n]
            w = (c[L:L + n] - c[:n]) * d[0]
            del c
        else:
            if self._fz is None:
                self._fz = np.fft.rfft(self.z)
            tp = np.zeros(n)
            tp[:L] = d
            w = np.fft.irfft(self._fz * np.conj(np.fft.rfft(tp)), n)
            del tp
        w -= mean * self.sumz
        if nrm != 0:
            w /= nrm
        return np.roll(w, ref) if ref % n else w

    def spot(self, d, ref, bins):
        d, mean, nrm = self.stats(d)
        k = np.arange(len(d))
        out = []
        for t in bins:
            v = float((self.z[(int(t) + k - ref) % self.n] * d).sum()) - mean * self.sumz     # (no BLAS: its threads crawl on a loaded machine)
            out.append(v / nrm if nrm != 0 else v)
        return np.array(out)


def scale(R: vlib.Run):
    """at-scale search: data lengths just below / at / above 2**16, 2**18, 2**20, 2**22 and above 2**24 (FFT-good and not), pulses and
    peak bins beyond 65536 / 2**24, flat arg-max indices beyond 2**24, banks of hundreds of templates, templates and reference bins
    longer than 65536 samples, offsets / factors at scale, noiseless boxcars far from the origin.  Same definitions and the same
    tolerance (TOL units of eps32 * (log2 n + 1) * ||z||) as the small-scope oracle of run(); the float64 rows come from ScaleRef."""
    import gc
    import time

    from numba import typed
    from sigpyproc.core import kernels
    from sigpyproc.core.filters import MatchedFilter

    seed0 = R.seed + 1313
    GEN = "tools/harness/props/c13.py: x = scale_data(seed, n, pulses, noise)"
    worst = {}
    t_start = time.time()

    def note(key, u, n):
        if u > worst.get(key, (0.0, 0))[0]:
            worst[key] = (round(float(u), 4), int(n))

    def spot_bins(n, extra=()):
        g = np.random.default_rng(seed0 + n)
        b = {0, 1, 2, n - 1, n - 2, n // 2, 65535 % n, 65536 % n, 65537 % n, (2 ** 24 - 1) % n, 2 ** 24 % n, (2 ** 24 + 1) % n}
        b |= {int(v) % n for v in extra} | {int(v) for v in g.integers(0, n, size=24)}
        return sorted(b)

    def compare_rows(key, convs, z, temps, case, extra_bins=()):
        """every row of convs against the float64 reference; returns (unit, reference maximum) or None"""
        n = len(z)
        ref = ScaleRef(z)
        unit = EPS * (np.log2(n) + 1) * max(ref.norm, 1e-30)
        best = -np.inf
        for i, (d, rb) in enumerate(temps):
            exp = ref.row(d, rb)
            best = max(best, float(exp.max()))
            got = convs[i].astype(np.float64)
            np.subtract(got, exp, out=got)
            np.abs(got, out=got)
            t = int(np.argmax(got))
            u = float(got[t] / unit)
            note(key, u if np.isfinite(u) else 1e30, n)
            if not u <= TOL:
                R.fail(f"scale-{key}", "at scale a response value differs from the inner product of the standardised data with the normalised "
                       "template placed at that bin (float64 reference: window sums / FFT correlation)",
                       dict(case, template=i, template_length=len(d), ref_bin=int(rb), bin=t, got=float(convs[i, t]), expected=float(exp[t]), error_units=u))
                return None
            if not np.all(np.asarray(d) == np.asarray(d).flat[0]):
                bins = spot_bins(n, extra_bins)
                sp = ref.spot(d, rb, bins)
                if float(np.abs(sp - exp[bins]).max()) > 1e-6 * unit + 1e-9:
                    raise RuntimeError("C13 scale(): the two float64 references (defining sum, FFT correlation) disagree")
                us = float(np.abs(convs[i][bins].astype(np.float64) - sp).max() / unit)
                if not us <= TOL:
                    R.fail(f"scale-{key}", "at scale a response value differs from the defining inner-product sum evaluated at that bin",
                           dict(case, template=i, template_length=len(d), ref_bin=int(rb), error_units=us))
                    return None
            del exp, got
        return unit, best

    def run_mf(key, x, kind, nbins_max, spacing, case, extra_bins=(), rows=True):
        """one MatchedFilter run at scale: shapes of the bank, every response row, S/N and its location"""
        n = len(x)
        R.tick(case)
        try:
            mf = MatchedFilter(x, temp_kind=kind, nbins_max=nbins_max, spacing_factor=spacing)
        except Exception as e:  # noqa: BLE001
            R.fail(f"scale-{key}-raises", f"MatchedFilter raised at scale: {type(e).__name__}: {str(e)[:100]}", case)
            return None
        temps = [(t.data, int(t.ref_bin)) for t in mf.temp_bank]
        c = mf.convs
        if c.shape != (len(temps), n) or mf.zscores.data.shape != (n,):
            R.fail(f"scale-{key}", "convs is not (ntemps, nbins) at scale", dict(case, shape=list(c.shape), ntemps=len(temps)))
            return None
        for tt in mf.temp_bank:
            if kind == "boxcar":
                okt = tt.ref_bin == 0 and tt.data.size == int(tt.width) and bool(np.all(tt.data == 1))
            else:
                okt = tt.ref_bin == int(np.argmax(tt.data)) and tt.data.size == 2 * tt.ref_bin + 1 and tt.data.size == tmpl_len(kind, tt.width)
            if not okt:
                R.fail("scale-template-shape", "a template of the bank does not have its width / its reference bin at the start (boxcar) or peak",
                       dict(case, width=float(tt.width), size=int(tt.data.size), ref_bin=int(tt.ref_bin)))
                return None
        if rows:
            res = compare_rows(key, c, mf.zscores.data, temps, case, extra_bins)
            if res is None:
                return None
            unit, best = res
            if abs(float(mf.snr) - best) > TOL * unit:
                R.fail(f"scale-{key}", "snr differs from the maximum of the float64 inner products at scale", dict(case, snr=float(mf.snr), expected=best))
        # the maximum and its first location, row by row (no flat index involved)
        rmax = [float(c[i].max()) for i in range(len(temps))]
        it = int(np.argmax(rmax))
        pk = int(np.argmax(c[it]))
        if not (float(mf.snr) == rmax[it] and int(mf._itemp) == it and mf.peak_bin == pk and mf.best_temp is mf.temp_bank[it]):
            R.fail(f"scale-{key}-argmax", "snr / peak_bin / best_temp are not the maximum of convs and its first location at scale",
                   dict(case, snr=float(mf.snr), max=rmax[it], reported=[int(mf._itemp), mf.peak_bin], argmax=[it, pk], flat_index=it * n + pk))
        return mf

    def good_above(n):
        return int(kernels.nb_fft_good_size(n, True))

    # ---- 1. data lengths around the powers of two, pulse and peak beyond bin 65536; flat arg-max index beyond 2**24 ----------------------
    lengths = [(65535, 32), (65536, 32), (65537, 32), (2 ** 18 - 1, 32), (2 ** 18, 32), (2 ** 18 + 1, 32), (2 ** 20 - 1, 32), (2 ** 20, 32),
               (2 ** 20 + 1, 13), (good_above(2 ** 20 + 1), 32), (2 ** 22 - 1, 4), (2 ** 22, 32), (good_above(2 ** 22 + 1), 9)]
    for j, (n, nbm) in enumerate(lengths):
        w = [4, 13, 2, 9][j % 4] if nbm >= 13 else 3
        # pulse wrapping the end of the series / straddling bin 65536 / just before the end
        p = n - w // 2 - 1 if j % 3 == 0 else (65536 - 1 if n > 70000 and j % 3 == 1 else n - 2 * w - (j % 5))
        amp = 9.0
        case = {"regime": "length", "n": n, "good_size": good_above(n), "temp_kind": "boxcar", "nbins_max": nbm, "spacing_factor": 1.5,
                "seed": seed0 + j, "pulses": [[p, w, amp]], "noise": True, "generator": GEN}
        R.case(("scale", "length", n, nbm), regime="scale")
        x = scale_data(seed0 + j, n, [(p, w, amp)])
        run_mf("response", x, "boxcar", nbm, 1.5, case, extra_bins=(p, p + w))
        del x
        gc.collect()

    # ---- 2. above 2**24 samples: peak bin and flat index not representable in float32 ---------------------------------------------------
    n = good_above(2 ** 24 + 1)
    p, w, amp = 2 ** 24 + 1, 2, 30.0
    case = {"regime": "above-2**24", "n": n, "good_size": n, "temp_kind": "boxcar", "nbins_max": 2, "spacing_factor": 1.5,
            "seed": seed0 + 50, "pulses": [[p, w, amp]], "noise": True, "generator": GEN}
    R.case(("scale", "above-2**24", n), regime="scale")
    x = scale_data(seed0 + 50, n, [(p, w, amp)])
    mf = run_mf("response", x, "boxcar", 2, 1.5, case)
    if mf is not None and (mf.peak_bin != p or int(mf.best_temp.width) != w or tuple(mf.on_pulse) != (p, p + w)):
        # 30-sigma pulse: the width-2 response at its start is 30 * sqrt(2) ~ 42, every other response is below 31 + noise
        R.fail("scale-peak-above-2**24", "a 30-sigma boxcar starting above bin 2**24 is not reported at its start bin with its width",
               dict(case, peak_bin=mf.peak_bin, best_width=float(mf.best_temp.width), on_pulse=[int(v) for v in mf.on_pulse]))
    del x, mf
    gc.collect()

    # ---- 3. wide banks: templates and reference bins beyond 65536 samples; hundreds of templates -----------------------------------------
    wide = [("boxcar", 2 ** 20, 100000, 1.5), ("gaussian", 2 ** 19, 25000, 1.6), ("lorentzian", 2 ** 19, 40000, 1.7),
            ("boxcar", 2 ** 17 + 2 ** 14, 400, 1.01), ("gaussian", 2 ** 17, 300, 1.02)]
    for j, (kind, n, nbm, sp) in enumerate(wide):
        # modest S/N (about 9): the float32 mean / norm of a template of a 2**19-sample series is good to ~2e-4 relative (measured),
        # an error proportional to the response itself; the tolerance is absolute
        p, w, amp = (n - 70000, 300, 0.5) if sp > 1.4 else (n - 70000, 40, 1.5)
        case = {"regime": "wide-bank" if sp > 1.4 else "many-templates", "n": n, "good_size": good_above(n), "temp_kind": kind, "nbins_max": nbm,
                "spacing_factor": sp, "seed": seed0 + 100 + j, "pulses": [[p, w, amp]], "noise": True, "generator": GEN}
        R.case(("scale", "bank", kind, n, nbm, sp), regime="scale")
        x = scale_data(seed0 + 100 + j, n, [(p, w, amp)])
        mf = run_mf("response-wide-bank" if sp > 1.4 else "response-many-templates", x, kind, nbm, sp, case, extra_bins=(p, p + w))
        if mf is not None:
            R.extra_cov.setdefault("scale_banks", []).append({"kind": kind, "n": n, "templates": len(mf.temp_bank),
                                                              "longest_template": int(max(t.data.size for t in mf.temp_bank))})
        del x, mf
        gc.collect()

    # ---- 4. the public kernel at scale: general order, long templates, large reference bins, hundreds of templates ----------------------
    def run_kernel(key, z, temps, case):
        R.tick(case)
        try:
            c = kernels.convolve_templates(z, typed.List([d for d, _ in temps]), typed.List([int(r) for _, r in temps]))
        except Exception as e:  # noqa: BLE001
            R.fail(f"scale-{key}-raises", f"convolve_templates raised at scale: {type(e).__name__}: {str(e)[:100]}", case)
            return
        if c.shape != (len(temps), len(z)):
            R.fail(f"scale-{key}", "the response is not (ntemps, nbins) at scale", dict(case, shape=list(c.shape)))
            return
        compare_rows(key, c, z, temps, case)

    n = 2 ** 18
    spec = [(n, 65536), (3, 1), (n - 1, n - 2), (2 ** 17 + 1, 2 ** 17), (65537, 65536), (5, 0), (65536, 65535), (65535, 0), (70001, 70000), (2, 1)]
    case = {"regime": "kernel-long-templates", "n": n, "seed": seed0 + 200, "pulses": [[n - 5, 9, 6.0]], "noise": True, "generator": GEN,
            "templates": "scale_template(seed + 1 + i, length) for (length, ref_bin) in " + str(spec)}
    R.case(("scale", "kernel-long", n), regime="scale")
    z = scale_data(seed0 + 200, n, [(n - 5, 9, 6.0)])
    run_kernel("kernel-long-templates", z, [(scale_template(seed0 + 201 + i, L), rb) for i, (L, rb) in enumerate(spec)], case)
    del z
    gc.collect()

    n = 70000
    g = np.random.default_rng(seed0 + 300)
    order = [int(v) for v in g.permutation(320)]
    case = {"regime": "kernel-many-templates", "n": n, "seed": seed0 + 300, "pulses": [[65530, 12, 5.0]], "noise": True, "generator": GEN,
            "templates": "i-th template (i over numpy.random.default_rng(seed).permutation(320)): boxcar of 1 + i samples with reference bin i // 2 "
                         "when i is even, scale_template(seed + i, 3 + 7 * i) with reference bin 5 * i when i is odd"}
    R.case(("scale", "kernel-many", n), regime="scale")
    z = scale_data(seed0 + 300, n, [(65530, 12, 5.0)])
    temps = [(np.ones(1 + i, dtype=np.float32), i // 2) if i % 2 == 0 else (scale_template(seed0 + 300 + i, 3 + 7 * i), 5 * i) for i in order]
    run_kernel("kernel-many-templates", z, temps, case)
    del z, temps
    gc.collect()

    # ---- 5. offsets and positive factors at scale ----------------------------------------------------------------------------------------
    n = 2 ** 20
    pulses = [(2 ** 20 - 7, 13, 6.0)]
    case0 = {"regime": "invariance", "n": n, "temp_kind": "boxcar", "nbins_max": 32, "spacing_factor": 1.5, "seed": seed0 + 400,
             "pulses": [list(v) for v in pulses], "noise": True, "generator": GEN + "; transformed data: float32(a) * x + float32(b)"}
    x = scale_data(seed0 + 400, n, pulses)
    R.case(("scale", "invariance", n, 1.0, 0.0), regime="scale")
    mf = run_mf("response", x, "boxcar", 32, 1.5, case0, rows=False)
    if mf is not None:
        zn = float(np.sqrt((mf.zscores.data.astype(np.float64) ** 2).sum()))
        s0 = float(np.asarray(mf.zscores.scale).ravel()[0])
        unit = EPS * (np.log2(n) + 1) * zn
        top = np.partition(mf.convs.ravel(), -2)[-2:]
        gap = float(top[1] - top[0])
        snr0, pk0, w0 = float(mf.snr), mf.peak_bin, float(mf.best_temp.width)
        del mf
        for a, b in ((3.0, 0.0), (1.0, 1000.0), (1e-3, 40.0), (1e12, 0.0), (1e-12, 0.0)):
            case = dict(case0, a=a, b=b)
            R.case(("scale", "invariance", n, a, b), regime="scale")
            x2 = (np.float32(a) * x + np.float32(b)).astype(np.float32)
            mf2 = run_mf("invariance", x2, "boxcar", 32, 1.5, case, rows=False)
            if mf2 is None:
                continue
            s2 = float(np.asarray(mf2.zscores.scale).ravel()[0])
            tol = 4 * EPS * np.sqrt(n) * (float(np.abs(x2).max()) / s2 + float(np.abs(x).max()) / s0) + 2 * TOL * unit
            dd = abs(float(mf2.snr) - snr0)
            note("invariance", dd / tol, n)
            if not dd <= tol:
                R.fail("scale-invariance", "snr changes under x -> a x + b, a > 0, at scale", dict(case, snr=snr0, snr_transformed=float(mf2.snr), tolerance=tol))
            elif gap > 2 * tol and (mf2.peak_bin != pk0 or float(mf2.best_temp.width) != w0):
                R.fail("scale-invariance", "peak bin / best template change under x -> a x + b, a > 0, at scale (maximum well separated)",
                       dict(case, peak=[pk0, mf2.peak_bin], width=[w0, float(mf2.best_temp.width)]))
            del x2, mf2
    del x
    gc.collect()

    # ---- 6. noiseless boxcars of a bank width far from the origin ------------------------------------------------------------------------
    rec = [(65537, 32, 9, 65536 - 9), (65537, 32, 28, 65537 - 28), (2 ** 18, 32, 1, 65536), (2 ** 18, 32, 13, 65535), (2 ** 20 - 1, 32, 4, 2 ** 20 - 5),
           (2 ** 20, 32, 19, 2 ** 20 - 19), (2 ** 20, 32, 2, 65535), (2 ** 20, 1000, None, 2 ** 20 - 1000), (2 ** 22, 32, 6, 2 ** 22 - 70000),
           (2 ** 22, 32, 28, 0)]
    for n, nbm, w, p in rec:
        widths = [int(v) for v in MatchedFilter.get_box_width_spacing(nbm, 1.5)]
        if w is None:
            w = next(v for v in widths if v > 500)       # wider boxcars: neighbouring bins differ by 1/w of the peak, inside float32 error
        amp = 5.0
        case = {"regime": "boxcar-recovery", "n": n, "good_size": good_above(n), "temp_kind": "boxcar", "nbins_max": nbm, "spacing_factor": 1.5,
                "pulses": [[p, w, amp]], "noise": False, "seed": 0, "generator": GEN}
        R.case(("scale", "boxcar-recovery", n, nbm, w, p), regime="scale")
        if w not in widths or p < 0 or p + w > n:
            raise RuntimeError("C13 scale(): recovery case outside the bank / the data")
        x = scale_data(0, n, [(p, w, amp)], noise=False)
        mf = run_mf("boxcar-recovery", x, "boxcar", nbm, 1.5, case, rows=False)
        if mf is not None and (mf.peak_bin != p or int(mf.best_temp.width) != w or tuple(mf.on_pulse) != (p, p + w)):
            R.fail("scale-boxcar-recovery", "a noiseless boxcar of a bank width far from the origin is not recovered at its start bin with that width",
                   dict(case, peak_bin=mf.peak_bin, best_width=float(mf.best_temp.width), on_pulse=[int(v) for v in mf.on_pulse], snr=float(mf.snr)))
        del x, mf
        gc.collect()

    R.extra_cov["scale_worst_error_units"] = {k: {"units": v[0], "at_n": v[1]} for k, v in worst.items()}
    R.extra_cov["scale_wall_seconds"] = round(time.time() - t_start, 1)
