"""C01 -- gulped reading delivers every requested sample exactly once, in order.
Proof: Props/C01.v over Gen/Plan.v (fil_plan regenerated from readers.py) composed with the Stream model (C02).
Correspondence: Model/Plan.v run_plan under vm_compute vs FilReader.read_plan (trace of block sizes, indices, values,
error kind and position).  Oracle: stitched blocks == x[start:start+nsamps] written to the files."""
import math
import os
import re
import shutil

import numpy as np

import filutil
import vlib

NCH = {1: 8, 2: 4, 4: 2, 8: 2, 16: 1, 32: 1}
_DEFAULT = object()   # "leave this read_plan argument out" (its default is used)


def draw(nprng, nbits, shape):
    """sample values over the whole range of the depth, in the dtype the file is written with: 1/2/4/8-bit fields, full 16-bit words,
    float32 with fractions, both signs, large magnitudes and a few specials (the reader must return them bit for bit)"""
    if nbits <= 8:
        return nprng.integers(0, 1 << nbits, shape)
    if nbits == 16:
        x = nprng.integers(0, 1 << 16, shape).astype(np.uint16)
        x.ravel()[::5] = nprng.choice(np.array([0, 1, 255, 256, 257, 0x00FF, 0xFF00, 0x7FFF, 0x8000, 0xFFFF], dtype=np.uint16), size=x.ravel()[::5].size)
        return x
    x = (nprng.standard_normal(shape) * 10.0 ** nprng.integers(-3, 7, shape)).astype(np.float32)
    sp = np.array([0.0, -0.0, 1.5, -2.25, 255.0, 256.0, 1e30, -1e30, np.inf, -np.inf, np.nan, 1e-40], dtype=np.float32)
    x.ravel()[::7] = nprng.choice(sp, size=x.ravel()[::7].size)
    return x


def same(got, want, nbits):
    """got holds exactly the values of want.  When got has the dtype of the depth the comparison is of the bytes (so NaN, -0.0 and the
    high byte of a 16-bit word count); otherwise it is by value"""
    got = np.ascontiguousarray(got); want = np.ascontiguousarray(want)
    if got.shape != want.shape:
        return False
    dt = np.dtype(filutil.dtype_for(nbits))
    if got.dtype == dt:
        return got.tobytes() == want.astype(dt).tobytes()
    return bool(np.array_equal(got.astype(np.float64), want.astype(np.float64), equal_nan=True))


def iterate(fil, gulp, start, nsamps, skipback, label=None):
    """trace of read_plan: ('ok'|'err-before'|'err-after', [(nsamps_r, ii, data copy)], exc name).
    An argument given as _DEFAULT is left out of the call (nsamps: read to the end of the set).  label: the progress-bar description;
    left out (None) read_plan derives it from inspect.stack(), which costs far more than the read itself"""
    blocks = []
    kw = {k: v for k, v in (("gulp", gulp), ("start", start), ("nsamps", nsamps), ("skipback", skipback)) if v is not _DEFAULT}
    if label is not None:
        kw["description"] = label
    try:
        for n_r, ii, data in fil.read_plan(quiet=True, **kw):
            blocks.append((int(n_r), int(ii), np.array(data).copy()))
    except ValueError:
        return ("err-before" if not blocks else "err-after", blocks, "ValueError")
    except Exception as e:  # noqa: BLE001
        return ("err-before" if not blocks else "err-after", blocks, type(e).__name__)
    return ("ok", blocks, None)


def check_case(R, x, nch, N, nbits, splits, gulp, start, nsamps, skipback, trace):
    kind, blocks, exc = trace
    geff = min(nsamps, gulp)
    sb = abs(skipback)
    case = {"nbits": nbits, "nchans": nch, "N": N, "splits": splits, "gulp": gulp, "start": start, "nsamps": nsamps, "skipback": skipback}
    if sb >= geff:
        if kind != "err-before" or exc != "ValueError":
            R.fail("plan-not-rejected", "skipback >= effective gulp was not rejected with ValueError before the first yield", dict(case, kind=kind, exc=exc))
        return
    if kind == "err-before":
        if exc != "ValueError":
            R.fail("plan-reject-kind", f"plan rejected with {exc} instead of ValueError", case)
        elif 2 * sb <= geff:
            R.fail("plan-half-rejected", "a plan with skipback <= half the gulp was rejected", case)
        return
    if kind == "err-after":
        key = "plan-partial-last-block-before-eof" if (sb == 0 or 2 * sb <= geff) else "plan-large-skipback"
        R.fail(key, f"{exc} raised after {len(blocks)} block(s) had been yielded", dict(case, exc=exc))
        return
    # accepted and completed: stitched blocks must be exactly the requested samples
    want = x[start:start + nsamps]
    parts = []
    raw = []
    for k, (n_r, ii, data) in enumerate(blocks):
        if ii != k:
            R.fail("plan-index", "block indices are not 0,1,2,...", dict(case, indices=[b[1] for b in blocks])); return
        if n_r * nch != data.size or n_r > gulp or n_r < 0:
            R.fail("plan-block-size", "reported sample count != len(data)/nchans or block larger than the gulp", dict(case, n_r=n_r, size=int(data.size))); return
        d2 = data.reshape(n_r, nch)
        raw.append(d2)
        parts.append(d2 if k == 0 else d2[sb:])
    got = np.concatenate(parts) if parts else np.zeros((0, nch))
    if got.shape != want.shape or not same(got, want, nbits):
        key = "plan-large-skipback" if 2 * sb > geff else "plan-stitch"
        R.fail(key, "stitched blocks differ from samples [start, start+nsamps)", dict(case, got_len=int(got.shape[0]), sizes=[b[0] for b in blocks]))
        return
    # "its leading skipback samples (which repeat the tail of the previous block)": the part of each block that the stitching drops
    for k in range(1, len(raw)):
        m = min(sb, raw[k].shape[0])
        if sb and raw[k - 1].shape[0] >= sb and not same(raw[k][:m], raw[k - 1][raw[k - 1].shape[0] - sb:][:m], nbits):
            R.fail("plan-overlap", "the leading skipback samples of a block do not repeat the tail of the previous block", dict(case, block=k, sizes=[b[0] for b in blocks]))
            return


def run(R: vlib.Run):
    from sigpyproc.readers import FilReader
    R.rule = ("synthetic file sets (1..3 contiguous files, depths 1,2,4,8,16,32, nchans*nbits multiple of 8, sample values over the whole range of "
              "the depth); bounded-exhaustive over (gulp, start, nsamps, skipback incl. negative and above the effective / nominal gulp) for "
              "N <= Nmax, nsamps left out (to the end of the set) and all defaults, every layout of N samples over 2 and 3 files incl. members "
              "without samples, plus random larger cases (odd channel counts, up to 64 channels); distinct = distinct (depth, split, nchans, gulp, "
              "start, nsamps, skipback, how nsamps was passed); non-trivial = at least two blocks or a rejected plan")
    R.trusted += ["Coq 8.16.1 kernel + vm_compute", "tools/py2coq straight-line translator (read_plan arithmetic regenerated from readers.py)",
                  "hand model of the read_plan loop body (Model/Plan.v) and of FileReader (Model/Stream.v), tied by the correspondence run",
                  "composed theorems: byte-wide samples (plan_sound) and packed depths 1/2/4 (plan_sound_packed = plan o C03 unpack); 16/32-bit: C01_plan_sound_items (plan_sound at nchans*itemsize bytes per sample), byte-level correspondence plus value oracle"]
    R.assume += ["files contain a whole number of samples", "the OS returns all available bytes on a regular-file read",
                 "every member of a multi-file set holds a whole number of samples: read_plan checks the combined data length, and only for a plan "
                 "that ends at the last sample, so trailing bytes in a member other than the last shift every later sample of an accepted plan "
                 "(no file with trailing bytes is generated)",
                 "0 <= start and start + nsamps <= header.nsamples: a plan that runs past the end of the data is refused only when the short "
                 "block is reached, i.e. with ValueError after earlier blocks have been yielded (no such plan is generated; start < 0, nsamps <= 0 "
                 "and gulp <= 0 are refused before the first yield)",
                 "gulp, start, nsamps and skipback are Python ints (numpy unsigned scalars wrap in -skipback*nchans and an honourable plan is refused)"]
    if "VERIF_CASE_TIMEOUT" not in os.environ:
        R.case_budget = 120.0 if R.tier == "quick" else 600.0   # every implementation call here is a tiny read, ticked individually
    R.prove("Props/C01.v")
    R.need(["Model/Plan.vo", "Model/PlanForms.vo"])
    rng = R.rng
    nprng = np.random.default_rng(R.seed)
    d = os.path.join(vlib.SCRATCH, f"c01_{os.getpid()}")
    os.makedirs(d, exist_ok=True)
    corr = []   # (nch, files(list of sample-lists), gulp, start, nsamps, skipback, trace) for 8-bit cases
    corrp = []  # the same for the packed depths (file bytes = packed samples)
    try:
        Nmax = 7 if R.tier == "quick" else 10
        configs = []
        for nbits in (1, 2, 4, 8, 16, 32):
            for nf in (1, 2, 3):
                if R.tier == "quick" and nbits in (2, 16) and nf == 2:
                    continue
                configs.append((nbits, nf))
        def explore(fil, x, nch, N, nbits, splits, gulp, start, nsamps, skipback, regime=None, tag=(), nsamps_arg=None, tie=True, label=None):
            """one plan against the implementation: trace, oracle, and (tie) a row for the correspondence with the Coq model.
            nsamps_arg=_DEFAULT leaves nsamps out of the call; nsamps is then the range the property expects (to the end of the set)"""
            geff = min(gulp, nsamps)
            case = {'nbits': nbits, 'nchans': nch, 'N': N, 'splits': splits, 'gulp': gulp, 'start': start,
                    'nsamps': None if nsamps_arg is _DEFAULT else nsamps, 'skipback': skipback}
            R.tick(case)
            tr = iterate(fil, gulp, start, nsamps if nsamps_arg is None else nsamps_arg, skipback, label)
            R.case((nbits, tuple(splits), N, nch, gulp, start, nsamps, skipback) + tuple(tag), nontrivial=(len(tr[1]) >= 2 or tr[0] != "ok"),
                   regime=regime or ("reject" if abs(skipback) >= geff else "half" if 2 * abs(skipback) <= geff else "large-skipback"),
                   sample={"nbits": nbits, "splits": splits, "gulp": gulp, "start": start, "nsamps": nsamps, "skipback": skipback,
                           "blocks": [(b[0], b[1]) for b in tr[1]], "kind": tr[0]} if (gulp, start, nsamps, skipback, tuple(tag)) == (3, 1, 5, 1, ()) else None)
            check_case(R, x, nch, N, nbits, splits, gulp, start, nsamps, skipback, tr)
            if not tie:
                return
            ns_coq = "None" if nsamps_arg is _DEFAULT else f"(Some {nsamps})"   # the model takes the argument as it was passed (Model/PlanForms.v run_plan_opt)
            # 8-bit: every case is tied.  The other depths: the original cases one time in three, every added case (recognisable by its label
            # or by nsamps left out)
            added = label is not None or nsamps_arg is _DEFAULT
            pick = (gulp + start + nsamps + skipback) % 3 == 0 or added
            if nbits == 8:
                corr.append((nch, x, splits, gulp, start, ns_coq, skipback, tr))
            elif nbits in (1, 2, 4) and pick:
                corrp.append((nch, nbits, x, splits, gulp, start, nsamps, skipback, tr))
            elif nbits in (16, 32) and pick:
                # byte level: a sample is nchans*itemsize bytes (C01_plan_sound with nch := samp_stride)
                isz = nbits // 8
                dt = filutil.dtype_for(nbits)
                xb = np.frombuffer(np.ascontiguousarray(x).astype(dt).tobytes(), dtype=np.uint8).reshape(x.shape[0], nch * isz)
                trb = (tr[0], [(b[0], b[1], np.frombuffer(np.ascontiguousarray(b[2]).tobytes(), dtype=np.uint8)) for b in tr[1]], tr[2])
                corr.append((nch * isz, xb, splits, gulp, start, ns_coq, skipback, trb))

        def skipbacks(gulp, nsamps):
            """every 0..effective gulp, then: just above the effective gulp (above the nominal gulp too unless gulp > nsamps), far above
            the nominal gulp, and negative values (read_plan takes the magnitude) on both sides of the rejection boundary"""
            geff = min(gulp, nsamps)
            out = list(range(0, geff + 1))
            for sb in (geff + 1, 2 * gulp + 1, -geff, -(geff - 1)):
                if sb not in out:
                    out.append(sb)
            return out

        def to_end(fil, x, nch, N, nbits, splits, gulps):
            """nsamps left out: the plan runs to the end of the set (header.nsamples - start), for every start including start = N
            (nothing left: effective gulp 0, rejected)"""
            for start in range(0, N + 1):
                for gulp in gulps:
                    for skipback in (0, 1, -2):
                        explore(fil, x, nch, N, nbits, splits, gulp, start, N - start, skipback, tag=("to-end",), nsamps_arg=_DEFAULT,
                                label=None if (gulp, skipback) == (2, 1) else "c01 ")
            # every argument left out: gulp 16384, start 0, to the end, no skipback -> one block with the whole set
            R.tick({'nbits': nbits, 'splits': splits, 'call': 'read_plan() with every argument left out'})
            tr = iterate(fil, _DEFAULT, _DEFAULT, _DEFAULT, _DEFAULT)
            R.case((nbits, tuple(splits), N, nch, "all-defaults"), nontrivial=False, regime="defaults")
            check_case(R, x, nch, N, nbits, splits, 16384, 0, N, 0, tr)

        for nbits, nf in configs:
            nch = NCH[nbits]
            N = Nmax if nbits == 8 else min(Nmax, 6)
            x = draw(nprng, nbits, (N, nch))
            splits = sorted(nprng.choice(np.arange(1, N), size=nf - 1, replace=False).tolist()) if nf > 1 else []
            paths = filutil.write_fil_set(os.path.join(d, f"p{nbits}_{nf}"), x, nbits, splits, vary_header=(nf == 3))
            fil = FilReader(paths)
            for start in range(0, N):
                for nsamps in range(1, N - start + 1):
                    for gulp in range(1, nsamps + 2):
                        for skipback in skipbacks(gulp, nsamps):
                            explore(fil, x, nch, N, nbits, splits, gulp, start, nsamps, skipback,
                                    label=None if 0 <= skipback <= min(gulp, nsamps) else "c01 ")
                    # nominal gulp well above the range: nsamps < |skipback| < gulp must be rejected like |skipback| >= gulp
                    for skipback in (nsamps + 1, -(nsamps + 2), nsamps + 3):
                        explore(fil, x, nch, N, nbits, splits, nsamps + 3, start, nsamps, skipback, label="c01 ")
            to_end(fil, x, nch, N, nbits, splits, (2, N + 1))
        # every way of laying N samples over two and three files, members without any sample included (split points may coincide and
        # may be 0 or N), every header of a different byte length
        Ns = 4 if R.tier == "quick" else 5
        xs = draw(nprng, 8, (Ns, 3))
        lay = [[a] for a in range(0, Ns + 1)] + [[a, b] for a in range(0, Ns + 1) for b in range(a, Ns + 1)]
        for li, splits in enumerate(lay):
            paths = filutil.write_fil_set(os.path.join(d, f"l{li}"), xs, 8, splits, vary_header=True)
            fil = FilReader(paths)
            for start in range(0, Ns):
                for nsamps in range(1, Ns - start + 1):
                    for gulp in range(1, nsamps + 2):
                        for skipback in range(0, min(gulp, nsamps) + 1):
                            explore(fil, xs, 3, Ns, 8, splits, gulp, start, nsamps, skipback, tag=("layout",), label="c01 ")
            explore(fil, xs, 3, Ns, 8, splits, 2, 0, Ns, 1, tag=("to-end",), nsamps_arg=_DEFAULT)
        # random larger cases
        for _ in range(60 if R.tier == "quick" else 600):
            nbits = rng.choice([1, 2, 4, 8, 8, 16, 32])
            # channel counts: the smallest with nchans*nbits a multiple of 8, times 1, 2, an odd factor or 8 (8-bit: 1, 3, 5 channels too)
            nch = (8 // math.gcd(8, nbits)) * rng.choice([1, 2, 2, 3, 5, 8])
            N = rng.randrange(8, 60); nf = rng.randrange(1, 4)
            x = draw(nprng, nbits, (N, nch))
            # split points may coincide or lie at 0 / N one time in four: members without any sample
            splits = sorted(rng.sample(range(1, N), nf - 1)) if nf > 1 else []
            if nf > 1 and rng.random() < 0.25:
                splits = sorted(rng.choice([0, N, rng.randrange(0, N + 1)]) if rng.random() < 0.5 else s_ for s_ in splits)
            paths = filutil.write_fil_set(os.path.join(d, "r"), x, nbits, splits, vary_header=True)
            fil = FilReader(paths)
            for _ in range(8):
                start = rng.randrange(0, N); nsamps = rng.randrange(1, N - start + 1)
                gulp = rng.choice([1, 2, 3, rng.randrange(1, nsamps + 3), nsamps, nsamps + 5])
                geff = min(gulp, nsamps)
                skipback = rng.choice([0, 0, geff // 2, rng.randrange(0, geff + 1), max(0, geff - 1), -(geff // 3),
                                       -rng.randrange(0, geff + 1), geff + 1 + rng.randrange(0, 5), -(geff + rng.randrange(0, 5)), gulp + rng.randrange(0, 3)])
                to_end_ = rng.random() < 0.15
                if to_end_:
                    nsamps = N - start; geff = min(gulp, nsamps)
                explore(fil, x, nch, N, nbits, splits, gulp, start, nsamps, skipback, regime="random", tag=("to-end",) if to_end_ else (),
                        nsamps_arg=_DEFAULT if to_end_ else None, tie=(nbits == 8 and N <= 24))
        # ---- correspondence: Model/Plan.v run_plan vs the implementation's trace (8-bit files) ----
        per = 400
        enc_kind = {"ok": 0, "err-before": 1, "err-after": 2}
        jobs = []   # (file name, text, timeout, what to do with coqc's output)

        def enc_exc(name):
            """class of the exception that ended the iteration, as Model/PlanForms.v err_code: 0 none, 1 ValueError, 2 anything else"""
            return 0 if name is None else 1 if name == "ValueError" else 2
        for si in range(0, len(corr), per):
            sh = corr[si:si + per]
            rows = []
            for nch, x, splits, gulp, start, nsamps, skipback, tr in sh:
                bounds = [0] + list(splits) + [x.shape[0]]
                fs = "[" + "; ".join(f"mkfile [224] {vlib.zlist(x[bounds[i]:bounds[i + 1]].ravel())}" for i in range(len(bounds) - 1)) + "]"
                bl = "[" + "; ".join(f"({b[0]}, {b[1]}, {vlib.zlist(b[2])})" for b in tr[1]) + "]"
                rows.append(f"({fs}, {nch}, ({gulp}, {start}, {nsamps}, {skipback}), ({enc_kind[tr[0]]}, {enc_exc(tr[2])}, {bl}))")
            v = ["From Coq Require Import ZArith List Bool.", "Require Import SPP.Base.Rt SPP.Model.Stream SPP.Model.Plan SPP.Model.PlanForms.", "Import ListNotations.", "Open Scope Z_scope.",
                 "Definition eqb3 (a b : Z * Z * list Z) : bool := let '(n1, i1, l1) := a in let '(n2, i2, l2) := b in (n1 =? n2) && (i1 =? i2) && list_eqb l1 l2.",
                 "Fixpoint alleq (a b : list (Z * Z * list Z)) : bool := match a, b with [], [] => true | x :: r, y :: s => eqb3 x y && alleq r s | _, _ => false end.",
                 "Definition cases : list (list file * Z * (Z * Z * option Z * Z) * (Z * Z * list (Z * Z * list Z))) := [", ";\n".join(rows), "].",
                 "Definition ok (c : list file * Z * (Z * Z * option Z * Z) * (Z * Z * list (Z * Z * list Z))) : bool :=",
                 "  let '(fs, nch, (gulp, start, nsamps, skipback), (k, e, bl)) := c in",
                 "  let '(k', e', bl') := trace_enc_exc (run_plan_opt fs nch gulp start nsamps skipback) in (k =? k') && (e =? e') && alleq bl bl'.",
                 "Definition idx := map fst (filter (fun p => negb (ok (snd p))) (combine (seq 0 (length cases)) cases)).",
                 "Eval vm_compute in (length cases, idx)."]
            def post(rc, outp, sh=sh):
                vals = vlib.parse_eval(outp)
                if rc != 0 or not vals:
                    R.red.append("correspondence: Corr/c01 did not evaluate: " + outp[-400:])
                    return
                nums = [int(z) for z in re.findall(r"(\d+)%nat", vals[0])]
                R.extra_cov["traces_validated_against_impl"] = R.extra_cov.get("traces_validated_against_impl", 0) + (nums[0] if nums else 0)
                for bi in nums[1:4]:
                    nch, x, splits, gulp, start, nsamps, skipback, tr = sh[bi]
                    R.disagree("Model/PlanForms.v run_plan_opt and FilReader.read_plan differ (blocks, where the iteration ended, or the class of the exception)",
                               {"nchans": nch, "x": x.tolist(), "splits": splits, "gulp": gulp, "start": start, "nsamps": nsamps, "skipback": skipback,
                                "impl": (tr[0], [(b[0], b[1], b[2].tolist()) for b in tr[1]], tr[2])})
            jobs.append((f"c01_{si // per}", "\n".join(v), 300, post))
        # ---- correspondence at the packed depths: Model/PlanPacked.v run_plan_packed (plan o generated unpack kernels) ----
        from sigpyproc.io import bits as _bits
        R.need(["Model/PlanPacked.vo"])
        for si in range(0, len(corrp), per):
            sh = corrp[si:si + per]
            rows = []
            for nch, nbits, x, splits, gulp, start, nsamps, skipback, tr in sh:
                order = _bits.BitsInfo(nbits).bitorder
                bounds = [0] + list(splits) + [x.shape[0]]
                fs = "[" + "; ".join("mkfile [224] " + vlib.zlist(_bits.pack(x[bounds[i]:bounds[i + 1]].ravel().astype(np.uint8), nbits, bitorder=order))
                                     for i in range(len(bounds) - 1)) + "]"
                bl = "[" + "; ".join(f"({b[0]}, {b[1]}, {vlib.zlist(b[2])})" for b in tr[1]) + "]"
                rows.append(f"({fs}, ({nch}, {nbits}, {'true' if order[0] == 'b' else 'false'}), ({gulp}, {start}, {nsamps}, {skipback}), ({enc_kind[tr[0]]}, {enc_exc(tr[2])}, {bl}))")
            v = ["From Coq Require Import ZArith List Bool.", "Require Import SPP.Base.Rt SPP.Model.Stream SPP.Model.Plan SPP.Model.PlanPacked SPP.Model.PlanForms.", "Import ListNotations.", "Open Scope Z_scope.",
                 "Definition eqb3 (a b : Z * Z * list Z) : bool := let '(n1, i1, l1) := a in let '(n2, i2, l2) := b in (n1 =? n2) && (i1 =? i2) && list_eqb l1 l2.",
                 "Fixpoint alleq (a b : list (Z * Z * list Z)) : bool := match a, b with [], [] => true | x :: r, y :: s => eqb3 x y && alleq r s | _, _ => false end.",
                 "Definition cases : list (list file * (Z * Z * bool) * (Z * Z * Z * Z) * (Z * Z * list (Z * Z * list Z))) := [", ";\n".join(rows), "].",
                 "Definition ok (c : list file * (Z * Z * bool) * (Z * Z * Z * Z) * (Z * Z * list (Z * Z * list Z))) : bool :=",
                 "  let '(fs, (nch, nbits, big), (gulp, start, nsamps, skipback), (k, e, bl)) := c in",
                 "  let '(k', e', bl') := trace_enc_exc (run_plan_packed fs nch nbits big gulp start nsamps skipback (fun _ => 7)) in (k =? k') && (e =? e') && alleq bl bl'.",
                 "Definition idx := map fst (filter (fun p => negb (ok (snd p))) (combine (seq 0 (length cases)) cases)).",
                 "Eval vm_compute in (length cases, idx)."]
            def postp(rc, outp, sh=sh):
                vals = vlib.parse_eval(outp)
                if rc != 0 or not vals:
                    R.red.append("correspondence: Corr/c01p did not evaluate: " + outp[-400:])
                    return
                nums = [int(z) for z in re.findall(r"(\d+)%nat", vals[0])]
                R.extra_cov["packed_traces_validated_against_impl"] = R.extra_cov.get("packed_traces_validated_against_impl", 0) + (nums[0] if nums else 0)
                for bi in nums[1:4]:
                    nch, nbits, x, splits, gulp, start, nsamps, skipback, tr = sh[bi]
                    R.disagree("Model/PlanPacked.v run_plan_packed and FilReader.read_plan differ (blocks, where the iteration ended, or the class of the exception)",
                               {"nchans": nch, "nbits": nbits, "x": x.tolist(), "splits": splits, "gulp": gulp, "start": start, "nsamps": nsamps, "skipback": skipback,
                                "impl": (tr[0], [(b[0], b[1], b[2].tolist()) for b in tr[1]], tr[2])})
            jobs.append((f"c01p_{si // per}", "\n".join(v), 600, postp))
        # the files are independent: four coqc at a time (the case budget is paused for the whole batch, as vlib.coq_run does for one file)
        from concurrent.futures import ThreadPoolExecutor
        vlib.watch_disarm()
        try:
            with ThreadPoolExecutor(max_workers=4) as ex:
                outs = list(ex.map(lambda j: vlib.coq_run(j[0], j[1], timeout=j[2]), jobs))
        finally:
            vlib.watch_arm()
        for (name_, _t, _to, post_), (rc, outp) in zip(jobs, outs):
            post_(rc, outp)
    finally:
        shutil.rmtree(d, ignore_errors=True)


def scale(R: vlib.Run):
    """at-scale search (run when something no longer checks, and in the thorough tier): blocks above 16 MiB across a file boundary,
    item counts above 2**16 / 2**22 / 2**24 per read, hundreds of thousands of blocks, packed depths with millions of samples per block"""
    from sigpyproc.readers import FilReader
    nprng = np.random.default_rng(R.seed + 101)
    d = os.path.join(vlib.SCRATCH, f"c01s_{os.getpid()}")
    os.makedirs(d, exist_ok=True)
    table = [
        (8, 2048, 18000, [9000], [(8500, 100, 17500, 10), (16384, 0, 18000, 0), (17000, 500, 17400, 0)]),
        (32, 512, 20000, [7000], [(16384, 0, 20000, 0), (9000, 10, 19000, 5)]),
        (1, 1024, 100000, [35000], [(16384, 0, 100000, 0), (70000, 1000, 98000, 100)]),
        (8, 1, 300000, [100000, 100001], [(7, 3, 299990, 3), (65536, 0, 300000, 1), (65537, 1, 250000, 0)]),
        (2, 64, 300000, [], [(70000, 5, 280000, 1000)]),
        (16, 16, 300000, [123457], [(270000, 0, 300000, 0), (4096, 17, 299000, 96)]),
    ]
    try:
        for nbits, nch, N, splits, plans in table:
            # values over the whole range of the depth (16-bit: both bytes of the word; 32-bit: fractions, both signs)
            if nbits == 16:
                x = nprng.integers(0, 1 << 16, (N, nch), dtype=np.uint16)
            elif nbits == 32:
                x = (nprng.standard_normal((N, nch), dtype=np.float32) * np.float32(1000.0)).astype(np.float32)
            else:
                x = nprng.integers(0, 1 << nbits, (N, nch), dtype=np.uint8)
            paths = filutil.write_fil_set(os.path.join(d, f"s{nbits}"), x, nbits, splits)
            fil = FilReader(paths)
            for gulp, start, nsamps, skipback in plans:
                case = {"nbits": nbits, "nchans": nch, "N": N, "splits": splits, "gulp": gulp, "start": start, "nsamps": nsamps, "skipback": skipback,
                        "data": f"numpy.random.default_rng({R.seed + 101}) stream, see props/c01.py scale()"}
                R.tick(case)
                R.case(("scale", nbits, nch, N, gulp, start, nsamps, skipback), regime="scale")
                pos, k, bad = start, 0, None
                try:
                    for n_r, ii, data in fil.read_plan(gulp=gulp, start=start, nsamps=nsamps, skipback=skipback, quiet=True):
                        if ii != k or n_r * nch != data.size or n_r > gulp:
                            bad = f"block {k}: index {ii}, nsamps_r {n_r}, size {data.size}"; break
                        first = pos - (skipback if k else 0)
                        want = x[first:first + n_r]
                        got = np.asarray(data).reshape(n_r, nch)
                        if want.shape != got.shape or not same(got, want, nbits):
                            bad = f"block {k} (samples {first}..{first + n_r}) differs from the file contents"; break
                        pos = first + n_r
                        k += 1
                    if bad is None and pos != start + nsamps:
                        bad = f"blocks end at sample {pos}, requested range ends at {start + nsamps}"
                except Exception as e:  # noqa: BLE001
                    bad = f"{type(e).__name__}: {str(e)[:120]} after {k} block(s)"
                if bad:
                    R.fail("scale-plan", "read_plan at scale: " + bad, case)
            del fil, x
            for p in paths:
                os.remove(p)
    finally:
        shutil.rmtree(d, ignore_errors=True)
