"""C10 -- online channel statistics do not depend on how the stream is chunked or merged.

Proof: Props/C10.v (with Proofs/C10_tree.v: min/max for every tree of additions with any start indices and zero-length pushes;
std as the non-negative root of the variance) over Gen/Moments.v (update_moments, update_moments_basic, add_online_moments and the loop structure of
compute_online_moments(_basic), regenerated from kernels.py by tools/py2coq/gen_c10.py) and Model/C10_moments.v.
Correspondence: the model's `eval` (exact Q arithmetic, int64/int32 wraps) under vm_compute versus ChannelStats on the same
histories (push_data sequences and additions), field by field; plus add_online_moments on hand-built records with large counts.
Oracle: the property in NumPy -- float64 two-pass statistics of the whole stream versus ChannelStats' count / minima / maxima
(exact) and mean / var / skew / kurtosis (within the float32 accumulation bound `tolerances`) for every composition of short
streams, every split point, basic and full modes, 1..4 channels, data from constant to wide range.

Tolerance (justification).  u = 2^-24.  One-sample chunks are the worst case: every update rounds the record to float32.
With R = max|x|, D = max - min, N = samples + additions:  the mean accumulates at most one rounding of size u*R per update and
one in delta/n:  E1 = 2 N u R.  Every deviation `val - m1` is then off by at most E1 + u*D', D' = D + E1.  A k-th order sum
receives per update a term bounded by c_k D'^k, computed with a few roundings and perturbed through its derivative in delta and
through the lower sums it uses (factors 3 delta_n m2, 6 delta_n^2 m2, 4 delta_n m3, with delta_n = delta/n, hence the harmonic
factor L = 1 + ln N), and the sum itself (<= N D'^k) is rounded once per update:
    E2 = u D'(R + D')(4N^2 + 6N)
    E3 = 12 N^2 u D'^2 R + 3 L D' E2 + (N^2 + 22N) u D'^3
    E4 = 40 N^2 u D'^3 R + 10 D'^2 E2 + 4 L D' E3 + (N^2 + 64N) u D'^4
An addition adds its operands' errors (the bounds are super-additive in N), perturbs the cross terms through the same
derivatives and rounds each field once; it is counted as one more update.  The bound used is 2*E_k.  It is first order and
worst case: observed errors are reported in the evidence as a fraction of the bound (typically < 5 %), and the mutations listed
in findings.d/C10.md (sign swaps and coefficient changes in the merge and update formulas) exceed it by orders of magnitude.
var = m2/n, skew = sqrt(n) m3 / m2^1.5 and kurtosis = n m4 / m2^2 - 3 are compared on the box [M2 +- 2E2] x [M3 +- 2E3] x
[M4 +- 2E4] (they are monotone in each argument); when 2*E2 >= M2/2 the normalised statistics are ill-conditioned in float32 and
only their finiteness is demanded.  Constant channels must report var == 0 and skew == 0 exactly.
Interpretation: ChannelStats(nchans, nsamps) is constructed with nsamps = the number of samples it is going to be fed, so that
`var` (which divides by nsamps -- C06's subject) is the variance of the samples pushed; streams have at least one sample;
|x| <= 65535 (the 16-bit range; the float classes stay within 1e4) and non-constant channels have a spread >= 1e-3, so that
fourth-order sums and the float32 power m2**2 of the kurtosis stay inside float32's range for every count < 2^31.

Tighter bound (`tol_case`).  The kernels load the float32 record into float64 locals, update them once per sample in float64 and
round the record to float32 once per push_data; add_online_moments evaluates in float64 and rounds once.  The number of float32
roundings of the record is therefore K = pushes + additions, not N: the bound of the at-scale search (`_s_tol`, derivation there)
holds at every size, and the tolerance used is the smaller of the two, statistic by statistic (equal in order of magnitude for
one-sample chunks, N/K times smaller for long chunks).  `std` is compared with the square root of the two-pass variance on the
same box (sqrt is monotone), must be finite, and must be exactly 0 for constant channels.
Zero-length pushes (push_data of an empty array, before / between / after the chunks) must leave every field unchanged."""
from __future__ import annotations

import math
import re
from fractions import Fraction

import numpy as np

import vlib

U = 2.0 ** -24


# ---------------------------------------------------------------------------------------------------
# histories:  ("new",) | ("push", flag, i0, i1, h) | ("add", h1, h2)      (samples [i0, i1) of the stream)
# ---------------------------------------------------------------------------------------------------

def h_count(h):
    if h[0] == "new":
        return 0
    if h[0] == "push":
        return (h[3] - h[2]) + h_count(h[4])
    return h_count(h[1]) + h_count(h[2])


def h_ops(h):
    """(pushes, additions)"""
    if h[0] == "new":
        return 0, 0
    if h[0] == "push":
        p, a = h_ops(h[4])
        return p + 1, a
    p1, a1 = h_ops(h[1])
    p2, a2 = h_ops(h[2])
    return p1 + p2, a1 + a2 + 1


def h_range(h):
    """(first, last+1) sample covered; None if no data"""
    if h[0] == "new":
        return None
    if h[0] == "push":
        r = h_range(h[4])
        return (h[2], h[3]) if r is None else (r[0], h[3])
    r1, r2 = h_range(h[1]), h_range(h[2])
    if r1 is None:
        return r2
    if r2 is None:
        return r1
    return (r1[0], r2[1])


def h_traits(h):
    """which input classes the history contains: first push of an accumulator with a non-zero index; addition with an empty side"""
    nz, em = False, False

    def rec(h):
        nonlocal nz, em
        if h[0] == "push":
            if h[4][0] == "new" and h[1] != 0:
                nz = True
            if h[4][0] == "add" and h_count(h[4]) == 0 and h[1] != 0:
                nz = True
            rec(h[4])
        elif h[0] == "add":
            if h_count(h[1]) == 0 or h_count(h[2]) == 0:
                em = True
            rec(h[1])
            rec(h[2])
    rec(h)
    return nz, em


def run_impl(h, X, mode, ChannelStats):
    """evaluate a history with the implementation; X has shape (nsamps, nchans)"""
    nch = X.shape[1]
    if h[0] == "new":
        return ChannelStats(nch, 0)
    if h[0] == "add":
        return run_impl(h[1], X, mode, ChannelStats) + run_impl(h[2], X, mode, ChannelStats)
    # a chain of pushes onto a base
    chain = []
    base = h
    while base[0] == "push":
        chain.append(base)
        base = base[4]
    chain.reverse()
    if base[0] == "new":
        s = ChannelStats(nch, sum(c[3] - c[2] for c in chain))
    else:
        s0 = run_impl(base, X, mode, ChannelStats)
        s = ChannelStats(nch, s0.nsamps + sum(c[3] - c[2] for c in chain))
        s.moments[:] = s0.moments            # continue pushing onto the sum (same record, larger nsamps)
    for c in chain:
        s.push_data(np.ascontiguousarray(X[c[2]:c[3]]).ravel(), c[1], mode=mode)
    return s


def qlit(x):
    fr = Fraction(float(x))
    return f"({fr.numerator} # {fr.denominator})"


def h_coq(h, col):
    if h[0] == "new":
        return "HNew"
    if h[0] == "push":
        return f"(HPush ({h[1]})%Z [" + "; ".join(qlit(v) for v in col[h[2]:h[3]]) + f"] {h_coq(h[4], col)})"
    return f"(HAdd {h_coq(h[1], col)} {h_coq(h[2], col)})"


def compositions(n):
    if n == 0:
        yield []
        return
    for first in range(1, n + 1):
        for rest in compositions(n - first):
            yield [first] + rest


def chain(i0, parts, conv, base=("new",), first_flag=None):
    """pushes of consecutive chunks starting at sample i0.  conv: 'sample' (start index = sample index, as the docstring says),
    'block' (block number, as Filterbank.compute_stats passes it).  first_flag overrides the first start index."""
    h = base
    pos = i0
    for bi, p in enumerate(parts):
        flag = pos if conv == "sample" else bi
        if bi == 0 and first_flag is not None:
            flag = first_flag
        h = ("push", flag, pos, pos + p, h)
        pos += p
    return h


# ---------------------------------------------------------------------------------------------------
# the oracle
# ---------------------------------------------------------------------------------------------------

def tolerances(n, nadds, R, D):
    N = n + nadds
    E1 = 2 * N * U * R
    D1 = D + E1
    L = 1 + math.log(max(N, 1))
    E2 = U * D1 * (R + D1) * (4 * N * N + 6 * N)
    E3 = 12 * N * N * U * D1 ** 2 * R + 3 * L * D1 * E2 + (N * N + 22 * N) * U * D1 ** 3
    E4 = 40 * N * N * U * D1 ** 3 * R + 10 * D1 ** 2 * E2 + 4 * L * D1 * E3 + (N * N + 64 * N) * U * D1 ** 4
    tiny = 1e-30
    return 2 * E1 + tiny, 2 * E2 + tiny, 2 * E3 + tiny, 2 * E4 + tiny


def tol_case(n, npush, nadds, R, D):
    """the tolerance of one case: statistic by statistic the smaller of `tolerances` (one float32 rounding per sample) and of the
    bound for K = pushes + additions roundings of the record (`_s_tol`: the kernels accumulate a chunk in float64)"""
    old = tolerances(n, nadds, R, D)
    new = _s_tol(n, max(npush + nadds, 1), R, D)
    return tuple(min(a, float(b)) for a, b in zip(old, new))


def std_box(rvar, tv):
    """reference std and its tolerance from the interval [rvar - tv, rvar + tv] of admissible variances (sqrt is monotone and
    concave: the lower end is the farther one) plus the float32 roundings of var and of the square root"""
    rstd = math.sqrt(max(rvar, 0.0))
    return rstd, rstd - math.sqrt(max(rvar - tv, 0.0)) + 4 * U * rstd + 1e-30


def two_pass(x):
    """float64 two-pass statistics of one channel (x: float64 1-d, n >= 1)"""
    n = x.size
    mu = x.sum() / n
    d = x - mu
    # second pass corrected for the rounding of mu
    M2 = float(np.sum(d * d))
    M3 = float(np.sum(d * d * d))
    M4 = float(np.sum(d * d * d * d))
    return float(mu), M2, M3, M4


def stat_box(n, M2, M3, M4, t2, t3, t4):
    """reference var / skew / kurtosis and their tolerances from the box of admissible sums; None = ill-conditioned"""
    var = M2 / n
    tv = t2 / n + 4 * U * abs(var)
    if M2 <= 0 or t2 >= M2 / 2:
        return var, tv, None, None, None, None
    skew = math.sqrt(n) * M3 / M2 ** 1.5
    kurt = n * M4 / M2 ** 2 - 3.0
    ds, dk = 0.0, 0.0
    for s2 in (-1, 1):
        m2 = M2 + s2 * t2
        for s3 in (-1, 1):
            ds = max(ds, abs(math.sqrt(n) * (M3 + s3 * t3) / m2 ** 1.5 - skew))
            dk = max(dk, abs(n * (M4 + s3 * t4) / m2 ** 2 - 3.0 - kurt))
    return var, tv, skew, ds + 16 * U * abs(skew) + 1e-30, kurt, dk + 16 * U * (abs(kurt) + 3) + 1e-30


class Oracle:
    def __init__(self, R):
        self.R = R
        self.maxratio = {"mean": 0.0, "var": 0.0, "std": 0.0, "skew": 0.0, "kurtosis": 0.0, "m1": 0.0, "m2": 0.0, "m3": 0.0, "m4": 0.0}
        self.illcond = 0
        self.compared = 0

    def check(self, h, X, mode, s, label, cls):
        """compare ChannelStats `s` (result of history h on stream X) with the two-pass definitions"""
        R = self.R
        rng_ = h_range(h)
        n = h_count(h)
        nz, em = h_traits(h)
        npush, nadds = h_ops(h)
        full = mode != "basic"
        Xs = X[rng_[0]:rng_[1]].astype(np.float64)
        case = {"mode": mode, "class": cls, "history": h, "stream": X.tolist(), "dtype": str(X.dtype)}
        cnt = s.moments["count"]
        if not np.all(cnt == n):
            R.fail(f"count-{label}", "count differs from the number of samples pushed", dict(case, got=cnt.tolist(), expected=n))
        mn, mx = Xs.min(axis=0), Xs.max(axis=0)
        if not (np.array_equal(s.minima.astype(np.float64), mn) and np.array_equal(s.maxima.astype(np.float64), mx)):
            key = "minmax-nonzero-start" if nz else ("minmax-merge-empty" if em else f"minmax-{label}")
            R.fail(key, "minima/maxima differ from the minimum/maximum of the samples pushed",
                   dict(case, got_min=s.minima.tolist(), got_max=s.maxima.tolist(), expected_min=mn.tolist(), expected_max=mx.tolist()))
        mean, var = np.asarray(s.mean, dtype=np.float64), np.asarray(s.var, dtype=np.float64)
        skew, kurt = np.asarray(s.skew, dtype=np.float64), np.asarray(s.kurtosis, dtype=np.float64)
        std = np.asarray(s.std, dtype=np.float64)
        for name, arr in (("mean", mean), ("var", var), ("std", std), ("skew", skew), ("kurtosis", kurt)):
            if not np.all(np.isfinite(arr)):
                R.fail(f"nonfinite-{label}", f"{name} is NaN or infinite for finite input", dict(case, stat=name, got=arr.tolist()))
                return
        for ch in range(X.shape[1]):
            x = Xs[:, ch]
            Rmax, D = float(np.abs(x).max()), float(x.max() - x.min())
            mu, M2, M3, M4 = two_pass(x)
            t1, t2, t3, t4 = tol_case(n, npush, nadds, Rmax, D)
            rvar, tv, rskew, ts, rkurt, tk = stat_box(n, M2, M3, M4, t2, t3, t4)
            rstd, tsd = std_box(rvar, tv)
            self.compared += 1
            bad = []
            if D == 0.0:
                if var[ch] != 0.0 or skew[ch] != 0.0:
                    R.fail(f"constant-{label}", "constant channel reports non-zero variance or skewness",
                           dict(case, channel=ch, var=float(var[ch]), skew=float(skew[ch])))
                if std[ch] != 0.0:
                    R.fail(f"std-{label}", "constant channel reports a non-zero standard deviation",
                           dict(case, channel=ch, std=float(std[ch]), var=float(var[ch])))
                if abs(mean[ch] - mu) > t1:
                    bad.append(("mean", float(mean[ch]), mu, t1))
            else:
                self.maxratio["mean"] = max(self.maxratio["mean"], abs(mean[ch] - mu) / t1)
                self.maxratio["var"] = max(self.maxratio["var"], abs(var[ch] - rvar) / tv)
                if abs(mean[ch] - mu) > t1:
                    bad.append(("mean", float(mean[ch]), mu, t1))
                if abs(var[ch] - rvar) > tv:
                    bad.append(("var", float(var[ch]), rvar, tv))
                self.maxratio["std"] = max(self.maxratio["std"], abs(std[ch] - rstd) / tsd)
                if abs(std[ch] - rstd) > tsd:
                    R.fail(f"std-{label}", "std differs from the square root of the two-pass variance by more than the float32 accumulation bound",
                           dict(case, channel=ch, got=float(std[ch]), expected=rstd, tolerance=tsd, var=float(var[ch])))
                if full:
                    if rskew is None:
                        self.illcond += 1
                    else:
                        self.maxratio["skew"] = max(self.maxratio["skew"], abs(skew[ch] - rskew) / ts)
                        self.maxratio["kurtosis"] = max(self.maxratio["kurtosis"], abs(kurt[ch] - rkurt) / tk)
                        if abs(skew[ch] - rskew) > ts:
                            bad.append(("skew", float(skew[ch]), rskew, ts))
                        if abs(kurt[ch] - rkurt) > tk:
                            bad.append(("kurtosis", float(kurt[ch]), rkurt, tk))
            if bad:
                kind = "merge" if nadds else "chunking"
                R.fail(f"moments-{kind}-{mode}",
                       "statistics differ from the float64 two-pass definitions by more than the float32 accumulation bound",
                       dict(case, channel=ch, diffs=[{"stat": a, "got": b, "expected": c, "tolerance": d} for a, b, c, d in bad]))
                return


# ---------------------------------------------------------------------------------------------------
# data classes
# ---------------------------------------------------------------------------------------------------

def make_stream(rng, cls, n, nch):
    def rnd():
        return rng.random()
    if cls == "constant":
        vals = [rng.choice([0, 1, 5, 200, -3]) for _ in range(nch)]
        return np.array([[vals[c] for c in range(nch)] for _ in range(n)], dtype=np.float32)
    if cls == "constant-u8":
        vals = [rng.choice([0, 1, 7, 255]) for _ in range(nch)]
        return np.array([[vals[c] for c in range(nch)] for _ in range(n)], dtype=np.uint8)
    if cls == "1bit":
        return np.array([[rng.randrange(2) for _ in range(nch)] for _ in range(n)], dtype=np.uint8)
    if cls == "2bit":
        return np.array([[rng.randrange(4) for _ in range(nch)] for _ in range(n)], dtype=np.uint8)
    if cls == "8bit":
        return np.array([[rng.randrange(1, 256) for _ in range(nch)] for _ in range(n)], dtype=np.uint8)
    if cls == "16bit":       # nbits = 16 files: full unsigned range (a separate numba specialisation of the kernels)
        return np.array([[rng.choice([rng.randrange(0, 65536), rng.randrange(0, 65536), 0, 65535]) for _ in range(nch)] for _ in range(n)],
                        dtype=np.uint16)
    if cls == "int8":        # signed integers: the extrema are seeded from an integer of the array's own (signed) type
        return np.array([[rng.randrange(-128, 128) for _ in range(nch)] for _ in range(n)], dtype=np.int8)
    if cls == "smallint":
        return np.array([[rng.randrange(-9, 10) for _ in range(nch)] for _ in range(n)], dtype=np.float32)
    if cls == "negative":
        return np.array([[-rng.randrange(1, 60) - rng.choice([0, 0.5]) for _ in range(nch)] for _ in range(n)], dtype=np.float32)
    if cls == "wide":
        return np.array([[(rnd() * 2 - 1) * 10.0 ** rng.randrange(-2, 5) for _ in range(nch)] for _ in range(n)], dtype=np.float32)
    if cls == "offset":
        off = [rng.choice([100.0, 1000.0, -500.0]) for _ in range(nch)]
        return np.array([[off[c] + rng.randrange(0, 8) * 0.25 for c in range(nch)] for _ in range(n)], dtype=np.float32)
    raise ValueError(cls)


CLASSES = ["constant", "constant-u8", "1bit", "2bit", "8bit", "16bit", "int8", "smallint", "negative", "wide", "offset"]


# ---------------------------------------------------------------------------------------------------
# correspondence
# ---------------------------------------------------------------------------------------------------

CORR_HEAD = """From Coq Require Import ZArith QArith Qabs List Bool.
Require Import SPP.Model.C10_rt SPP.Gen.Moments SPP.Model.C10_moments.
Import ListNotations.
Open Scope Q_scope.
Definition close (x y t : Q) : bool := Qle_bool (Qabs (x - y)) t.
Definition opt (t : Q) (b : bool) : bool := if Qle_bool 0 t then b else true.
Definition chk (c : bool * hist * (Z * Q * Q * Q * Q * Q * Q) * (Q * Q * Q * Q) * (Q * Q * Q * Q) * (Q * Q * Q * Q)) : bool :=
  let '(full, h, (n, i1, i2, i3, i4, lo, hi), (t1, t2, t3, t4), (iv, ik, is2, isd), (tv, tk, ts2, tsd2)) := c in
  let s := eval_red full h in
  (s_cnt s =? n)%Z && Qeq_bool (s_min s) lo && Qeq_bool (s_max s) hi && close (s_m1 s) i1 t1 && close (s_m2 s) i2 t2
  && (if full then close (s_m3 s) i3 t3 && close (s_m4 s) i4 t4 else true)
  && (if (n <=? 3)%Z then st_eqb (eval full h) s else true)   (* eval_red is eval with reduced fractions *)
  && close (var_q s n) iv tv
  && Qle_bool 0 isd && close (isd * isd) (var_q s n) tsd2     (* ChannelStats.std against Model is_std: non-negative root of var_q *)
  && (if full then opt tk (close (kurt_q s n) ik tk) && opt ts2 (close (skew_sq_q s n) is2 ts2) else true).
"""
CORR_TAIL = """Definition idx := map fst (filter (fun p => negb (chk (snd p))) (combine (seq 0 (length cases)) cases)).
Eval vm_compute in (length cases, idx).
"""

KCORR_HEAD = """From Coq Require Import ZArith QArith Qabs List Bool.
Require Import SPP.Model.C10_rt SPP.Gen.Moments SPP.Model.C10_moments.
Import ListNotations.
Open Scope Q_scope.
Definition qabs_max (x y : Q) : Q := if Qle_bool (Qabs x) (Qabs y) then Qabs y else Qabs x.
Definition close_rel (x y : Q) : bool := Qle_bool (Qabs (x - y)) ((1 # 20000) * qabs_max x y + (1 # 1000000000000)).
Definition chk (c : mst * mst * (Z * Q * Q * Q * Q * Q * Q)) : bool :=
  let '(a, b, (n, i1, i2, i3, i4, lo, hi)) := c in
  let s := merge a b in
  (s_cnt s =? n)%Z && Qeq_bool (s_min s) lo && Qeq_bool (s_max s) hi && close_rel (s_m1 s) i1 && close_rel (s_m2 s) i2
  && close_rel (s_m3 s) i3 && close_rel (s_m4 s) i4.
"""


def parse_idx(out):
    vals = vlib.parse_eval(out)
    if not vals:
        return None, None
    nums = re.findall(r"(\d+)%nat", vals[-1])
    if not nums:
        return None, None
    return int(nums[0]), [int(x) for x in nums[1:]]


def rec_of(s, ch):
    r = s.moments[ch]
    return (int(r["count"]), float(r["m1"]), float(r["m2"]), float(r["m3"]), float(r["m4"]), float(r["min"]), float(r["max"]))


def run(R: vlib.Run):
    from sigpyproc.core import kernels
    from sigpyproc.core.stats import ChannelStats

    quick = R.tier == "quick"
    R.rule = ("histories = (a) every composition of a stream of length 1..Nmax into consecutive chunks pushed onto one accumulator, "
              "with the start index either the sample index or the block number; (b) every split point 0..n of the stream between two "
              "accumulators that are then added, the second one started at index 0 or at its true sample index, each side chunked; "
              "(c) random longer streams with random compositions and random addition trees, and the same streams in one push, two pushes "
              "and one split fed whole (few float32 roundings of the record: tight bound); (d) two halves of a 2^21-sample stream added; "
              "(e) for streams of length <= 4: every composition with one zero-length push inserted before / between / after its chunks, "
              "and every split with a zero-length push first on the left and last on the right accumulator; "
              "x basic/full x 1..4 channels x data classes " + "/".join(CLASSES) + ".  A case is non-trivial if it pushes >= 2 samples; "
              "distinct = distinct (mode, class, history, stream)")
    R.trusted += ["Coq 8.16.1 kernel; vm_compute only in Examples, in the two refutation witnesses and in the correspondence",
                  "tools/py2coq/gen_c10.py (Python ast -> Gallina over Q and Z) and its assumed numba semantics: float arithmetic exact (Q), "
                  "int op int = int64 with wrap, store into the int32 count field wraps, whole-array statements act per channel",
                  "Model/C10_moments.v: ChannelStats glue (zero record, push_data dispatch, __add__, var/skew/kurtosis with the m2 != 0 "
                  "guards; std only as 'the non-negative root of var', sqrt itself is not modelled) written by hand; tied by structural "
                  "checks of stats.py in the translator and by the correspondence run",
                  "float32/float64 rounding and fastmath are not modelled: bounded by the tolerance of props/c10.py (docstring)"]
    R.assume += ["ChannelStats(nchans, nsamps) is built with nsamps = number of samples it will be fed (divisor of var: C06)",
                 "streams have >= 1 sample; sample values |x| <= 65535 (16-bit range; float classes |x| <= 1e4) and non-constant channels "
                 "have a spread >= 1e-3: outside this box the float32 sums leave float32's range -- for n*sigma^4 or n^2*sigma^4/16 above "
                 "3.4e38 (e.g. 1e6 float32 samples of sigma 1e7) m4 or the float32 power m2**2 overflows and kurtosis reads -3 or NaN, and "
                 "for a spread below ~1e-11 m2**2 underflows to 0 while m2 != 0 and kurtosis is NaN",
                 "every addition has at least one sample on one of its two sides: ChannelStats(n, 0) + ChannelStats(n, 0) sets mean = 0/0 = NaN, "
                 "which every later addition keeps (0 * NaN); hist_ok of Props/C10.v carries the same side condition",
                 "count < 2^31 (int32 field)"]
    R.prove("Props/C10.v")

    rng = R.rng
    orc = Oracle(R)
    corr = []     # (full, coq hist, impl record, tolerances, derived, derived tol)

    def do_case(h, X, mode, cls, label, want_corr, regime=None):
        n = h_count(h)
        s = run_impl(h, X, mode, ChannelStats)
        key = (mode, cls, repr(h), X.tobytes(), X.shape[1])
        R.case(key, nontrivial=n >= 2, regime=f"{regime or label}-{mode}",
               sample={"mode": mode, "class": cls, "history": repr(h), "stream": X[:6].tolist(), "mean": s.mean.tolist()}
               if (n == 4 and len(R.samples) < 6 and label != "single") else None)
        orc.check(h, X, mode, s, label, cls)
        if want_corr:
            rng_ = h_range(h)
            npush, nadds = h_ops(h)
            for ch in range(X.shape[1]):
                col = X[:, ch].astype(np.float64)
                x = col[rng_[0]:rng_[1]]
                Rmax, D = float(np.abs(x).max()), float(x.max() - x.min())
                t = tol_case(n, npush, nadds, Rmax, D)
                mu, M2, M3, M4 = two_pass(x)
                rvar, tv, rskew, ts, rkurt, tk = stat_box(n, M2, M3, M4, t[1], t[2], t[3])
                iv, ik, isk, isd = float(s.var[ch]), float(s.kurtosis[ch]), float(s.skew[ch]), float(s.std[ch])
                if not all(map(math.isfinite, (iv, ik, isk, isd))):
                    continue
                ts2 = -1.0 if ts is None else (2 * abs(rskew) * ts + ts * ts) * 1.01 + 1e-30
                rstd, tsd = std_box(rvar, tv)
                tsd2 = (2 * rstd * tsd + tsd * tsd) * 1.01 + 1e-30         # |std^2 - var| when |std - sqrt(var)| <= tsd
                corr.append((mode != "basic", h_coq(h, col), rec_of(s, ch), t, (iv, ik, isk * isk, isd),
                             (tv, -1.0 if tk is None else tk, ts2, tsd2),
                             {"mode": mode, "class": cls, "label": label, "history": repr(h), "channel": ch, "stream": col.tolist()}))

    # ---- (a) + (b): exhaustive over short streams -----------------------------------------------
    nmax = 6 if quick else 10
    ci = 0
    for n in range(1, nmax + 1):
        comps = list(compositions(n))
        for cls in CLASSES:
            nch = 1 + (ci % 4)
            ci += 1
            X = make_stream(rng, cls, n, nch)
            for mode in ("basic", "full"):
                for conv in ("sample", "block"):
                    for parts in comps:
                        do_case(chain(0, parts, conv), X, mode, cls, "single", want_corr=(n <= 5 and conv == "sample" and nch <= 2))
                # every split point, second accumulator restarted at 0 / at its true index; sides chunked in one and in every way (n <= 4)
                for k in range(0, n + 1):
                    lc = list(compositions(k)) if n <= 4 else [[k] if k else [], ([1] * k)]
                    rc = list(compositions(n - k)) if n <= 4 else [[n - k] if n - k else [], ([1] * (n - k))]
                    for lp in lc:
                        for rp in rc:
                            for first in ((0, None) if k > 0 else (0,)):
                                a = chain(0, lp, "sample")
                                b = chain(k, rp, "sample", first_flag=first)
                                do_case(("add", a, b), X, mode, cls, "merge", want_corr=(n <= 4 and nch <= 2))
                # (e) zero-length pushes (push_data of an empty array) change nothing: one inserted at every position of every
                # composition; a zero-length push first on the left / last on the right side of every split.  The stream has
                # n >= 1 samples, so an addition never has two empty sides (R.assume: empty + empty is 0/0)
                if n <= 4:
                    for conv in ("sample", "block"):
                        for parts in comps:
                            for j in range(len(parts) + 1):
                                do_case(chain(0, parts[:j] + [0] + parts[j:], conv), X, mode, cls, "emptypush",
                                        want_corr=(conv == "sample" and nch <= 2), regime="single-emptypush")
                    for k in range(0, n + 1):
                        for lp in compositions(k):
                            for rp in compositions(n - k):
                                a = chain(0, [0] + lp, "sample")
                                b = chain(k, rp + [0], "sample", first_flag=0)
                                do_case(("add", a, b), X, mode, cls, "emptypush", want_corr=(n <= 3 and nch <= 2), regime="merge-emptypush")
    # ---- (c) random longer streams, random compositions and addition trees ----------------------
    nrand = 60 if quick else 4000

    def rand_parts(n):
        parts = []
        while n > 0:
            p = rng.choice([1, 1, 2, 3, rng.randrange(1, n + 1)])
            p = min(p, n)
            parts.append(p)
            n -= p
        return parts

    def rand_tree(i0, i1, depth):
        n = i1 - i0
        if depth == 0 or n <= 1 or rng.random() < 0.3:
            return chain(i0, rand_parts(n), rng.choice(["sample", "block"]), first_flag=0)
        k = rng.randrange(i0 + 1, i1)
        return ("add", rand_tree(i0, k, depth - 1), rand_tree(k, i1, depth - 1))

    for i in range(nrand):
        cls = CLASSES[i % len(CLASSES)]
        n = rng.randrange(7, 200 if quick else 600)
        nch = rng.randrange(1, 5)
        X = make_stream(rng, cls, n, nch)
        mode = "full" if i % 3 else "basic"
        do_case(chain(0, rand_parts(n), rng.choice(["sample", "block"])), X, mode, cls, "single", want_corr=(n <= 12 and nch == 1))
        do_case(rand_tree(0, n, 4), X, mode, cls, "merge", want_corr=(n <= 12 and nch == 1))
        # long chunks: the whole stream in one push, in two pushes, and split once between two accumulators fed whole -- few roundings
        # of the record (K = 1, 2, 3), where `tol_case` is N/K times tighter than the one-rounding-per-sample bound
        kk = rng.randrange(1, n)
        do_case(chain(0, [n], "sample"), X, mode, cls, "single", want_corr=False, regime="single-longchunk")
        do_case(chain(0, [kk, n - kk], "block"), X, mode, cls, "single", want_corr=False, regime="single-longchunk")
        do_case(("add", chain(0, [kk], "sample"), chain(kk, [n - kk], "sample", first_flag=rng.choice([0, None]))), X, mode, cls, "merge",
                want_corr=False, regime="merge-longchunk")
        # a push onto a sum
        k = rng.randrange(1, n)
        j = rng.randrange(k, n)
        base = ("add", chain(0, [k], "sample"), chain(k, [j - k], "sample", first_flag=0) if j > k else ("new",))
        if j < n:
            do_case(chain(j, rand_parts(n - j), "sample", base=base), X, mode, cls, "merge", want_corr=False)
    # ---- (d) long streams: two halves of 2^21 samples (integer arithmetic of the merge) ----------
    for li, (na, nb) in enumerate([(1 << 20, 1 << 20)] + ([] if quick else [(3 << 19, 1 << 19), (1 << 21, 1 << 20)])):
        n = na + nb
        # 1-bit data whose two halves have different means (p = 1/4 and 3/4): every merge term matters, all sums are exact integers
        bits = np.zeros((n, 1), dtype=np.uint8)
        bits[:na:4] = 1
        bits[na::4] = 1
        bits[na + 1::4] = 1
        bits[na + 2::4] = 1
        a = ChannelStats(1, na)
        b = ChannelStats(1, nb)
        step = 1 << 16
        for i0 in range(0, na, step):
            a.push_data(bits[i0:min(i0 + step, na)].ravel(), i0, mode="full")
        for i0 in range(na, n, step):
            b.push_data(bits[i0:min(i0 + step, n)].ravel(), i0 - na, mode="full")
        s = a + b
        x = bits[:, 0].astype(np.float64)
        mu, M2, M3, M4 = two_pass(x)
        # every chunk of 2^16 samples is accumulated in float64 and rounded to float32 once: 33 roundings of well-conditioned sums
        # (variance 3/16 in both halves, means 1/2 apart, no cancellation): first-order bound 33 u x condition (< 64) ~ 1.3e-4;
        # an int64 wrap of count**3 changes the kurtosis by O(1)
        rskew = math.sqrt(n) * M3 / M2 ** 1.5
        rkurt = n * M4 / M2 ** 2 - 3.0
        t0, tv, ts, tk = 1e-5, 1e-4 * M2 / n, 1e-3, 1e-3
        got = {"count": int(s.moments["count"][0]), "mean": float(s.mean[0]), "var": float(s.var[0]), "skew": float(s.skew[0]),
               "kurtosis": float(s.kurtosis[0])}
        exp = {"count": n, "mean": mu, "var": M2 / n, "skew": rskew, "kurtosis": rkurt}
        R.case(("long", na, nb), regime="long-merge-full", sample={"long": [na, nb], "got": got, "expected": exp})
        ok = (got["count"] == n and all(math.isfinite(v) for v in got.values()) and abs(got["mean"] - mu) <= t0
              and abs(got["var"] - M2 / n) <= tv and abs(got["skew"] - rskew) <= ts and abs(got["kurtosis"] - rkurt) <= tk)
        if not ok:
            R.fail("merge-count-overflow", "adding two accumulators with more than 2^21 samples in total gives wrong higher moments",
                   {"na": na, "nb": nb, "data": "1-bit, ones at i%4==0 in the first half and i%4!=3 in the second", "got": got, "expected": exp,
                    "tolerance": {"mean": t0, "var": tv, "skew": ts, "kurtosis": tk}})
    R.extra_cov["oracle_error_over_bound_max"] = {k: round(v, 4) for k, v in orc.maxratio.items() if k in ("mean", "var", "std", "skew", "kurtosis")}
    R.extra_cov["oracle_channels_compared"] = orc.compared
    R.extra_cov["oracle_ill_conditioned_skipped"] = orc.illcond

    # ---- correspondence: model (vm_compute) vs implementation -----------------------------------
    R.need(["Model/C10_moments.vo"])
    per = 300
    limit = 1200 if quick else 6000
    if len(corr) > limit:
        # the histories with zero-length pushes (count / min / max / sums against the model's HPush f []) keep a quarter of the budget
        ep = [i for i, c in enumerate(corr) if c[6]["label"] == "emptypush"]
        ot = [i for i, c in enumerate(corr) if c[6]["label"] != "emptypush"]
        nep = min(len(ep), limit // 4)
        keep = sorted(rng.sample(ep, nep) + rng.sample(ot, min(len(ot), limit - nep)))
        corr = [corr[i] for i in keep]
    R.extra_cov["correspondence_emptypush_cases"] = sum(1 for c in corr if c[6]["label"] == "emptypush")
    total_bad = 0
    for si in range(0, len(corr), per):
        sh = corr[si:si + per]
        lines = [CORR_HEAD, "Definition cases : list (bool * hist * (Z * Q * Q * Q * Q * Q * Q) * (Q * Q * Q * Q) * (Q * Q * Q * Q) * (Q * Q * Q * Q)) := ["]
        rows = []
        for full, hc, rec, t, der, dt, _ in sh:
            rows.append(f"({'true' if full else 'false'}, {hc}, (({rec[0]})%Z, " + ", ".join(qlit(v) for v in rec[1:]) + "), ("
                        + ", ".join(qlit(v) for v in t) + "), (" + ", ".join(qlit(v) for v in der) + "), (" + ", ".join(qlit(v) for v in dt) + "))")
        lines.append(";\n".join(rows))
        lines.append("].")
        lines.append(CORR_TAIL)
        rc, out = vlib.coq_run(f"c10_{si // per}", "\n".join(lines), timeout=300)
        n, badidx = parse_idx(out)
        if rc != 0 or n is None:
            R.red.append("correspondence: Corr/c10 did not evaluate: " + out[-400:])
            continue
        R.extra_cov["traces_validated_against_impl"] = R.extra_cov.get("traces_validated_against_impl", 0) + n
        for bi in badidx[:5]:
            R.disagree("model (exact arithmetic) and ChannelStats differ by more than the float32 bound, or in count/min/max", sh[bi][6])
        total_bad += len(badidx)
    # kernel level: add_online_moments on hand-built records with large counts (validates the int64 / int32 wrap model)
    kc = []
    big = [(5, 7), (1000, 3), (46341, 46341), (1 << 20, 1 << 20), ((1 << 20) + 12345, 1 << 20), (1 << 21, 1 << 21), (3000000, 5),
           (1 << 22, 1 << 20), (40000000, 30000000), (0, 9), (9, 0)]
    for na, nb in big:
        for va, vb in ((0.0, 1.0), (2.5, -1.5)):
            a = np.zeros(1, dtype=kernels.moments_dtype)
            b = np.zeros(1, dtype=kernels.moments_dtype)
            c = np.zeros(1, dtype=kernels.moments_dtype)
            # records of na samples spread like a two-point distribution around va / vb
            for r, n_, v in ((a, na, va), (b, nb, vb)):
                r["count"] = n_
                if n_:
                    r["m1"], r["m2"], r["m3"], r["m4"] = v, 0.25 * n_, 0.03125 * n_, 0.125 * n_
                    r["min"], r["max"] = v - 1, v + 1
            kernels.add_online_moments(a, b, c)
            vals = rec_of_rec(c[0])
            if not all(math.isfinite(v) for v in vals[1:]):
                continue
            kc.append((rec_of_rec(a[0]), rec_of_rec(b[0]), vals))
            R.case(("kmerge", na, nb, va), regime="kernel-merge-large-counts")
    if kc:
        def st(r):
            return f"(MkSt ({r[0]})%Z " + " ".join(qlit(v) for v in r[1:]) + ")"
        txt = (KCORR_HEAD + "Definition cases : list (mst * mst * (Z * Q * Q * Q * Q * Q * Q)) := [\n"
               + ";\n".join(f"({st(a)}, {st(b)}, (({c[0]})%Z, " + ", ".join(qlit(v) for v in c[1:]) + "))" for a, b, c in kc) + "\n].\n" + CORR_TAIL)
        rc, out = vlib.coq_run("c10_k", txt, timeout=300)
        n, badidx = parse_idx(out)
        if rc != 0 or n is None:
            R.red.append("correspondence: Corr/c10_k did not evaluate: " + out[-400:])
        else:
            R.extra_cov["traces_validated_against_impl"] = R.extra_cov.get("traces_validated_against_impl", 0) + n
            for bi in badidx[:5]:
                R.disagree("generated add_online_moments (with int64/int32 wraps) and the compiled kernel differ on hand-built records",
                           {"a": kc[bi][0], "b": kc[bi][1], "impl": kc[bi][2]})
    # which regime the regenerated code is in (informative; the dichotomy theorems of Props/C10.v hold in either)
    probe = ("From Coq Require Import ZArith QArith List Bool.\nRequire Import SPP.Model.C10_rt SPP.Gen.Moments SPP.Model.C10_moments.\n"
             "Import ListNotations.\nOpen Scope Q_scope.\n"
             "Eval vm_compute in (compute_online_moments_init 7 0 1, Qeq_bool (s_min (merge zero_st (MkSt 1 5 0 0 0 5 5))) 5,\n"
             "  Qle_bool 0 (s_m4 (merge (MkSt (2^20) 0 0 0 0 0 0) (MkSt (2^20) 1 0 0 0 1 1)))).\n")
    rc, out = vlib.coq_run("c10_p", probe, timeout=120)
    vals = vlib.parse_eval(out)
    if rc == 0 and vals:
        R.notes.append("regime of the regenerated code (min/max initialised by emptiness, empty operand neutral for min/max, "
                       "merge free of int64 overflow at 2^21 samples) = " + vals[-1])
    R.extra_cov["correspondence_cases"] = len(corr) + len(kc)
    return R


def rec_of_rec(r):
    return (int(r["count"]), float(r["m1"]), float(r["m2"]), float(r["m3"]), float(r["m4"]), float(r["min"]), float(r["max"]))


# ---------------------------------------------------------------------------------------------------
# at-scale search (check.py calls scale(R) in the thorough tier, with VERIF_SCALE=1, and whenever something no longer checks
# and run(R) found no small failing input)
# ---------------------------------------------------------------------------------------------------
# Tolerance at scale.  compute_online_moments(_basic) loads the float32 record into float64 locals, updates them once per
# sample in float64 and rounds the record to float32 once per push_data; add_online_moments evaluates its formulas in
# float64 and rounds once.  The bound of the docstring is therefore taken with K = pushes + additions roundings of the
# record instead of one per sample (N^2 -> n*K, N -> K; with one-sample chunks K = n and it is the small-scope bound
# again), plus n float64 updates counted as n * 2^-29 float32 roundings.  Counts, minima and maxima stay exact.

S_U8 = ("steps", "1bit-step", "2bit", "constant", "8bit", "spikes")
S_F32 = ("steps", "wide", "offset", "constant", "smallint-drift", "negative")
S_KINDS = {"u8-steps": 0, "f32-steps": 1, "u8-mixed": 2, "f32-mixed": 3, "u16-steps": 4, "i8-steps": 5}


def scale_stream(seed, kind, n, nch):
    """the stream of an at-scale case, shape (n, nch) in C order; deterministic in (seed, kind, n, nch) -- replays call this.
    'u8-steps' / 'f32-steps' / 'u16-steps' / 'i8-steps': every channel is noise on three plateaus (steps at n//3 and 3n//4), so that the two parts of any
    split differ in mean and every term of the merge matters; uint8 values cover 0..255.  'u8-mixed' / 'f32-mixed': channel c
    is of class S_U8[c % 6] / S_F32[c % 6] (the data classes of the small-scope oracle: |x| <= 1e4, spread >= 1e-3 or constant)."""
    n, nch = int(n), int(nch)
    g = np.random.default_rng([int(seed), 1010, S_KINDS[kind], n, nch])
    a, b, h = n // 3, (3 * n) // 4, n // 2

    def u8_steps(m):
        Y = g.integers(0, 157, (n, m), dtype=np.uint8)
        Y[a:] += np.uint8(40)
        Y[b:] += np.uint8(59)
        return Y

    def f32_steps(m):
        Y = g.standard_normal((n, m), dtype=np.float32)
        Y *= np.float32(2.0)
        Y += np.float32(10.0)
        Y[a:] += np.float32(5.0)
        Y[b:] -= np.float32(12.5)
        return Y

    if kind == "u8-steps":
        return u8_steps(nch)
    if kind == "u16-steps":            # 16-bit files: three plateaus, values cover 0..65534
        Y = g.integers(0, 40000, (n, nch), dtype=np.uint16)
        Y[a:] += np.uint16(15000)
        Y[b:] += np.uint16(10535)
        return Y
    if kind == "i8-steps":             # signed 8-bit: three plateaus, values cover -128..126
        Y = g.integers(-128, 28, (n, nch), dtype=np.int8)
        Y[a:] += np.int8(40)
        Y[b:] += np.int8(59)
        return Y
    if kind == "f32-steps":
        return f32_steps(nch)
    if kind == "u8-mixed":
        X = np.zeros((n, nch), dtype=np.uint8)
        for ci, cls in enumerate(S_U8):
            m = len(range(ci, nch, 6))
            if m == 0:
                continue
            if cls == "steps":
                Y = u8_steps(m)
            elif cls == "1bit-step":           # p = 1/4 in the first half, 3/4 in the second
                r = g.integers(0, 4, (n, m), dtype=np.uint8)
                Y = np.empty((n, m), dtype=np.uint8)
                Y[:h] = r[:h] == 0
                Y[h:] = r[h:] != 0
            elif cls == "2bit":
                Y = g.integers(0, 4, (n, m), dtype=np.uint8)
            elif cls == "constant":
                Y = np.broadcast_to(np.array([0, 1, 7, 255], dtype=np.uint8)[np.arange(m) % 4], (n, m))
            elif cls == "8bit":
                Y = g.integers(1, 256, (n, m), dtype=np.uint16).astype(np.uint8)
            else:                              # rare full-scale spikes on a zero baseline (large kurtosis)
                Y = (g.integers(0, 1000, (n, m), dtype=np.uint16) == 0).astype(np.uint8) * np.uint8(255)
            X[:, ci::6] = Y
        return X
    if kind == "f32-mixed":
        X = np.zeros((n, nch), dtype=np.float32)
        for ci, cls in enumerate(S_F32):
            m = len(range(ci, nch, 6))
            if m == 0:
                continue
            if cls == "steps":
                Y = f32_steps(m)
            elif cls == "wide":
                Y = ((g.random((n, m)) * 2 - 1) * 10.0 ** g.integers(-2, 5, (n, m))).astype(np.float32)
            elif cls == "offset":
                Y = (np.array([100.0, 1000.0, -500.0])[np.arange(m) % 3] + g.integers(0, 8, (n, m)) * 0.25).astype(np.float32)
            elif cls == "constant":
                Y = np.broadcast_to(np.array([0, 1, 5, 200, -3], dtype=np.float32)[np.arange(m) % 5], (n, m))
            elif cls == "smallint-drift":
                Y = g.integers(-9, 10, (n, m)).astype(np.float32)
                Y[h:] += np.float32(6.0)
            else:
                Y = (-g.integers(1, 60, (n, m)) - 0.5 * g.integers(0, 2, (n, m))).astype(np.float32)
            X[:, ci::6] = Y
        return X
    raise ValueError(kind)


def scale_eval(desc, X, mode, ChannelStats, tick=None):
    """evaluate an at-scale history with the implementation; returns (ChannelStats, pushes, additions).  desc is one of
    ("chunks", gulp, conv, flag_off)         one accumulator fed consecutive chunks of `gulp` samples; start index = flag_off + sample
                                             index (conv "sample") or + block number (conv "block", as Filterbank.compute_stats does)
    ("split", k, gulp, conv, first0, swap)   samples [0,k) and [k,n) to two accumulators (each chunked), the second started at
                                             index 0 (first0) or at its true index; then a + b (swap: b + a)
    ("blocks", gulp, "fold" | "tree")        every block of `gulp` samples to its own accumulator; left fold / balanced tree of additions
    ("sum-push", k, j, gulp)                 (acc[0,k) + acc[k,j)), then the rest of the stream pushed onto the sum"""
    n, nch = X.shape
    ops = [0, 0]

    def acc(i0, i1, gulp, conv, first_flag=None, flag_off=0, base=None):
        if base is None:
            s = ChannelStats(nch, i1 - i0)
        else:
            s = ChannelStats(nch, base.nsamps + i1 - i0)
            s.moments[:] = base.moments          # continue pushing onto the sum (same record, larger nsamps), as run_impl does
        bi = 0
        for pos in range(i0, i1, gulp):
            flag = (pos if conv == "sample" else bi) + flag_off
            if bi == 0 and first_flag is not None:
                flag = first_flag
            if tick is not None and bi % 1024 == 0:
                tick()
            s.push_data(X[pos:min(pos + gulp, i1)].ravel(), flag, mode=mode)
            bi += 1
        ops[0] += bi
        return s

    kind = desc[0]
    if kind == "chunks":
        _, gulp, conv, flag_off = desc
        s = acc(0, n, gulp, conv, flag_off=flag_off)
    elif kind == "split":
        _, k, gulp, conv, first0, swap = desc
        a = acc(0, k, gulp, conv)
        b = acc(k, n, gulp, conv, first_flag=0 if first0 else None)
        s = (b + a) if swap else (a + b)
        ops[1] += 1
    elif kind == "blocks":
        _, gulp, shape = desc
        accs = [acc(pos, min(pos + gulp, n), gulp, "sample", first_flag=0 if (pos // gulp) % 2 else None) for pos in range(0, n, gulp)]
        ops[1] += len(accs) - 1
        if shape == "fold":
            s = accs[0]
            for i, t in enumerate(accs[1:]):
                if tick is not None and i % 256 == 0:
                    tick()
                s = s + t
        else:
            while len(accs) > 1:
                if tick is not None:
                    tick()
                accs = [accs[i] + accs[i + 1] if i + 1 < len(accs) else accs[i] for i in range(0, len(accs), 2)]
            s = accs[0]
    elif kind == "sum-push":
        _, k, j, gulp = desc
        base = acc(0, k, gulp, "sample") + acc(k, j, gulp, "sample", first_flag=0)
        ops[1] += 1
        s = acc(j, n, gulp, "sample", base=base)
    else:
        raise ValueError(desc)
    return s, ops[0], ops[1]


def _s_ref(X):
    """float64 two-pass statistics of every channel (the definitions of two_pass, vectorised): dict of arrays of length nch"""
    n = X.shape[0]
    mn, mx = X.min(axis=0).astype(np.float64), X.max(axis=0).astype(np.float64)
    Xt = np.ascontiguousarray(X.T, dtype=np.float64)        # (nch, n): pairwise summation along the samples
    mu = Xt.sum(axis=1) / n
    Xt -= mu[:, None]
    P = Xt * Xt
    M2 = P.sum(axis=1)
    P *= Xt
    M3 = P.sum(axis=1)
    P *= Xt
    M4 = P.sum(axis=1)
    del P, Xt
    return {"n": n, "mu": mu, "M2": M2, "M3": M3, "M4": M4, "min": mn, "max": mx, "R": np.maximum(np.abs(mn), np.abs(mx)), "D": mx - mn}


def _s_tol(n, K, Rm, D):
    """error bound for n samples accumulated with K roundings of the record to float32 (vectorised over channels); see above"""
    Ke = K + n * 2.0 ** -29
    E1 = Ke * U * Rm
    E2 = Ke * U * n * D * (D / 4 + Rm / 2)
    E3 = Ke * U * n * D ** 2 * (D + 1.5 * Rm)
    E4 = Ke * U * n * D ** 3 * (2.75 * D + 5 * Rm)
    tiny = 1e-30
    return 4 * E1 + tiny, 4 * E2 + tiny, 4 * E3 + tiny, 4 * E4 + tiny


def _s_box(n, M2, M3, M4, t2, t3, t4):
    """`stat_box` vectorised: reference var / skew / kurtosis, their tolerances, and the mask of ill-conditioned channels"""
    var = M2 / n
    tv = t2 / n + 4 * U * np.abs(var)
    ill = (M2 <= 0) | (t2 >= M2 / 2)
    m2s = np.where(ill, 1.0, M2)
    t2s = np.where(ill, 0.0, t2)
    rn = math.sqrt(n)
    skew = rn * M3 / m2s ** 1.5
    kurt = n * M4 / m2s ** 2 - 3.0
    ds = np.zeros_like(var)
    dk = np.zeros_like(var)
    for s2 in (-1, 1):
        m2 = m2s + s2 * t2s
        for s3 in (-1, 1):
            ds = np.maximum(ds, np.abs(rn * (M3 + s3 * t3) / m2 ** 1.5 - skew))
            dk = np.maximum(dk, np.abs(n * (M4 + s3 * t4) / m2 ** 2 - 3.0 - kurt))
    return var, tv, skew, ds + 16 * U * np.abs(skew) + 1e-30, kurt, dk + 16 * U * (np.abs(kurt) + 3) + 1e-30, ill


def _s_compare(R, s, n, full, ref, tols, case, kind, mode, ratios):
    """the oracle at scale: count / minima / maxima exact, constants exact, finiteness, mean / var / skew / kurtosis within the bound.
    ref: dict of per-channel float64 arrays (mu, M2, M3, M4, min, max, D); tols: (t1, t2, t3, t4).  Reports the first bad channel."""
    def ch_of(mask):
        return int(np.argmax(mask))

    cnt = np.asarray(s.moments["count"])
    if not np.all(cnt == n):
        c = ch_of(cnt != n)
        R.fail("scale-count", "count differs from the number of samples pushed (at scale)", dict(case, channel=c, got=int(cnt[c]), expected=int(n)))
    mn, mx = np.asarray(s.minima, dtype=np.float64), np.asarray(s.maxima, dtype=np.float64)
    badmm = (mn != ref["min"]) | (mx != ref["max"])
    if badmm.any():
        c = ch_of(badmm)
        R.fail("scale-minmax", "minima/maxima differ from the minimum/maximum of the samples pushed (at scale)",
               dict(case, channel=c, got=[float(mn[c]), float(mx[c])], expected=[float(ref["min"][c]), float(ref["max"][c])], channels_bad=int(badmm.sum())))
    mean, var = np.asarray(s.mean, dtype=np.float64), np.asarray(s.var, dtype=np.float64)
    skew, kurt = np.asarray(s.skew, dtype=np.float64), np.asarray(s.kurtosis, dtype=np.float64)
    std = np.asarray(s.std, dtype=np.float64)
    for name, arr in (("mean", mean), ("var", var), ("std", std), ("skew", skew), ("kurtosis", kurt)):
        nf = ~np.isfinite(arr)
        if nf.any():
            c = ch_of(nf)
            R.fail("scale-nonfinite", f"{name} is NaN or infinite for finite input (at scale)", dict(case, channel=c, stat=name, got=float(arr[c])))
            return
    t1, t2, t3, t4 = tols
    rvar, tv, rskew, ts, rkurt, tk, ill = _s_box(n, ref["M2"], ref["M3"], ref["M4"], t2, t3, t4)
    const = ref["D"] == 0.0
    badc = const & ((var != 0.0) | (skew != 0.0))
    if badc.any():
        c = ch_of(badc)
        R.fail("scale-constant", "constant channel reports non-zero variance or skewness (at scale)",
               dict(case, channel=c, var=float(var[c]), skew=float(skew[c])))
    # std = sqrt(var): compared with the square root of the two-pass variance on the interval of admissible variances; 0 for constants
    rstd = np.sqrt(np.maximum(rvar, 0.0))
    tsd = rstd - np.sqrt(np.maximum(rvar - tv, 0.0)) + 4 * U * rstd + 1e-30
    bads = (const & (std != 0.0)) | (~const & (np.abs(std - rstd) > tsd))
    if (~const).any():
        ratios["std"] = max(ratios.get("std", 0.0), float((np.abs(std - rstd)[~const] / tsd[~const]).max()))
    if bads.any():
        c = ch_of(bads)
        R.fail("scale-std", "std differs from the square root of the two-pass variance by more than the float32 accumulation bound "
               "(or is non-zero for a constant channel) (at scale)",
               dict(case, channel=c, got=float(std[c]), expected=float(rstd[c]), tolerance=float(tsd[c]), var=float(var[c]), channels_bad=int(bads.sum())))
    checks = [("mean", np.abs(mean - ref["mu"]), t1, np.ones_like(const)), ("var", np.abs(var - rvar), tv, ~const)]
    if full:
        checks += [("skew", np.abs(skew - rskew), ts, ~const & ~ill), ("kurtosis", np.abs(kurt - rkurt), tk, ~const & ~ill)]
        ratios["ill-conditioned"] = ratios.get("ill-conditioned", 0) + int((~const & ill).sum())
    ratios["compared"] = ratios.get("compared", 0) + int(const.size)
    bad = np.zeros_like(const)
    for name, err, tol, mask in checks:
        if mask.any():
            ratios[name] = max(ratios.get(name, 0.0), float((err[mask] / tol[mask]).max()))
        bad |= mask & (err > tol)
    if bad.any():
        c = ch_of(bad)
        got = {"mean": mean, "var": var, "skew": skew, "kurtosis": kurt}
        exp = {"mean": ref["mu"], "var": rvar, "skew": rskew, "kurtosis": rkurt}
        diffs = [{"stat": name, "got": float(got[name][c]), "expected": float(exp[name][c]), "tolerance": float(tol[c])}
                 for name, err, tol, mask in checks if mask[c] and err[c] > tol[c]]
        R.fail(f"scale-moments-{kind}-{mode}",
               "statistics differ from the float64 two-pass definitions by more than the float32 accumulation bound (at scale)",
               dict(case, channel=c, channels_bad=int(bad.sum()), diffs=diffs))


def scale_bernoulli(n, k, v0, sc):
    """exact record (count, m1..m4, min, max) of n samples of which k have the value v0 + sc and n - k the value v0"""
    if n == 0:
        return (0, Fraction(0), Fraction(0), Fraction(0), Fraction(0), 0.0, 0.0)
    v0, sc = Fraction(v0), Fraction(sc)
    vals = ([v0] if k < n else []) + ([v0 + sc] if k > 0 else [])
    return (n, v0 + sc * Fraction(k, n), sc ** 2 * Fraction(k * (n - k), n), sc ** 3 * Fraction(k * (n - k) * (n - 2 * k), n * n),
            sc ** 4 * Fraction(k * (n - k) * (n * n - 3 * n * k + 3 * k * k), n ** 3), float(min(vals)), float(max(vals)))


S_PAIRS = [(46341, 46341), (55109, 55109), (65535, 65537), (1000, 1 << 18), ((1 << 18) + 1, 1 << 18), (1 << 20, 1 << 20),
           (1 << 21, (1 << 21) + 7), (1 << 22, 3), ((1 << 24) - 1, (1 << 24) + 1), (1 << 26, 1 << 25), (40000000, 30000000),
           (1 << 30, (1 << 30) - 1), ((1 << 31) - 2, 1), (1, (1 << 31) - 2), (1290, (1 << 31) - 1291), (3 << 29, (1 << 29) - 1),
           (0, 1 << 30), ((1 << 30) + 5, 0)]
S_FRACS = [((1, 4), (3, 4)), ((1, 2), (1, 8)), ((0, 1), (1, 1)), ((1, 3), (1, 3)), ((7, 8), (1, 16))]
S_LEVELS = [(0.0, 1.0), (-3.0, 2.5), (100.0, 0.25), (0.0, 255.0), (5.0, -1.5)]


def scale_records(na, nb):
    """hand-built operands for a merge with counts (na, nb): channel i holds two-valued data (scale_bernoulli) with the fractions
    S_FRACS[i // 5] of high samples in the two operands and (base, step) = S_LEVELS[i % 5]; returns (a, b, union) as lists of exact records"""
    A, B, C = [], [], []
    for (pa, pb) in S_FRACS:
        ka, kb = na * pa[0] // pa[1], nb * pb[0] // pb[1]
        for v0, sc in S_LEVELS:
            A.append(scale_bernoulli(na, ka, v0, sc))
            B.append(scale_bernoulli(nb, kb, v0, sc))
            C.append(scale_bernoulli(na + nb, ka + kb, v0, sc))
    return A, B, C


def _s_fill(moments, recs):
    for f, j in (("count", 0), ("m1", 1), ("m2", 2), ("m3", 3), ("m4", 4), ("min", 5), ("max", 6)):
        moments[f] = [float(r[j]) if j else r[j] for r in recs]


def scale(R: vlib.Run):
    """at-scale search (uint8 / float32 data; 16-bit and signed 8-bit streams of 2^16 + 1 and 200000 samples): pushes of 2^16 .. 2^24 elements, streams of up to 2^24 + 70001 samples per channel chunked at 16384 / a
    non-dividing gulp / above 65536, 70000-push and 2000-addition histories, 4096 .. 2^18+1 channels, merges of operands with up
    to 2^31 - 1 samples.  Data are regenerated from (seed, kind, n, nch) by scale_stream; histories are replayed by scale_eval."""
    from sigpyproc.core import kernels
    from sigpyproc.core.stats import ChannelStats

    seed = R.seed + 1010
    ratios = {}

    def do_stream(kind, n, nch, plan):
        """plan: list of (desc, modes)"""
        sdesc = {"kind": kind, "n": int(n), "nchans": int(nch), "seed": seed,
                 "generator": "props/c10.py scale_stream(seed, kind, n, nchans)"}
        X = scale_stream(seed, kind, n, nch)
        ref = _s_ref(X)
        try:
            for desc, modes in plan:
                for mode in modes:
                    case = {"stream": sdesc, "mode": mode, "history": list(desc),
                            "replay": "props/c10.py scale_eval(history, X, mode, ChannelStats); oracle: two-pass float64 per channel"}
                    R.tick(case)
                    R.case(("scale", kind, n, nch, mode) + tuple(desc), regime="scale")
                    try:
                        s, npush, nadds = scale_eval(desc, X, mode, ChannelStats, tick=lambda: R.tick(case))
                    except Exception as e:  # noqa: BLE001
                        R.fail("scale-exception", f"ChannelStats raised at scale: {type(e).__name__}: {str(e)[:120]}", case)
                        continue
                    case = dict(case, pushes=npush, additions=nadds)
                    tols = _s_tol(n, npush + nadds, ref["R"], ref["D"])
                    _s_compare(R, s, n, mode != "basic", ref, tols, case, "merge" if nadds else "chunking", mode, ratios)
                    del s
        finally:
            del X, ref

    both = ("basic", "full")
    # ---- (1) element count of one push around 2^16 .. 2^24, 1 and 16 channels; and the same stream split in two halves -------
    for k in (16, 18, 20, 22, 24):
        for nch in (1, 16):
            for off in (-1, 0, 1):
                n = (1 << k) // nch + off
                kinds = ["u8-steps"] + (["f32-steps"] if (k <= 22 or (nch == 16 and off == 1)) else [])
                for kind in kinds:
                    do_stream(kind, n, nch, [(("chunks", n, "sample", 0), both), (("split", n // 2, n, "sample", False, False), both)])
    # ---- (2) long streams: gulp 16384 / non-dividing / above 65536, both index conventions, splits, blocks, push onto a sum ----
    for kind, n, nch, heavy in (("u8-mixed", 300000, 6, False), ("f32-mixed", 200000, 6, False), ("u8-mixed", 70000, 64, False),
                                ("f32-steps", (1 << 22) + 12345, 2, True), ("u8-steps", (1 << 24) + 70001, 1, True)):
        plan = [(("chunks", 16384, "sample", 0), both), (("chunks", 10007, "block", 0), both), (("chunks", 70001, "sample", 0), both),
                (("chunks", 65536, "block", 0), both), (("chunks", 16384, "sample", 1 << 33), both),
                (("split", n // 2, 16384, "sample", False, False), both), (("split", n // 4, 16384, "block", True, True), both),
                (("split", 55109, 10007, "sample", True, False), both), (("split", n - 1000, 70001, "sample", False, False), both),
                (("sum-push", n // 3, (2 * n) // 3, 16384), both), (("blocks", 16384, "fold"), ("full",)), (("blocks", 16384, "tree"), both)]
        if not heavy:
            plan += [(("split", 1000, 16384, "sample", False, True), both), (("split", 0, 16384, "sample", True, False), both),
                     (("split", n, 16384, "sample", False, False), both), (("blocks", 1000, "tree"), ("full",))]
        do_stream(kind, n, nch, plan)
    # ---- (2b) 16-bit and signed 8-bit streams (separate numba specialisations of the kernels; 16-bit values up to 65534) ----------
    for kind, n, nch in (("u16-steps", (1 << 16) + 1, 1), ("u16-steps", 200000, 4), ("i8-steps", 200000, 4)):
        do_stream(kind, n, nch, [(("chunks", n, "sample", 0), both), (("chunks", 16384, "sample", 0), both), (("chunks", 10007, "block", 0), both),
                                 (("split", n // 2, 16384, "sample", False, False), both), (("split", n // 4, 70001, "block", True, True), both),
                                 (("sum-push", n // 3, (2 * n) // 3, 16384), both), (("blocks", 16384, "tree"), both),
                                 (("blocks", 1000, "fold"), ("full",))])
    # ---- (3) many channels (4096; 65537: a 16-bit channel index wraps; 2^18 + 1) ----------------------------------------------
    for kind, n, nch in (("u8-mixed", 600, 4096), ("f32-mixed", 40, 65537), ("u8-mixed", 20, (1 << 18) + 1)):
        g = max(1, n // 37)
        do_stream(kind, n, nch, [(("chunks", n, "sample", 0), both), (("chunks", g, "block", 0), both), (("chunks", 7, "sample", 0), both),
                                 (("split", n // 2, n, "sample", False, False), both), (("split", n // 3, 7, "sample", True, True), both),
                                 (("blocks", max(7, n // 8), "tree"), ("full",))])
    # ---- (4) long histories: 70000 pushes (block numbers above 65535), thousands of additions ----------------------------------
    do_stream("u8-mixed", 210000, 2, [(("chunks", 3, "block", 0), both), (("chunks", 3, "sample", 0), ("full",)),
                                      (("blocks", 100, "fold"), ("full",)), (("blocks", 100, "tree"), ("basic",))])
    R.extra_cov["scale_error_over_bound_max"] = {k: (round(v, 4) if isinstance(v, float) else v) for k, v in ratios.items()}

    # ---- (5) merges of hand-built operands with up to 2^31 - 1 samples (two-valued data: the union is known exactly) -----------
    kratios = {}
    for na, nb in S_PAIRS:
        A, B, C = scale_records(na, nb)
        nchk = len(A)
        n = na + nb
        case = {"na": na, "nb": nb, "operands": "props/c10.py scale_records(na, nb): two-valued data, fractions S_FRACS[i // 5], levels S_LEVELS[i % 5]"}
        R.tick(case)
        R.case(("scale", "records", na, nb), regime="scale")
        a, b = ChannelStats(nchk, na), ChannelStats(nchk, nb)
        _s_fill(a.moments, A)
        _s_fill(b.moments, B)
        ref = {"mu": np.array([float(r[1]) for r in C]), "M2": np.array([float(r[2]) for r in C]), "M3": np.array([float(r[3]) for r in C]),
               "M4": np.array([float(r[4]) for r in C]), "min": np.array([r[5] for r in C]), "max": np.array([r[6] for r in C])}
        ref["D"] = ref["max"] - ref["min"]
        Rm = np.array([max(abs(v0), abs(v0 + sc)) for _ in S_FRACS for v0, sc in S_LEVELS])
        Dm = np.array([abs(sc) for _ in S_FRACS for v0, sc in S_LEVELS])
        # operands and result are rounded to float32 once; first-order propagation through the merge formulas: <= 6 u n D^(k-1) (D + R)
        tk = [4 * U * Rm + 1e-30] + [32 * U * n * Dm ** (j - 1) * (Dm + Rm) + 1e-30 for j in (2, 3, 4)]
        for swap in (False, True):
            cs = dict(case, order="b + a" if swap else "a + b")
            try:
                s = (b + a) if swap else (a + b)
                c2 = np.zeros(nchk, dtype=kernels.moments_dtype)
                if swap:
                    kernels.add_online_moments(b.moments, a.moments, c2)
                else:
                    kernels.add_online_moments(a.moments, b.moments, c2)
            except Exception as e:  # noqa: BLE001
                R.fail("scale-exception", f"merge raised at scale: {type(e).__name__}: {str(e)[:120]}", cs)
                continue
            if s.moments.tobytes() != c2.tobytes():
                R.fail("scale-merge-records", "ChannelStats.__add__ and add_online_moments differ on the same operands", cs)
            for j, f in ((1, "m1"), (2, "m2"), (3, "m3"), (4, "m4")):
                got = np.asarray(s.moments[f], dtype=np.float64)
                exp = np.array([float(r[j]) for r in C])
                err = np.abs(got - exp)
                okf = np.isfinite(got)
                kratios[f] = max(kratios.get(f, 0.0), float((err[okf] / tk[j - 1][okf]).max()) if okf.any() else 0.0)
                badf = ~okf | (err > tk[j - 1])
                if badf.any():
                    c = int(np.argmax(badf))
                    R.fail("scale-merge-records", "merged central sums differ from the sums of the union of the two data sets (large counts)",
                           dict(cs, channel=c, field=f, got=float(got[c]), expected=float(exp[c]), tolerance=float(tk[j - 1][c]),
                                a=[float(x) for x in A[c]], b=[float(x) for x in B[c]]))
                    break
            _s_compare(R, s, n, True, ref, tuple(tk), cs, "merge", "records", kratios)
    # the same operands side by side in one wide record array (more than 65536 channels in one merge)
    wide = [(na, nb, i) for na, nb in S_PAIRS for i in range(len(S_FRACS) * len(S_LEVELS))]
    reps = 70000 // len(wide) + 1
    rec = {}
    for na, nb in S_PAIRS:
        rec[(na, nb)] = scale_records(na, nb)
    nw = len(wide) * reps
    case = {"merge": "all scale_records(na, nb) for (na, nb) in S_PAIRS side by side, repeated", "channels": nw}
    R.tick(case)
    R.case(("scale", "records-wide", nw), regime="scale")
    a, b, c = (np.zeros(nw, dtype=kernels.moments_dtype) for _ in range(3))
    _s_fill(a, [rec[(na, nb)][0][i] for na, nb, i in wide] * reps)
    _s_fill(b, [rec[(na, nb)][1][i] for na, nb, i in wide] * reps)
    try:
        kernels.add_online_moments(a, b, c)
        one = np.zeros(len(wide), dtype=kernels.moments_dtype)
        pos = 0
        for na, nb in S_PAIRS:
            m = len(rec[(na, nb)][0])
            kernels.add_online_moments(a[pos:pos + m], b[pos:pos + m], one[pos:pos + m])
            pos += m
        if np.tile(one, reps).tobytes() != c.tobytes():
            diff = [i for i in range(nw) if c[i].tobytes() != one[i % len(wide)].tobytes()]
            R.fail("scale-merge-wide", "a merge of more than 65536 channels differs from the same merges done a few channels at a time",
                   dict(case, first_bad_channel=diff[0] if diff else None, channels_bad=len(diff)))
    except Exception as e:  # noqa: BLE001
        R.fail("scale-exception", f"add_online_moments raised on a wide record array: {type(e).__name__}: {str(e)[:120]}", case)
    R.extra_cov["scale_records_error_over_bound_max"] = {k: (round(v, 4) if isinstance(v, float) else v) for k, v in kratios.items()}
