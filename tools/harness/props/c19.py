"""C19 -- parallel kernels give the same answer for every thread count and schedule  (partial).

Proof (Props/C19.v): the body of the prange loop of every parallel=True kernel of kernels.py is regenerated, load by load and
store by store, by tools/py2coq/gen_c19.py (Gen/C19Threads.v); for each the footprint and the pairwise disjointness of the
footprints are proved, hence -- by the generic theorem of Proofs/C19_sched.v -- every interleaving ends in the memory of the
index-order sequential run.

Correspondence: the generated threads run sequentially and under random interleavings (vm_compute) versus `.py_func` on the
same inputs, and versus the functional kernels of Gen/Kernels.v (remove_zerodm included); the two decimators additionally versus the
COMPILED parallel kernels on the uint16 exact-mean cases of the sweep (all bin sizes, 6 output rows, exact integer division in the model).

Oracle (the property restated in Python, evaluated on the implementation):
  owner-*  : `.py_func` is run with `prange` replaced by a tracing range and every array replaced by a logging proxy; every
             location stored by an iteration of the parallel loop must be stored by that iteration only and loaded by no
             other ("each output element is computed from one thread only").  Also on the arguments Filterbank.subband
             really hands to kernels.subband.
  sched-*  : every compiled kernel under numba.set_num_threads(1..16) x set_parallel_chunksize{0,1,2,7} x repetitions x
             shapes from 1x1 to iterations >> threads must be bit-identical to `.py_func` on exact-arithmetic data (a NumPy
             restatement on the same data only confirms exactness; a difference there is reported as a note).  (This is the runtime part no model can express: the property is PARTIAL for it.)
             Output AND the other array arguments are compared.  Kernels without a declared signature (invert_freq, decimators,
             moments) also on uint16 (16-bit files); the moments on uint8/uint16/float32, and at sample counts 49, 98, 103, 107, 196
             with the second central sum on a float32 rounding tie (one float64 ulp in delta/n flips the stored field).
  sched-subband-callsite / subband-callsite-exception : the compiled call Filterbank.subband makes (8/32-bit files, with and
             without channel delays, one channel) against the Python definition on the same arguments; a sub-band count that
             does not divide the channels may only be rejected with ValueError."""
import os
import re
import shutil
import sys

# the property quantifies over thread counts 1..16: size numba's thread pool to 16 whatever the number of cores of this host
# (oversubscription is legal).  This only works while numba has not been imported yet; run() reports red if fewer are available.
if "numba" not in sys.modules:
    os.environ.setdefault("NUMBA_NUM_THREADS", "16")

import numpy as np

import vlib

CHUNKS = (0, 1, 2, 7)
FIELDS = ["count", "m1", "m2", "m3", "m4", "min", "max"]


# =================================================================================================
# data generators (integer valued, every partial sum exactly representable in float32)
# =================================================================================================
def ints(nprng, n, hi, dtype, signed=False):
    """n integers of [0, hi), or of [-(hi // 2), hi - hi // 2) when signed (float data: both signs)"""
    lo = hi // 2 if signed else 0
    return nprng.integers(-lo, hi - lo, n).astype(dtype)


def moments_data(nprng, nchans, nsamps, n0=0, mean0=None):
    """per channel x_n = mean_{n-1} + n * c_n : the running mean and all central sums stay integers"""
    x = np.zeros((nsamps, nchans), dtype=np.int64)
    mean = np.zeros(nchans, dtype=np.int64) if mean0 is None else mean0.copy()
    for t in range(nsamps):
        n = n0 + t + 1
        c = nprng.integers(0, 3, nchans) if n > 1 else nprng.integers(1, 40, nchans) - mean
        x[t] = mean + n * c
        mean = mean + c
    return x


def exact_moments(xs):
    """exact central sums of integer samples xs (k, nchans) whose mean is an integer"""
    n = xs.shape[0]
    s = xs.sum(0)
    assert np.all(s % n == 0)
    mu = s // n
    d = xs - mu
    return n, mu, (d ** 2).sum(0), (d ** 3).sum(0), (d ** 4).sum(0), xs.min(0), xs.max(0)


# =================================================================================================
# kernels: how to build a case, call it, and the NumPy reference
# =================================================================================================
class Case:
    """one kernel invocation: `args()` returns fresh argument copies; `call(fn, args)` returns the output array(s)"""

    def __init__(self, kernel, label, dtype, shape, mk, call, ref, work, outs, twin=None):
        self.kernel, self.label, self.dtype, self.shape = kernel, label, dtype, shape
        self.mk, self.call, self.ref, self.work, self.outs = mk, call, ref, work, outs
        self.twin = twin       # name of the serial kernel compiled from the same Python definition, if any


def rec_to_rows(mom):
    return np.stack([mom[f].astype(np.float64) for f in FIELDS], axis=1)


def build_cases(K, nprng, shapes_small, shapes_big, tier):
    """list of Case for every parallel kernel the property enumerates"""
    cases = []
    # u1 / f4: the two signatures the kernels with a declared signature are compiled for.  u2: what a 16-bit file hands to the
    # kernels WITHOUT a declared signature (invert_freq, the decimators, the moments), which specialise per dtype on first use.
    DT = [("u1", np.uint8), ("f4", np.float32), ("u2", np.uint16)]

    def add(kernel, label, dtype, shape, mk, call, ref, work, outs=1):
        cases.append(Case(kernel, label, dtype, shape, mk, call, ref, work, outs))

    sample_shapes = shapes_small + shapes_big["samples"]     # iterations = samples
    chan_shapes = shapes_small + shapes_big["chans"]          # iterations = channels
    for dn, dt in DT:
        hi = 256 if dn == "u1" else 1000
        sg = dn == "f4"                 # float data takes both signs
        declared = dn != "u2"           # kernels with a declared signature exist for u1 and f4 only
        # ---- extract_tim (prange over samples) ----
        for C, N in (sample_shapes if declared else []):
            x = ints(nprng, C * N, hi, dt, sg); idx = int(nprng.integers(0, 4))
            o0 = ints(nprng, N + idx + 2, 50, np.float32)
            add("extract_tim", "extract_tim", dn, (C, N),
                lambda x=x, o0=o0: (x.copy(), o0.copy()),
                lambda f, a, C=C, N=N, idx=idx: (f(a[0], a[1], C, N, idx), a[1])[1],
                lambda x=x, o0=o0, C=C, N=N, idx=idx: _ref_tim(x, o0, C, N, idx), C * N)
        # ---- extract_bpass (prange over channels) ----
        for C, N in (chan_shapes if declared else []):
            x = ints(nprng, C * N, hi, dt, sg); o0 = ints(nprng, C, 50, np.float32)
            add("extract_bpass", "extract_bpass", dn, (C, N),
                lambda x=x, o0=o0: (x.copy(), o0.copy()),
                lambda f, a, C=C, N=N: (f(a[0], a[1], C, N), a[1])[1],
                lambda x=x, o0=o0, C=C, N=N: (o0.astype(np.float64) + x.reshape(N, C).astype(np.float64).sum(0)).astype(np.float32), C * N)
        # ---- mask_channels ----
        for C, N in (chan_shapes if declared else []):
            x = ints(nprng, C * N, hi, dt, sg); mask = nprng.integers(0, 2, C).astype(bool)
            if C > 1:
                mask[int(nprng.integers(0, C))] = True
            mv = dt(int(nprng.integers(0, hi)))
            add("mask_channels", "mask_channels", dn, (C, N),
                lambda x=x, mask=mask: (x.copy(), mask.copy()),
                lambda f, a, C=C, N=N, mv=mv: (f(a[0], a[1], mv, C, N), a[0])[1],
                lambda x=x, mask=mask, C=C, N=N, mv=mv: _ref_mask(x, mask, mv, C, N), C * N)
        # ---- dedisperse / subband ----
        for C, N in (sample_shapes if declared else []):
            md = int(nprng.integers(0, max(1, min(N, 6))))
            d = nprng.integers(0, md + 1, C).astype(np.int32)
            if C > 0 and md > 0:
                d[int(nprng.integers(0, C))] = md
            md = int(d.max()) if C else 0
            x = ints(nprng, C * N, hi, dt, sg); idx = int(nprng.integers(0, 4))
            o0 = ints(nprng, N - md + idx + 1, 50, np.float32)
            add("dedisperse", "dedisperse", dn, (C, N),
                lambda x=x, o0=o0, d=d: (x.copy(), o0.copy(), d.copy()),
                lambda f, a, md=md, C=C, N=N, idx=idx: (f(a[0], a[1], a[2], md, C, N, idx), a[1])[1],
                lambda x=x, o0=o0, d=d, md=md, C=C, N=N, idx=idx: _ref_dedisp(x, o0, d, md, C, N, idx), C * N)
            for S in sorted({1, C} | ({s for s in (2, 3, 4, 8) if C % s == 0 and s < C})):
                cts = (np.arange(C, dtype=np.int32) // (C // S)).astype(np.int32)
                os0 = ints(nprng, (N - md) * S + 1, 50, np.float32)
                add("subband", "subband", dn, (C, N, S),
                    lambda x=x, os0=os0, d=d, cts=cts: (x.copy(), os0.copy(), d.copy(), cts.copy()),
                    lambda f, a, md=md, C=C, N=N, S=S: (f(a[0], a[1], a[2], a[3], md, C, S, N), a[1])[1],
                    lambda x=x, os0=os0, d=d, cts=cts, md=md, C=C, N=N, S=S: _ref_subband(x, os0, d, cts, md, C, S, N), C * N)
        # ---- invert_freq ----
        for C, N in sample_shapes:
            x = ints(nprng, C * N, hi, dt, sg)
            add("invert_freq", "invert_freq", dn, (C, N),
                lambda x=x: (x.copy(),),
                lambda f, a, C=C, N=N: f(a[0], C, N),
                lambda x=x, C=C, N=N: x.reshape(N, C)[:, ::-1].ravel().copy(), C * N)
        # ---- remove_zerodm ----
        for C, N in (sample_shapes if declared else []):
            vmax = max(1, min(4, 60 // max(C, 1))) if dn == "u1" else 9
            x = ints(nprng, C * N, vmax + 1, dt, sg)
            wts = nprng.integers(0, 2, C).astype(np.float32)
            base = C * vmax if dn == "u1" else 0
            if dn == "u1" and base + vmax + 3 > 255:      # keep u1 results in range: no weights
                wts[:] = 0
                base = 0
            bp = (base + nprng.integers(0, 3, C)).astype(np.float32)
            add("remove_zerodm", "remove_zerodm", dn, (C, N),
                lambda x=x, bp=bp, wts=wts, dt=dt: (x.copy(), np.full(x.size + 1, 7, dtype=dt), bp.copy(), wts.copy()),
                lambda f, a, C=C, N=N: (f(a[0], a[1], a[2], a[3], C, N), a[1])[1],
                lambda x=x, bp=bp, wts=wts, C=C, N=N, dt=dt: _ref_zerodm(x, bp, wts, C, N, dt), C * N)
        # ---- decimation ----
        for C, N in sample_shapes:
            for fac in sorted({1, 2, 3} if N >= 3 else {1}):
                n_new = N // fac
                if n_new == 0:
                    continue
                v = _mean_exact(nprng, n_new, fac, 200 if dn == "u1" else 900).astype(dt)
                tail = ints(nprng, N - n_new * fac, 50, dt)
                arr = np.concatenate([v.ravel(), tail])
                add("downsample_1d_mean_parallel", "downsample_1d_mean", dn, (N, fac),
                    lambda arr=arr: (arr.copy(),),
                    lambda f, a, fac=fac: f(a[0], fac),
                    lambda v=v, dt=dt: (v.astype(np.float64).mean(1)).astype(dt), N)
            for f1, f2 in ((1, 1), (2, 1), (1, 2), (2, 2), (3, 2)):
                if N // f1 == 0 or C // f2 == 0:
                    continue
                d1, d2 = N, C
                arr = _mean_exact_2d(nprng, d1, d2, f1, f2, 200 if dn == "u1" else 900).astype(dt)
                add("downsample_2d_mean_parallel", "downsample_2d_mean_flat", dn, (d1, d2, f1, f2),
                    lambda arr=arr: (arr.ravel().copy(),),
                    lambda f, a, f1=f1, f2=f2, d1=d1, d2=d2: f(a[0], f1, f2, d1, d2),
                    lambda arr=arr, f1=f1, f2=f2, d1=d1, d2=d2, dt=dt: _ref_ds2(arr, f1, f2, d1, d2, dt), d1 * d2)
    # ---- online moments (record output; float32 data, and the uint8 / uint16 blocks ChannelStats.push_data really hands over:
    #      the kernels have no declared signature and specialise per dtype) ----
    for C, N in chan_shapes:
        N = min(N, 6)
        for basic in (False, True):
            name = "compute_online_moments_basic" if basic else "compute_online_moments"
            n1 = max(1, N // 2)
            for dn, dt in DT:
                x = moments_data(nprng, C, N)          # samples stay below 256
                if dn == "f4":
                    x = x - 20                         # float data of both signs: the mean moves, the central sums do not
                add(name, name, dn, (C, N),
                    lambda x=x, C=C, dt=dt: (x.astype(dt).ravel(), np.zeros(C, dtype=K.moments_dtype)),
                    lambda f, a, n1=n1, C=C: _call_moments(f, a, n1, C),
                    lambda x=x, basic=basic: _ref_moments(x, basic), C * N, outs="moments")
    cases += moments_divisor_cases(K, nprng)
    return cases


# sample counts at which a reciprocal-multiplication "division" delta * (1/n) misses the exactly representable quotient delta / n
MOMENT_COUNTS = (49, 98, 103, 107, 196)


def _tie_steps(N, basic, vmax):
    """odd steps c for which the second central sum N*(N-1)*c**2 of (N-1 equal samples, one sample N*c higher) lies exactly half way
    between two float32 numbers, so that an error of one float64 ulp in delta/n decides which way the float32 record field rounds;
    every intermediate of update_moments stays an integer below 2**53 (no rounding before the store, whatever the evaluation order).
    Falls back to small odd steps where the dtype (N*c <= vmax) or the fourth sum does not leave room."""
    o = N * (N - 1)
    while o % 2 == 0:
        o //= 2
    lo, hi = int(np.ceil(np.sqrt((1 << 24) / o))), int(np.floor(np.sqrt(((1 << 25) - 1) / o)))

    def fits(c):
        return N * c <= vmax and (basic or N * (N - 1) * c ** 4 * (N * N - 3 * N + 3) < (1 << 53))
    ties = [c for c in range(lo, hi + 1) if c % 2 == 1 and fits(c)]
    small = [c for c in (1, 3, 5, 7, 9) if fits(c)]
    return ties, small


def moments_divisor_cases(K, nprng):
    """N - 1 equal samples k and a last one k + N*c per channel, in two chunks: count, mean and all central sums are integers
    (delta / n = c exactly at n = N in {49, 98, 103, 107, 196}); float32 / uint16 data put the second sum on a float32 rounding tie"""
    cases = []
    C = 37                                 # more channels than threads, not a multiple of any thread count
    for N in MOMENT_COUNTS:
        for basic in (False, True):
            name = "compute_online_moments_basic" if basic else "compute_online_moments"
            for dn, dt, vmax in (("f4", np.float32, 60000), ("u2", np.uint16, 60000), ("u1", np.uint8, 215)):
                ties, small = _tie_steps(N, basic, vmax)
                pool = ties if ties else small
                if not pool:
                    continue
                c = np.array([pool[int(j)] for j in nprng.integers(0, len(pool), C)], dtype=np.int64)
                c[:3] = small[0] if small else pool[0]          # some small steps as well (and, with 0 below, an untouched channel)
                c[0] = 0
                k = nprng.integers(1, 40, C)
                x = np.repeat(k[None, :], N, axis=0).astype(np.int64)
                x[N - 1] += N * c
                n1 = int(nprng.integers(1, N - 1))
                cases.append(Case(name, name, dn, (C, N),
                                  lambda x=x, dt=dt: (x.astype(dt).ravel(), np.zeros(C, dtype=K.moments_dtype)),
                                  lambda f, a, n1=n1: _call_moments(f, a, n1, C),
                                  lambda x=x, basic=basic: _ref_moments(x, basic).astype(np.float32).astype(np.float64),
                                  C * N, "moments"))
    return cases


# factor products at which a reciprocal-multiplication "division" x * (1/n) misses exactly representable quotients
DECIM_1D = (49, 98, 103, 107, 196)
DECIM_2D = ((7, 7), (7, 14), (14, 14), (1, 103), (107, 1), (49, 2), (1, 49))
DECIM_DT = (("u1", np.uint8), ("i4", np.int32), ("f8", np.float64), ("u2", np.uint16))


def decimation_exact_cases(nprng, tier, nout=37, dts=DECIM_DT):
    """decimation on integer-valued data whose bin sums are multiples of the bin size: sum and quotient are exact in float64,
    so there is one right answer for every dtype; integer outputs expose a quotient that is one ulp low (it truncates).
    nout = 37 output rows: more than threads, not a multiple of any thread count (the correspondence uses fewer rows)"""
    cases = []
    for dn, dt in dts:
        for fac in DECIM_1D:
            if tier == "quick" and dn == "u2" and fac not in (49, 103):
                continue
            hi = min(200, 256 - fac)
            v = _mean_exact(nprng, nout, fac, hi)
            for r in range(min(12, nout - 2)):    # some constant bins: the mean of `fac` copies of k
                v[r, :] = r + 1
            arr = np.concatenate([v.ravel(), nprng.integers(0, 50, 3)]).astype(dt)
            cases.append(Case("downsample_1d_mean_parallel", "downsample_1d_mean", dn, (arr.size, fac),
                              lambda arr=arr: (arr.copy(),), lambda f, a, fac=fac: f(a[0], fac),
                              lambda v=v, dt=dt: (v.sum(1) // v.shape[1]).astype(dt), arr.size, 1, twin="downsample_1d_mean"))
        for f1, f2 in DECIM_2D:
            if tier == "quick" and dn == "i4" and (f1, f2) in ((49, 2), (1, 49)):
                continue
            if tier == "quick" and dn == "u2" and (f1, f2) not in ((7, 7), (1, 103), (107, 1)):
                continue
            n1, n2 = nout, 3
            d1, d2 = n1 * f1 + (f1 > 1), n2 * f2 + (f2 > 1)
            a2 = _mean_exact_2d(nprng, d1, d2, f1, f2, min(200, 256 - f1 * f2))
            for r in range(min(4, nout - 2)):
                for c in range(n2):
                    a2[r * f1:(r + 1) * f1, c * f2:(c + 1) * f2] = 1 + r * n2 + c
            a2 = a2.astype(dt)
            cases.append(Case("downsample_2d_mean_parallel", "downsample_2d_mean_flat", dn, (d1, d2, f1, f2),
                              lambda a2=a2: (a2.ravel().copy(),), lambda f, a, f1=f1, f2=f2, d1=d1, d2=d2: f(a[0], f1, f2, d1, d2),
                              lambda a2=a2, f1=f1, f2=f2, d1=d1, d2=d2, dt=dt: _ref_ds2(a2, f1, f2, d1, d2, dt), d1 * d2, 1,
                              twin="downsample_2d_mean_flat"))
    return cases


def _call_moments(f, a, n1, C):
    """two chunks, as ChannelStats.push_data does: the first with startflag 0, the second continuing"""
    arr, mom = a
    f(arr[: n1 * C], mom, 0)
    if arr.size > n1 * C:
        f(arr[n1 * C:], mom, n1)
    return mom


def _ref_tim(x, o0, C, N, idx):
    o = o0.copy()
    o[idx:idx + N] = x.reshape(N, C).astype(np.float64).sum(1).astype(np.float32)
    return o


def _ref_mask(x, mask, mv, C, N):
    o = x.copy().reshape(N, C)
    o[:, mask] = mv
    return o.ravel()


def _ref_dedisp(x, o0, d, md, C, N, idx):
    o = o0.astype(np.float64)
    X = x.reshape(N, C).astype(np.float64)
    n = N - md
    for c in range(C):
        o[idx:idx + n] += X[d[c]:d[c] + n, c]
    return o.astype(np.float32)


def _ref_subband(x, o0, d, cts, md, C, S, N):
    o = o0.astype(np.float64)
    X = x.reshape(N, C).astype(np.float64)
    n = N - md
    for c in range(C):
        np.add.at(o, S * np.arange(n) + cts[c], X[d[c]:d[c] + n, c])
    return o.astype(np.float32)


def _ref_zerodm(x, bp, wts, C, N, dt):
    X = x.reshape(N, C).astype(np.float64)
    z = X.sum(1, keepdims=True)
    r = (X - z * wts.astype(np.float64)[None, :]) + bp.astype(np.float64)[None, :]
    o = np.full(x.size + 1, 7, dtype=dt)
    o[: x.size] = r.ravel().astype(dt)
    return o


def _mean_exact(nprng, n, fac, hi):
    """(n, fac) non-negative integers whose row sums are divisible by fac"""
    v = nprng.integers(0, hi, (n, fac))
    v[:, -1] += (-v.sum(1)) % fac
    return v


def _mean_exact_2d(nprng, d1, d2, f1, f2, hi):
    a = nprng.integers(0, hi, (d1, d2))
    n1, n2 = d1 // f1, d2 // f2
    for i in range(n1):
        for j in range(n2):
            blk = a[i * f1:(i + 1) * f1, j * f2:(j + 1) * f2]
            blk[-1, -1] += (-blk.sum()) % (f1 * f2)
    return a


def _ref_ds2(arr, f1, f2, d1, d2, dt):
    n1, n2 = d1 // f1, d2 // f2
    a = arr[: n1 * f1, : n2 * f2].astype(np.float64).reshape(n1, f1, n2, f2)
    return a.mean(axis=(1, 3)).ravel().astype(dt)


def _ref_moments(x, basic):
    n, mu, m2, m3, m4, mn, mx = exact_moments(x)
    C = x.shape[1]
    rows = np.zeros((C, 7))
    rows[:, 0] = n; rows[:, 1] = mu; rows[:, 2] = m2
    if not basic:
        rows[:, 3] = m3; rows[:, 4] = m4
    rows[:, 5] = mn; rows[:, 6] = mx
    return rows


def call_state(cs, f, args):
    """call the kernel; returns (output, the other array arguments as the call left them)"""
    out = cs.call(f, args)
    return out, [a for a in args if isinstance(a, np.ndarray) and a is not out]


def args_bytes(arrs):
    return b"|".join(str(a.dtype).encode() + b":" + out_bytes(a) for a in arrs)


def first_arg_diff(got, exp):
    for j, (a, b) in enumerate(zip(got, exp)):
        if out_bytes(a) != out_bytes(b):
            return dict(first_diff(a, b), argument_array=j)
    return {"note": "number of arrays differs"}


def out_bytes(o):
    if isinstance(o, np.ndarray) and o.dtype.names:
        return rec_to_rows(o).tobytes()
    return np.ascontiguousarray(o).tobytes()


def first_diff(a, b):
    a = rec_to_rows(a) if (isinstance(a, np.ndarray) and a.dtype.names) else np.asarray(a)
    b = rec_to_rows(b) if (isinstance(b, np.ndarray) and b.dtype.names) else np.asarray(b)
    if a.shape != b.shape:
        return {"shape_got": list(a.shape), "shape_expected": list(b.shape)}
    w = np.argwhere(a != b)
    if len(w) == 0:
        return {"note": "same values, different dtype/bytes", "dtype_got": str(a.dtype), "dtype_expected": str(b.dtype)}
    i = tuple(int(t) for t in w[0])
    return {"index": list(i), "got": float(a[i]), "expected": float(b[i]), "n_different": int(len(w))}


# =================================================================================================
# oracle 1: ownership tracer on the kernel's own Python definition
# =================================================================================================
class Trace:
    def __init__(self):
        self.cur = "pre"
        self.writes = {}
        self.reads = {}
        self.n_alloc = 0
        self.iters = 0
        self.oob = []

    def w(self, loc):
        self.writes.setdefault(loc, set()).add(self.cur)

    def r(self, loc):
        self.reads.setdefault(loc, set()).add(self.cur)

    def verdict(self):
        """(ok, description) -- each location stored inside the parallel loop has one owning iteration"""
        for loc, ws in self.writes.items():
            its = sorted(x for x in ws if isinstance(x, int))
            if len(its) > 1:
                return False, {"location": list(map(str, loc)), "stored_by_iterations": its[:6]}
            if its:
                rs = sorted(x for x in self.reads.get(loc, ()) if isinstance(x, int) and x != its[0])
                if rs:
                    return False, {"location": list(map(str, loc)), "stored_by_iteration": its[0], "loaded_by_iterations": rs[:6]}
        if self.oob:
            return False, {"out_of_bounds": self.oob[:3]}
        return True, None


class Traced(np.ndarray):
    """ndarray that logs element loads/stores (flat 1-D arrays and 1-D record arrays only)"""
    _tr = None
    _aid = None

    def __array_finalize__(self, obj):
        if obj is not None and getattr(obj, "_tr", None) is not None:
            self._tr = obj._tr
            self._aid = getattr(obj, "_aid", None)

    def _rng(self, key):
        lo, hi, st = key.indices(self.shape[0])
        return range(lo, hi, st)

    def _chk(self, k, what):
        if not (0 <= k < self.shape[0]):
            self._tr.oob.append({"array": self._aid, "index": int(k), "length": int(self.shape[0]), "access": what, "iteration": self._tr.cur})
            raise IndexError(f"{what} {self._aid}[{k}] outside 0..{self.shape[0]}")

    def __getitem__(self, key):
        tr = self._tr
        if tr is None or self.ndim != 1:
            return np.asarray(self).__getitem__(key)
        if isinstance(key, slice):
            for k in self._rng(key):
                tr.r((self._aid, k))
            return np.asarray(self)[key]
        if isinstance(key, (int, np.integer)):
            k = int(key)
            self._chk(k, "load")
            if self.dtype.names:
                return RecordProxy(self, k)
            tr.r((self._aid, k))
            return np.asarray(self)[k]
        raise TypeError(f"tracer: unsupported index {key!r}")

    def __setitem__(self, key, value):
        tr = self._tr
        if tr is None or self.ndim != 1:
            np.asarray(self).__setitem__(key, value)
            return
        if isinstance(key, slice):
            for k in self._rng(key):
                tr.w((self._aid, k))
            np.asarray(self)[key] = value
            return
        if isinstance(key, (int, np.integer)) and not self.dtype.names:
            k = int(key)
            self._chk(k, "store")
            tr.w((self._aid, k))
            np.asarray(self)[k] = value
            return
        raise TypeError(f"tracer: unsupported store index {key!r}")


class RecordProxy:
    def __init__(self, parent, k):
        self.p, self.k = parent, k

    def __getitem__(self, f):
        self.p._tr.r((self.p._aid, self.k, f))
        return np.asarray(self.p)[self.k][f]

    def __setitem__(self, f, v):
        self.p._tr.w((self.p._aid, self.k, f))
        np.asarray(self.p)[f][self.k] = v


class NpShim:
    """numpy for the traced run: fresh arrays are traced too"""

    def __init__(self, tr):
        self._tr = tr

    def __getattr__(self, n):
        return getattr(np, n)

    def _wrap(self, a):
        t = a.view(Traced)
        t._tr = self._tr
        self._tr.n_alloc += 1
        t._aid = f"alloc{self._tr.n_alloc}"
        return t

    def empty(self, *a, **k):
        return self._wrap(np.empty(*a, **k))

    def zeros(self, *a, **k):
        return self._wrap(np.zeros(*a, **k))

    def empty_like(self, x, *a, **k):
        return self._wrap(np.empty_like(np.asarray(x), *a, **k))

    def zeros_like(self, x, *a, **k):
        return self._wrap(np.zeros_like(np.asarray(x), *a, **k))


def traced_call(K, pyfunc, args, names=None):
    """run pyfunc with prange traced and ndarray arguments wrapped; returns the Trace"""
    tr = Trace()

    def tprange(*a):
        if tr.cur != "pre":
            raise RuntimeError("tracer: a second or nested prange loop")
        for i in range(*a):
            tr.cur = int(i)
            tr.iters += 1
            yield i
        tr.cur = "post"
    wrapped = []
    for j, a in enumerate(args):
        if isinstance(a, np.ndarray):
            t = a.view(Traced)
            t._tr = tr
            t._aid = names[j] if names else f"arg{j}"
            wrapped.append(t)
        else:
            wrapped.append(a)
    g = pyfunc.__globals__
    saved = {n: g.get(n) for n in ("prange", "np")}
    g["prange"] = tprange
    g["np"] = NpShim(tr)
    err = None
    try:
        pyfunc(*wrapped)
    except IndexError as e:
        err = str(e)
    finally:
        for n, v in saved.items():
            g[n] = v
    tr.error = err
    return tr


def pyfunc_of(K, kernel):
    f = getattr(K, kernel)
    return f.py_func


# =================================================================================================
# correspondence: generated threads (vm_compute) vs py_func
# =================================================================================================
def zl(a):
    return vlib.zlist([int(v) for v in np.asarray(a).ravel()])


def corr_cases(K, nprng, rng, n_per):
    """list of (name, coq boolean expression text, description)"""
    out = []

    def sched(nthreads, bound):
        s = []
        for _ in range(bound):
            p = list(range(nthreads))
            rng.shuffle(p)
            s += p
        return "[" + "; ".join(f"{i}%nat" for i in s) + "]"

    def mem(pairs):
        return "(mem_of [" + "; ".join(f"({i}, {zl(a)})" for i, a in pairs) + "])"

    def chk(k, pre, threads, m0, oid, n, exp, nthreads, bound, func=None):
        s = sched(nthreads, bound + 2)
        e = (f"(let m0 := run1 ({pre}) {m0} in let ts := {threads} in let c := sched_run {s} (ts, m0) in\n"
             f"   list_eqb (dump (seq_run ts m0) {oid} {n}) {zl(exp)} && forallb is_done (fst c) && list_eqb (dump (snd c) {oid} {n}) {zl(exp)}"
             + (f"\n   && list_eqb (to_list {n} ({func})) {zl(exp)}" if func else "") + ")")
        return e

    for _ in range(n_per):
        C, N = int(nprng.integers(1, 4)), int(nprng.integers(1, 5))
        x = nprng.integers(0, 20, C * N).astype(np.uint8)
        # extract_tim
        idx = int(nprng.integers(0, 3)); o0 = nprng.integers(0, 9, N + idx + 1).astype(np.float32)
        o = o0.copy(); K.extract_tim.py_func(x, o, C, N, idx)
        a = f"{C} {N} {idx}"
        out.append(("extract_tim", chk("extract_tim", f"extract_tim_pre {a}", f"extract_tim_threads {a}", mem([(0, x), (1, o0)]), 1, o.size, o, N, C + 1,
                                       f"extract_tim_run (of_list {zl(x)}) (of_list {zl(o0)}) {a}"), {"C": C, "N": N, "index": idx}))
        # extract_bpass
        o0 = nprng.integers(0, 9, C).astype(np.float32); o = o0.copy(); K.extract_bpass.py_func(x, o, C, N)
        a = f"{C} {N}"
        out.append(("extract_bpass", chk("extract_bpass", f"extract_bpass_pre {a}", f"extract_bpass_threads {a}", mem([(0, x), (1, o0)]), 1, C, o, C, 3 * N,
                                         f"extract_bpass_run (of_list {zl(x)}) (of_list {zl(o0)}) {a}"), {"C": C, "N": N}))
        # mask_channels
        mask = nprng.integers(0, 2, C).astype(bool); mv = int(nprng.integers(0, 200)); y = x.copy()
        K.mask_channels.py_func(y, mask, np.uint8(mv), C, N)
        a = f"{mv} {C} {N}"
        out.append(("mask_channels", chk("mask_channels", f"mask_channels_pre {a}", f"mask_channels_threads {a}", mem([(0, x), (1, mask.astype(int))]), 0, C * N, y, C, N + 1,
                                         f"mask_channels_run (of_list {zl(x)}) (of_list {zl(mask.astype(int))}) {a}"), {"C": C, "N": N}))
        # dedisperse, subband
        md = int(nprng.integers(0, N)); d = nprng.integers(0, md + 1, C).astype(np.int32); d[int(nprng.integers(0, C))] = md
        o0 = nprng.integers(0, 9, N - md + idx + 1).astype(np.float32); o = o0.copy()
        K.dedisperse.py_func(x, o, d, md, C, N, idx)
        a = f"{md} {C} {N} {idx}"
        out.append(("dedisperse", chk("dedisperse", f"dedisperse_pre {a}", f"dedisperse_threads {a}", mem([(0, x), (1, o0), (2, d)]), 1, o.size, o, N - md, 4 * C,
                                      f"dedisperse_run (of_list {zl(x)}) (of_list {zl(o0)}) (of_list {zl(d)}) {a}"), {"C": C, "N": N, "maxdelay": md}))
        S = int(nprng.choice([s for s in range(1, C + 1) if C % s == 0]))
        cts = (np.arange(C) // (C // S)).astype(np.int32)
        o0 = nprng.integers(0, 9, (N - md) * S + 1).astype(np.float32); o = o0.copy()
        K.subband.py_func(x, o, d, cts, md, C, S, N)
        a = f"{md} {C} {S} {N}"
        out.append(("subband", chk("subband", f"subband_pre {a}", f"subband_threads {a}", mem([(0, x), (1, o0), (2, d), (3, cts)]), 1, o.size, o, N - md, 5 * C,
                                   f"subband_run (of_list {zl(x)}) (of_list {zl(o0)}) (of_list {zl(d)}) (of_list {zl(cts)}) {a}"), {"C": C, "N": N, "S": S}))
        # invert_freq
        o = K.invert_freq.py_func(x, C, N)
        a = f"{C} {N}"
        out.append(("invert_freq", chk("invert_freq", f"invert_freq_pre {a}", f"invert_freq_threads {a}", mem([(0, x)]), 1, C * N, o, N, 2 * C,
                                       f"invert_freq_run zeros (of_list {zl(x)}) {a}"), {"C": C, "N": N}))
        # remove_zerodm
        xs = nprng.integers(0, 4, C * N).astype(np.float32); bp = nprng.integers(0, 9, C).astype(np.float32); wts = nprng.integers(0, 3, C).astype(np.float32)
        o0 = nprng.integers(0, 9, C * N).astype(np.float32); o = o0.copy()
        K.remove_zerodm.py_func(xs, o, bp, wts, C, N)
        out.append(("remove_zerodm", chk("remove_zerodm", f"remove_zerodm_pre {a}", f"remove_zerodm_threads {a}", mem([(0, xs), (1, o0), (2, bp), (3, wts)]), 1, C * N, o, N, 5 * C,
                                         f"remove_zerodm_run (of_list {zl(xs)}) (of_list {zl(o0)}) (of_list {zl(bp)}) (of_list {zl(wts)}) {a}"),
                    {"C": C, "N": N}))
        # downsample 1d / 2d  (bin sums divisible: divcast := Z.div is exact)
        fac = int(nprng.integers(1, 4)); n_new = int(nprng.integers(1, 4))
        v = _mean_exact(nprng, n_new, fac, 30).astype(np.float32)
        arr = np.concatenate([v.ravel(), nprng.integers(0, 9, int(nprng.integers(0, fac))).astype(np.float32)])
        o = K.downsample_1d_mean.py_func(arr, fac)
        a = f"Z.div {arr.size} {fac}"
        out.append(("downsample_1d_mean_parallel", chk("ds1", f"downsample_1d_mean_parallel_pre {a}", f"downsample_1d_mean_parallel_threads {a}", mem([(0, arr)]), 1, o.size, o, n_new, fac + 1,
                                                       f"downsample_1d_mean_run Z.div {arr.size} zeros (of_list {zl(arr)}) {fac}"), {"n": arr.size, "factor": fac}))
        f1, f2 = int(nprng.integers(1, 3)), int(nprng.integers(1, 3)); d1, d2 = int(nprng.integers(f1, 2 * f1 + 2)), int(nprng.integers(f2, 2 * f2 + 2))
        a2 = _mean_exact_2d(nprng, d1, d2, f1, f2, 30).astype(np.float32)
        o = K.downsample_2d_mean_flat.py_func(a2.ravel(), f1, f2, d1, d2)
        a = f"Z.div {f1} {f2} {d1} {d2}"
        out.append(("downsample_2d_mean_parallel", chk("ds2", f"downsample_2d_mean_parallel_pre {a}", f"downsample_2d_mean_parallel_threads {a}", mem([(0, a2)]), 1, o.size, o, d1 // f1,
                                                       (d2 // f2) * (f1 * f2 + 1),
                                                       f"downsample_2d_mean_flat_run Z.div zeros (of_list {zl(a2)}) {f1} {f2} {d1} {d2}"), {"dims": [d1, d2], "factors": [f1, f2]}))
        # online moments (exact data), second chunk continuing a first one
        for basic in (False, True):
            name = "compute_online_moments_basic" if basic else "compute_online_moments"
            Nm = int(nprng.integers(1, 5)); n1 = int(nprng.integers(0, Nm + 1))
            xm = moments_data(nprng, C, Nm)
            mom = np.zeros(C, dtype=K.moments_dtype)
            pf = getattr(K, name).py_func
            if n1 > 0:
                pf(xm[:n1].astype(np.float32).ravel(), mom, 0)
            m_before = rec_to_rows(mom).astype(np.int64)
            rest = xm[n1:]
            if rest.shape[0] == 0:
                continue
            pf(rest.astype(np.float32).ravel(), mom, n1)
            m_after = rec_to_rows(mom).astype(np.int64)
            a = f"Z.div {C} {rest.size} {n1}"
            out.append((name, chk(name, f"{name}_pre {a}", f"{name}_threads {a}", mem([(0, rest), (1, m_before)]), 1, 7 * C, m_after, C, rest.shape[0] + 16),
                        {"C": C, "chunk": [n1, Nm]}))
    # the decimators on the uint16 cases of the sweep (every bin size of DECIM_1D / DECIM_2D, 6 output rows): the generated threads
    # (index order and a random interleaving) and the functional kernel of the Python definition, with exact integer division,
    # against what the COMPILED parallel kernel returns under some thread count and chunk size (an integer dtype keeps a quotient
    # that is one ulp low: a kernel that does not divide like its definition disagrees with the model here)
    import numba
    saved = numba.get_num_threads()
    try:
        for cs in decimation_exact_cases(nprng, "thorough", nout=6, dts=(("u2", np.uint16),)):
            arr = cs.mk()[0]
            nth, ch = int(nprng.integers(2, saved + 1)) if saved > 1 else 1, int(nprng.choice(CHUNKS))
            numba.set_num_threads(nth)
            numba.set_parallel_chunksize(ch)
            try:
                o = cs.call(getattr(K, cs.kernel), cs.mk())
            finally:
                numba.set_parallel_chunksize(0)
            if o.dtype != np.uint16:
                out.append((cs.kernel + "[u2]", "false", {"shape": list(cs.shape), "returned_dtype": str(o.dtype)}))
                continue
            desc = {"dtype": "u2", "shape": list(cs.shape), "threads": nth, "chunk": ch, "against": "compiled kernel"}
            if cs.kernel == "downsample_1d_mean_parallel":
                n, fac = cs.shape
                a = f"Z.div {n} {fac}"
                out.append((cs.kernel + "[u2]", chk("ds1", f"downsample_1d_mean_parallel_pre {a}", f"downsample_1d_mean_parallel_threads {a}", mem([(0, arr)]), 1, o.size, o,
                                                    n // fac, fac + 1, f"downsample_1d_mean_run Z.div {n} zeros (of_list {zl(arr)}) {fac}"), desc))
            else:
                d1, d2, f1, f2 = cs.shape
                a = f"Z.div {f1} {f2} {d1} {d2}"
                out.append((cs.kernel + "[u2]", chk("ds2", f"downsample_2d_mean_parallel_pre {a}", f"downsample_2d_mean_parallel_threads {a}", mem([(0, arr)]), 1, o.size, o,
                                                    d1 // f1, (d2 // f2) * (f1 * f2 + 1),
                                                    f"downsample_2d_mean_flat_run Z.div zeros (of_list {zl(arr)}) {f1} {f2} {d1} {d2}"), desc))
    finally:
        numba.set_num_threads(saved)
    return out


# =================================================================================================
def run(R: vlib.Run):
    # idle OpenMP workers sleep instead of spinning: 16 workers on a shared machine otherwise burn ~10x the CPU of the sweep and
    # slow everybody (incl. this check) down when the machine is loaded; must be set before the threading layer starts
    os.environ.setdefault("OMP_WAIT_POLICY", "PASSIVE")
    import numba
    from sigpyproc.core import kernels as K

    quick = R.tier == "quick"
    R.rule = ("runtime sweep: every parallel kernel (both compiled signatures) x shapes from 1 channel x 1 sample to iterations >> threads x "
              "numba.set_num_threads(1..16) x set_parallel_chunksize{0,1,2,7} x repetitions, on integer data whose float32 arithmetic is exact "
              "(float32 data of both signs), output and every other array argument bit-compared with .py_func (NumPy restatement as an exactness cross-check); "
              "shapes include 1 channel x 300 samples, 300 channels x 1 sample and 200 channels x 1 sample for every kernel family; kernels without a declared signature also on uint16; moments on "
              "uint8/uint16/float32, plus counts 49, 98, 103, 107, 196 with the second central sum on a float32 rounding tie; Filterbank.subband call site on "
              "8/32-bit files with delays 0, 2, 3 and one channel, compiled call vs .py_func on the same arguments; decimation additionally on uint8/int32/float64 data with bin sizes "
              "49, 98, 103, 107, 196 (1-D) and 7x7, 7x14, 14x14, 1x103, 107x1, 49x2, 1x49 (2-D), exact integer means, parallel alias and serial twin against .py_func; ownership tracer on .py_func for the small shapes; a case is one compiled "
              "kernel call; distinct = (kernel, dtype, shape, threads, chunk); non-trivial = more than one iteration of the parallel loop")
    R.trusted += ["Coq 8.16.1 kernel + vm_compute (witnesses, examples, correspondence)",
                  "tools/py2coq/gen_c19.py: the load/store reading of the Python loop bodies (one load per subscript read, `a[i] op= e` = load, loads of e, store; "
                  "np.sum of a slice = loads in index order; distinct array names are distinct non-overlapping buffers)",
                  "memory model: sequentially consistent single loads and stores; a prange iteration runs exactly once on some thread; statements before the "
                  "prange loop finish before any iteration starts (fork/join)",
                  "correspondence + oracle harness tools/harness/props/c19.py"]
    R.assume += ["numba/OpenMP execute every prange iteration exactly once and give sequentially consistent behaviour to data-race-free programs "
                 "(NOT proved: supported by the runtime sweep only; the property is partial for exactly this)",
                 "arrays passed to one kernel call do not overlap", "indices are in bounds (obligations of C06/C07/C09), so numpy wrap-around of negative indices never occurs",
                 "float arithmetic is exact on the generated integer data; int32 count wrap (C10) is out of scope here"]
    R.prove("Props/C19.v")
    R.need(["Model/C19_Prog.vo", "Gen/C19Threads.vo", "Gen/Kernels.vo", "Base/Rt.vo"])
    rng = R.rng
    nprng = np.random.default_rng(rng.getrandbits(63))
    maxthreads = min(16, int(numba.config.NUMBA_NUM_THREADS))
    if maxthreads < 16:
        R.notes.append(f"NUMBA_NUM_THREADS={numba.config.NUMBA_NUM_THREADS}: thread counts swept 1..{maxthreads} only")
        R.red.append(f"harness: numba's thread pool has {numba.config.NUMBA_NUM_THREADS} threads: the thread counts 1..16 the property quantifies over cannot be "
                     "swept (unset NUMBA_NUM_THREADS or set it to 16 or more; numba must not be imported before props/c19.py)")
    R.extra_cov["threading_layer_threads"] = maxthreads

    # the set of parallel kernels found by the translator must be covered by the sweep below
    import gen_c19
    _, gerrs = gen_c19.gen_c19(vlib.REPO)
    gmeta = getattr(gen_c19.gen_c19, "meta", {"kernels": {}, "site": None})
    R.extra_cov["subband_site_guards"] = (gmeta.get("site") or {}).get("guards", None)

    # ---------------- oracle 1: ownership on the Python definition -----------------------------
    small = [(1, 1), (1, 5), (4, 1), (3, 4), (5, 7)]
    # iterations >> threads, also with the other axis degenerate (many iterations of one element each), and the parallel axis
    # degenerate with the other one long (ONE iteration over many elements: where a "parallelise the other axis" branch would live)
    big = {"samples": [(8, 300), (1, 300), (300, 1)] if quick else [(8, 300), (1, 300), (300, 1), (16, 1500)],
           "chans": [(200, 6), (200, 1), (1, 300)] if quick else [(200, 6), (200, 1), (1, 300), (700, 4)]}
    own_cases = build_cases(K, nprng, small, {"samples": [(6, 40), (1, 40), (40, 1)], "chans": [(40, 6), (40, 1), (1, 40)]}, R.tier)
    covered = set()
    for cs in own_cases:
        if cs.dtype != "f4":
            continue
        pf = pyfunc_of(K, cs.kernel)
        trs = []

        def fake(*a, pf=pf, trs=trs):
            trs.append(traced_call(K, pf, list(a)))
            return a[1] if len(a) > 1 and isinstance(a[1], np.ndarray) else None
        try:
            cs.call(fake, cs.mk())
        except Exception as e:  # noqa: BLE001
            R.red.append(f"harness: tracer crashed for {cs.kernel}: {type(e).__name__}: {e}")
            continue
        if not trs:
            R.red.append(f"harness: tracer did not run for {cs.kernel}")
            continue
        covered.add(cs.kernel)
        for tr in trs:
            ok, why = tr.verdict()
            R.case(("own", cs.kernel, cs.dtype, cs.shape), nontrivial=tr.iters > 1, regime=f"owner:{cs.kernel}",
                   sample={"oracle": "owner", "kernel": cs.kernel, "shape": list(cs.shape), "iterations": tr.iters, "stores": len(tr.writes)}
                   if cs.shape == (3, 4) and cs.kernel == "extract_bpass" else None)
            if not ok or tr.error:
                R.fail(f"owner-{cs.kernel}", "an element is stored by more than one iteration of the parallel loop (or stored by one and loaded by another)",
                       {"kernel": cs.kernel, "python_definition": cs.label, "dtype": cs.dtype, "shape": list(cs.shape), "conflict": why, "tracer_error": tr.error,
                        "replay": "props/c19.py traced_call on kernels.<kernel>.py_func with these shapes"})
                break
    for k in gen_c19.KNOWN:
        if k not in covered:
            R.red.append(f"harness: ownership tracer has no case for parallel kernel {k}")

    # the arguments Filterbank.subband really hands to the kernel
    subband_callsite(R, K, nprng)

    # ---------------- oracle 2: runtime sweep ----------------------------------------------------
    reps = 2 if quick else 4
    sweep_cases = build_cases(K, nprng, small if quick else small + [(2, 33), (7, 64)], big, R.tier)
    sweep_cases += decimation_exact_cases(nprng, R.tier)
    thread_list = list(range(1, maxthreads + 1))
    done_k = set()
    npdiff = {}
    saved_threads = numba.get_num_threads()
    try:
        for cs in sweep_cases:
            fn = getattr(K, cs.kernel)
            # the reference is the sequential evaluation of the kernel's own Python definition
            ref, ref_in = call_state(cs, pyfunc_of(K, cs.kernel), cs.mk())
            refb = out_bytes(ref)
            ref_inb = args_bytes(ref_in)      # the input arrays as the Python definition leaves them (untouched, for every kernel today)
            # NumPy restatement on the same data: only to confirm that the arithmetic of this case is exact (it is not what
            # C19 demands: what the kernel computes is the business of C06/C07/C09/C10/C14)
            if out_bytes(cs.ref()) != refb:
                npdiff.setdefault(cs.kernel, first_diff(ref, cs.ref()))
            # the serial kernel compiled from the same Python definition must evaluate that definition as well
            if cs.twin is not None:
                tw = cs.call(getattr(K, cs.twin), cs.mk())
                R.case(("twin", cs.twin, cs.dtype, cs.shape), regime=f"serial-twin:{cs.twin}")
                if out_bytes(tw) != refb:
                    R.fail(f"serial-{cs.twin}", "serial kernel differs from the sequential evaluation of the Python definition it shares with the parallel kernel",
                           {"kernel": cs.twin, "dtype": cs.dtype, "shape": list(cs.shape), "diff": first_diff(tw, ref)})
            nfail = 0
            for n in thread_list:
                numba.set_num_threads(n)
                for ch in CHUNKS:
                    for r in range(reps):
                        args = cs.mk()
                        numba.set_parallel_chunksize(ch)
                        try:
                            got, got_in = call_state(cs, fn, args)
                        finally:
                            numba.set_parallel_chunksize(0)
                        niter = cs.shape[1] if cs.kernel in ("extract_tim", "dedisperse", "subband", "invert_freq", "remove_zerodm") else cs.shape[0]
                        R.case(("run", cs.kernel, cs.dtype, cs.shape, n, ch), nontrivial=niter > 1, regime=f"sweep:{cs.kernel}",
                               sample={"oracle": "sweep", "kernel": cs.kernel, "dtype": cs.dtype, "shape": list(cs.shape), "threads": n, "chunk": ch}
                               if (n, ch, r) == (5, 2, 0) and cs.shape == (5, 7) else None)
                        if out_bytes(got) != refb and nfail < 3:
                            nfail += 1
                            R.fail(f"sched-{cs.kernel}", "compiled kernel differs from the sequential evaluation of its own Python definition under this thread configuration",
                                   {"kernel": cs.kernel, "dtype": cs.dtype, "shape": list(cs.shape), "threads": n, "chunksize": ch, "repetition": r,
                                    "diff": first_diff(got, ref)})
                        elif args_bytes(got_in) != ref_inb and nfail < 3:
                            nfail += 1
                            R.fail(f"sched-{cs.kernel}", "compiled kernel leaves its other array arguments (inputs, tables) in a state different from the one the sequential "
                                                         "evaluation of its own Python definition leaves them in, under this thread configuration",
                                   {"kernel": cs.kernel, "dtype": cs.dtype, "shape": list(cs.shape), "threads": n, "chunksize": ch, "repetition": r,
                                    "diff": first_arg_diff(got_in, ref_in)})
            done_k.add(cs.kernel)
    finally:
        numba.set_num_threads(saved_threads)
        numba.set_parallel_chunksize(0)
    for k, dfr in npdiff.items():
        R.notes.append(f"{k}: .py_func differs from the harness's NumPy restatement on generated data ({dfr}); the sweep compares with .py_func")
    for k in gen_c19.KNOWN:
        if k not in done_k:
            R.red.append(f"harness: runtime sweep has no case for parallel kernel {k}")

    # ---------------- correspondence ------------------------------------------------------------
    cc = corr_cases(K, nprng, rng, 4 if quick else 12)
    per = 60
    nshard = 0
    for i in range(0, len(cc), per):
        sh = cc[i:i + per]
        lines = ["From Coq Require Import ZArith List Bool.",
                 "Require Import SPP.Base.Rt SPP.Gen.Kernels SPP.Model.C19_Prog SPP.Gen.C19Threads.",
                 "Import ListNotations.", "Open Scope Z_scope.",
                 "Definition checks : list bool := ["]
        lines.append(";\n".join(e for _, e, _ in sh))
        lines.append("].")
        lines.append("Definition idx := map fst (filter (fun p => negb (snd p)) (combine (seq 0 (length checks)) checks)).")
        lines.append("Eval vm_compute in (length checks, idx).")
        rc, out = vlib.coq_run(f"c19_{nshard}", "\n".join(lines), timeout=600)
        nshard += 1
        vals = vlib.parse_eval(out)
        if rc != 0 or not vals:
            R.red.append("correspondence: Corr/c19 did not evaluate: " + out[-500:])
            continue
        nums = re.findall(r"(\d+)%nat", vals[0])
        n = int(nums[0]) if nums else 0
        bad = [int(t) for t in nums[1:]]
        if n != len(sh):
            R.red.append(f"correspondence: evaluated {n} of {len(sh)} cases")
        R.extra_cov["traces_validated_against_impl"] = R.extra_cov.get("traces_validated_against_impl", 0) + n
        for bi in bad[:6]:
            R.disagree("generated thread programs (sequential run / random interleaving / functional kernel) and "
                       + ("the compiled kernel" if sh[bi][2].get("against") == "compiled kernel" else ".py_func") + " differ",
                       {"kernel": sh[bi][0], "case": sh[bi][2]})
    R.extra_cov["correspondence_cases"] = len(cc)
    return R


def subband_callsite(R, K, nprng):
    """Filterbank.subband on a synthetic file: trace the ownership of the kernel call it really makes"""
    import filutil
    from sigpyproc.readers import FilReader
    d = os.path.join(vlib.SCRATCH, f"c19_{os.getpid()}")
    os.makedirs(d, exist_ok=True)
    real = K.subband
    try:
        # (channels, sub-bands, bits of the file, largest channel delay in samples [0: dm = 0]).  With a delay the kernel runs over
        # nsamps_r - max_delay rows of a buffer of (gulp - max_delay) * nsub elements, on blocks that overlap by max_delay samples.
        for nch, nsub, nbits, want_md in ((8, 4, 8, 0), (6, 3, 8, 0), (4, 1, 8, 0), (10, 4, 8, 0), (6, 4, 8, 0), (7, 2, 8, 0), (5, 3, 8, 0),
                                          (8, 4, 8, 3), (8, 2, 32, 3), (6, 6, 32, 2), (1, 1, 8, 0), (6, 4, 32, 3)):
            N = 24
            x = nprng.integers(0, 200, (N, nch))
            p = filutil.write_fil(os.path.join(d, f"s{nch}_{nsub}_{nbits}_{want_md}.fil"), x, nbits, fch1=1500.0, foff=-1.0, tsamp=0.001)
            dm = 0.0
            if want_md:
                hdr = FilReader(p).header
                dm = next((float(v) for v in np.linspace(5.0, 2000.0, 400) if int(np.max(hdr.get_dmdelays(float(v)))) == want_md), None)
                if dm is None:
                    R.red.append(f"harness: no DM gives a largest delay of {want_md} samples for the {nch}-channel call-site file")
                    continue
            seen = []

            def spy(*a, seen=seen):
                copies = [t.copy() if isinstance(t, np.ndarray) else t for t in a]
                tr = traced_call(K, real.py_func, copies,
                                 names=["inarray", "outarray", "delays", "chan_to_sub", None, None, None, None])
                r = real(*a)
                # the compiled call on the library's own arguments against the sequential evaluation of the Python definition on
                # copies of them (integer samples below 200: exact): output and the other arrays
                same = tr.error is None and all(np.asarray(u).tobytes() == np.asarray(v).tobytes()
                                                for u, v in zip(a[:4], copies[:4]))
                seen.append((tr, int(np.max(a[3])) if a[3].size else -1, int(a[6]), int(a[1].size), same or tr.error is not None, int(a[4])))
                return r
            K.subband = spy
            status = "ok"
            try:
                FilReader(p).subband(dm=dm, nsub=nsub, outfile_name=os.path.join(d, "out.sub"), gulp=16, quiet=True)
            except ValueError as e:
                status = "ValueError"
            except Exception as e:  # noqa: BLE001
                status = f"{type(e).__name__}: {str(e)[:80]}"
            finally:
                K.subband = real
            R.case(("site", nch, nsub, nbits, want_md), nontrivial=True, regime="owner:subband-callsite(" + ("divides" if nch % nsub == 0 else "does-not-divide") + ")",
                   sample={"oracle": "owner-callsite", "nchans": nch, "nsub": nsub, "status": status, "kernel_calls": len(seen)}
                   if (nch, nsub, nbits, want_md) in ((8, 4, 8, 0), (10, 4, 8, 0)) else None)
            where = {"nchans": nch, "nsub": nsub, "nbits": nbits, "dm": dm, "max_delay": want_md,
                     "replay": f"FilReader(<{nbits}-bit file, {nch} channels, {N} samples, fch1=1500, foff=-1, tsamp=1e-3>).subband(dm={dm}, nsub={nsub}, gulp=16)"}
            if want_md and seen and any(s[5] != want_md for s in seen):
                R.red.append(f"harness: call-site case {nch}/{nsub}: the kernel got max_delay {sorted({s[5] for s in seen})}, not {want_md}")
            # a sub-band count that does not divide the channels may be rejected (ValueError) -- it must not fail in any other way
            if nch % nsub != 0 and status not in ("ok", "ValueError"):
                R.fail("subband-callsite-exception", "Filterbank.subband neither works nor raises ValueError for a sub-band count that does not divide the channels",
                       dict(where, status=status))
            for tr, mx, ns, osz, same, _md in seen:
                if not same and mx < ns:
                    R.fail("sched-subband-callsite", "the compiled kernel call Filterbank.subband makes differs from the sequential evaluation of the kernel's Python "
                                                     "definition on the same arguments (output, or an input array changed)", where)
                    break
            for tr, mx, ns, osz, _same, _md in seen:
                ok, why = tr.verdict()
                if not ok or mx >= ns:
                    R.fail("owner-subband-callsite",
                           ("Filterbank.subband hands kernels.subband a chan_to_sub table that reaches nsubs: iteration isamp also updates row isamp+1 "
                            "(two iterations store the same element; the last row is stored outside the buffer)") if mx >= ns else
                           "in the kernel call made by Filterbank.subband an element is stored by more than one iteration of the parallel loop",
                           {"nchans": nch, "nsub": nsub, "nbits": nbits, "dm": dm, "max_chan_to_sub": mx, "nsubs": ns, "conflict": why, "tracer_error": tr.error,
                            "replay": where["replay"]})
                    break
            if nch % nsub == 0 and (status != "ok" or not seen):
                R.fail("subband-callsite-rejects-valid", "Filterbank.subband fails for a sub-band count that divides the channels",
                       {"nchans": nch, "nsub": nsub, "nbits": nbits, "dm": dm, "status": status})
    finally:
        K.subband = real
        shutil.rmtree(d, ignore_errors=True)


# =================================================================================================
# at-scale search: the same kernels on millions of elements
# =================================================================================================
F24 = 1 << 24            # float32 holds every integer up to here: every float32 sum below is kept under it


def _sc_ints(nprng, n, hi, dt):
    """n integers of [0, hi) in dtype dt"""
    return nprng.integers(0, int(hi), int(n), dtype=np.uint8 if hi <= 256 else np.uint16).astype(dt, copy=False)


def _sc_data(nprng, C, N, dt, vcap, row_cap=None, col_cap=None):
    """flat (N, C) block of integers of [0, vcap): sums over the channels of a sample stay <= row_cap, sums over the samples of a
    channel <= col_cap (dense random values when the caps allow values above 1, else a few ones per row / per column)"""
    hi = vcap
    if row_cap is not None:
        hi = min(hi, row_cap // C + 1)
    if col_cap is not None:
        hi = min(hi, col_cap // N + 1)
    if hi >= 2:
        return _sc_ints(nprng, C * N, hi, dt)
    x = np.zeros((N, C), dtype=dt)
    if row_cap is not None and row_cap // C < 1:          # very many channels: at most m ones in a sample
        m = int(min(row_cap, 16))
        x[np.arange(N)[:, None], nprng.integers(0, C, (N, m))] = 1
    else:                                                 # very many samples: at most m ones in a channel
        m = int(min(col_cap, 16))
        x[nprng.integers(0, N, (m, C)), np.arange(C)[None, :]] = 1
    return x.ravel()


def _sc_wide(nprng, n, dn):
    """n values over the whole range of the dtype (kernels that only move data)"""
    if dn == "u1":
        return nprng.integers(0, 256, n, dtype=np.uint8)
    v = nprng.integers(-(1 << 31), (1 << 31) - 1, n, dtype=np.int32).astype(np.float32)
    v *= np.float32(1e29)                                 # finite, up to 2.1e38
    return v


def _sc_delayed(X, d, n, cts, S):
    """acc[t, s] = sum over the channels c of sub-band s of X[t + d[c], c]   (float64, exact on integer data)"""
    acc = np.zeros((n, S))
    C = X.shape[1]
    for v in np.unique(d):
        idx = np.flatnonzero(d == v)
        rows = X[int(v):int(v) + n]
        if S == 1:
            acc[:, 0] += (rows if idx.size == C else rows[:, idx]).sum(1, dtype=np.float64)
            continue
        subs = cts[idx]
        if np.any(subs[1:] < subs[:-1]):
            o = np.argsort(subs, kind="stable")
            idx, subs = idx[o], subs[o]
        starts = np.flatnonzero(np.r_[True, subs[1:] != subs[:-1]])
        blk = (rows if idx.size == C else rows[:, idx]).astype(np.float64)
        acc[:, subs[starts]] += np.add.reduceat(blk, starts, axis=1)
    return acc


def _sc_zero_sum(nprng, shape, m, axes):
    """int16 integers of [-m*len(axes), m*len(axes)] whose sum along each of `axes` is zero"""
    p = np.zeros(shape, dtype=np.int16)
    for ax in axes:
        if shape[ax] > 1:
            d = nprng.integers(0, m + 1, shape, dtype=np.int16)
            p += d
            p -= np.roll(d, 1, axis=ax)
    return p


def scale_build(K, nprng, kernel, dn, p):
    """one at-scale case of `kernel` on dtype dn with parameters p -> (call(fn) -> output, expected output, iterations of the
    parallel loop, elements, largest |value| a float32 has to hold).  Deterministic in (nprng state, kernel, dn, p): a case is replayed by calling this again."""
    dt = {"u1": np.uint8, "f4": np.float32, "i4": np.int32, "f8": np.float64}[dn]
    vcap = 256 if dn == "u1" else 1000
    f8 = np.float64
    if kernel == "extract_tim":
        C, N, idx = p
        x = _sc_data(nprng, C, N, dt, vcap, row_cap=F24 - 1)
        o0 = _sc_ints(nprng, N + idx + 2, 50, np.float32)
        want = o0.copy()
        s = x.reshape(N, C).sum(1, dtype=f8)
        want[idx:idx + N] = s.astype(np.float32)

        def call(f):
            o = o0.copy(); f(x, o, C, N, idx); return o
        return call, want, N, C * N, float(s.max(initial=0))
    if kernel == "extract_bpass":
        C, N = p
        x = _sc_data(nprng, C, N, dt, vcap, col_cap=F24 - 64)
        o0 = _sc_ints(nprng, C, 50, np.float32)
        s = o0.astype(f8) + x.reshape(N, C).sum(0, dtype=f8)
        want = s.astype(np.float32)

        def call(f):
            o = o0.copy(); f(x, o, C, N); return o
        return call, want, C, C * N, float(s.max(initial=0))
    if kernel == "mask_channels":
        C, N = p
        x = _sc_wide(nprng, C * N, dn)
        mask = nprng.integers(0, 2, C).astype(bool)
        mask[int(nprng.integers(0, C))] = True
        mv = dt(201) if dn == "u1" else np.float32(-7.5)
        want = x.copy()
        want.reshape(N, C)[:, mask] = mv

        def call(f):
            y = x.copy(); f(y, mask.copy(), mv, C, N); return y
        return call, want, C, C * N, 0.0
    if kernel in ("dedisperse", "subband"):
        if kernel == "dedisperse":
            C, N, md, idx = p
            S = 1
        else:
            C, N, S, md = p
            idx = 0
        d = nprng.integers(0, md + 1, C).astype(np.int32)
        d[int(nprng.integers(0, C))] = md
        x = _sc_data(nprng, C, N, dt, vcap, row_cap=F24 - 64)
        n = N - md
        cts = (np.arange(C, dtype=np.int32) // (C // S)).astype(np.int32)
        o0 = _sc_ints(nprng, n * S + idx + 1, 50, np.float32)
        s = _sc_delayed(x.reshape(N, C), d, n, cts, S).ravel() + o0[idx:idx + n * S]
        want = o0.copy()
        want[idx:idx + n * S] = s.astype(np.float32)
        if kernel == "dedisperse":
            def call(f):
                o = o0.copy(); f(x, o, d, md, C, N, idx); return o
        else:
            def call(f):
                o = o0.copy(); f(x, o, d, cts, md, C, S, N); return o
        return call, want, n, C * N, float(s.max(initial=0))
    if kernel == "invert_freq":
        C, N = p
        x = _sc_wide(nprng, C * N, dn)
        want = x.reshape(N, C)[:, ::-1].ravel().copy()
        return (lambda f: f(x, C, N)), want, N, C * N, 0.0
    if kernel == "remove_zerodm":
        C, N = p
        if dn == "u1":      # results must stay inside 0..255:  0 <= x - zerodm * w + bp  with  zerodm <= 200 <= bp <= 202, x <= 50
            x = _sc_data(nprng, C, N, dt, 51, row_cap=200)
            bp = (200 + nprng.integers(0, 3, C)).astype(np.float32)
        else:
            x = _sc_data(nprng, C, N, dt, 10, row_cap=F24 // 2)
            bp = nprng.integers(0, 3, C).astype(np.float32)
        wts = nprng.integers(0, 2, C).astype(np.float32)
        X = x.reshape(N, C)
        z = X.sum(1, dtype=np.int64).astype(np.int32)          # everything here is an integer below 2**24: int32 arithmetic is exact
        r = X.astype(np.int32)
        r -= z[:, None] * wts.astype(np.int32)[None, :]
        r += bp.astype(np.int32)[None, :]
        big = float(np.abs(r).max(initial=0)) if dn != "u1" else (0.0 if (r.min(initial=0) >= 0 and r.max(initial=0) <= 255) else float(F24))
        want = np.full(x.size + 1, 7, dtype=dt)
        want[:x.size] = r.ravel().astype(dt)
        del r

        def call(f):
            o = np.full(x.size + 1, 7, dtype=dt); f(x, o, bp, wts, C, N); return o
        return call, want, N, C * N, big
    if kernel == "downsample_1d_mean_parallel":
        n, fac = p
        nout = n // fac
        m = 20
        k = nprng.integers(m, (256 if dn == "u1" else 1000) - m, (nout, 1), dtype=np.int16)
        v = k + _sc_zero_sum(nprng, (nout, fac), m, (1,))
        arr = np.concatenate([v.ravel(), nprng.integers(0, 50, n - nout * fac, dtype=np.int16)])
        del v
        if dn == "i4":      # int32 data next to the upper limit of the dtype (fac * 2**31 < 2**53: the float64 bin sums stay exact)
            arr = arr.astype(np.int64) + 2147480000
        arr = arr.astype(dt)
        s = arr[:nout * fac].reshape(nout, fac).sum(1, dtype=np.int64)
        big = 0.0 if np.all(s % fac == 0) else float(F24)      # the mean of every bin is an integer
        want = (s // fac).astype(dt)
        return (lambda f: f(arr, fac)), want, nout, n, big
    if kernel == "downsample_2d_mean_parallel":
        d1, d2, f1, f2 = p
        n1, n2 = d1 // f1, d2 // f2
        m = 10
        k = nprng.integers(2 * m, (256 if dn == "u1" else 1000) - 2 * m, (n1, 1, n2, 1), dtype=np.int16)
        a = np.zeros((d1, d2), dtype=np.int16)
        a[:] = nprng.integers(0, 50, (1, d2), dtype=np.int16)
        a[:, n2 * f2:] += 3
        a[:n1 * f1, :n2 * f2] = (k + _sc_zero_sum(nprng, (n1, f1, n2, f2), m, (1, 3))).reshape(n1 * f1, n2 * f2)
        if dn == "i4":      # int32 data next to the lower limit of the dtype
            a = a.astype(np.int64) - 2147480000
        arr = a.astype(dt).ravel()
        del a
        s = arr.reshape(d1, d2)[:n1 * f1, :n2 * f2].reshape(n1, f1, n2, f2).sum(axis=(1, 3), dtype=np.int64)
        big = 0.0 if np.all(s % (f1 * f2) == 0) else float(F24)
        want = (s // (f1 * f2)).astype(dt).ravel()
        return (lambda f: f(arr, f1, f2, d1, d2)), want, n1, d1 * d2, big
    raise KeyError(kernel)


def scale_moments_data(nprng, C, N, cmax, flat_after=None):
    """moments_data, vectorised: x_n = mean_{n-1} + n * c_n with c_n in 0..cmax, so the running mean of every channel is an integer;
    after `flat_after` samples every further sample equals the mean (the central sums then stay what they were).  int32 (N, C)."""
    c = nprng.integers(0, cmax + 1, (N, C), dtype=np.int32)
    c[0] = nprng.integers(1, 40, C, dtype=np.int32)
    if flat_after is not None:
        c[flat_after:] = 0
    x = c * np.arange(1, N + 1, dtype=np.int32)[:, None]
    np.cumsum(c, axis=0, out=c)
    x[1:] += c[:-1]
    return x


# (kernel, dtype, parameters): C = channels, N = samples.  Element counts straddle 2**16, 2**18, 2**20, 2**22 and 2**24 in both
# orientations (very many samples / very many channels), offsets and delays beyond 2**16
_SC_SAMPLES = [(1, 65535), (1, 65536), (1, 65537), (256, 256), (257, 255), (3, 87382), (4, 65536), (512, 513), (1, 1048577), (16, 65536),
               (1023, 1025), (64, 16385), (63, 66577), (65537, 1), (65537, 3), (262145, 2), (1048577, 2), (4194305, 1), (1, 4194305)]
_SC_SAMPLES_X = {"u1": [(64, 65536), (2048, 2049), (16, 1048577), (16777217, 1), (1, 16777217)], "f4": [(16, 1048577)]}
_SC_CHANS = [(65535, 1), (65536, 1), (65537, 1), (65537, 3), (256, 256), (262145, 2), (4, 65536), (513, 512), (1048577, 1), (1048576, 4),
             (16385, 64), (1025, 1023), (4194305, 1), (66577, 63), (1, 65537), (3, 87382), (4, 1048577), (1, 4194305)]
_SC_CHANS_X = {"u1": [(65536, 64), (2049, 2048), (1048577, 16), (16777217, 1), (16, 1048577), (1, 16777217)], "f4": [(1048577, 16), (16, 1048577)]}


def scale_specs():
    sp = []
    for dn in ("u1", "f4"):
        for C, N in _SC_SAMPLES + _SC_SAMPLES_X[dn]:
            sp.append(("extract_tim", dn, (C, N, (C + N) % 4)))
            sp.append(("invert_freq", dn, (C, N)))
            sp.append(("remove_zerodm", dn, (C, N)))
            md = min(N - 1, (C * 7 + N) % 6)
            sp.append(("dedisperse", dn, (C, N, md, (C + N) % 4)))
            subs = [s for s in (4, 64) if C % s == 0 and s < C] + ([C] if 1 < C <= 4096 else [])
            for S in ([1] + subs if C * N < (1 << 22) else (subs[-1:] or [1])):
                sp.append(("subband", dn, (C, N, S, md)))
        sp.append(("extract_tim", dn, (4, 16384, (1 << 20) + 3)))            # a gulp written far into the output (index beyond 2**16, 2**20)
        sp.append(("extract_tim", dn, (64, 16385, 65535)))
        sp.append(("dedisperse", dn, (4, 20000, 1000, (1 << 20) + 3)))
        sp.append(("dedisperse", dn, (8, 200000, 70001, 65537)))             # delays beyond 2**16
        sp.append(("dedisperse", dn, (64, 70000, 40000, 0)))
        sp.append(("subband", dn, (64, 140000, 8, 66000)))
        sp.append(("subband", dn, (16, 300000, 16, 1 << 17)))
        for C, N in _SC_CHANS + _SC_CHANS_X[dn]:
            sp.append(("extract_bpass", dn, (C, N)))
            sp.append(("mask_channels", dn, (C, N)))
    for dn, n, fac in (("u1", 65535, 1), ("u1", 65536, 2), ("f4", 65537, 3), ("f4", 262145, 7), ("u1", 1048579, 2), ("i4", 1048576, 49),
                       ("f8", 4194305, 98), ("u1", 4194304, 1), ("f4", 4194309, 65537), ("u1", 16777221, 16), ("i4", 3 * 1048577 + 5, 1048577),
                       ("f4", 16777216, 4), ("u1", 16777217, 65536), ("f8", 1048577, 1), ("u1", 300007, 3)):
        sp.append(("downsample_1d_mean_parallel", dn, (n, fac)))
    for dn, d1, d2, f1, f2 in (("u1", 65537, 4, 2, 2), ("f4", 4, 65537, 2, 2), ("u1", 1025, 1023, 3, 2), ("f4", 16385, 64, 2, 1),
                               ("u1", 70000, 64, 4, 2), ("i4", 70001, 64, 7, 7), ("f8", 4099, 1024, 14, 7), ("u1", 4097, 4099, 7, 7),
                               ("f4", 2049, 2047, 1, 2), ("u1", 3, 1048577, 1, 65537), ("f4", 262145, 16, 65537, 1), ("u1", 16, 1048577, 16, 1),
                               ("u1", 262145, 16, 1, 16), ("i4", 2, 2097153, 2, 1), ("f4", 2097153, 2, 1, 2)):
        sp.append(("downsample_2d_mean_parallel", dn, (d1, d2, f1, f2)))
    return sp


def _sc_cfgs(iters, maxthreads, elements):
    """(threads, parallel chunk size): one thread (the sequential evaluation of the compiled loop), all threads with the default split,
    and dynamic schedules with some 61 / 5 chunks of a size that does not divide the loop"""
    c = [(1, 0), (maxthreads, 0), (min(7, maxthreads), max(1, iters // 61))]
    if elements < (1 << 21):
        c.append((min(3, maxthreads), max(1, iters // 5)))
    out = []
    for t in c:
        if t not in out:
            out.append(t)
    return out


def scale(R: vlib.Run):
    """at-scale search: every parallel kernel on 2**16 .. 2**24 (+-1) elements in both orientations (samples >> channels, channels >>
    samples), offsets / delays / factors beyond 2**16, moments over > 16384 samples and hundreds of chunks, and Filterbank.subband
    over 150000 samples with gulps 16384 / non-dividing / > 65536 -- under 1, 3, 7 and all threads and several chunk sizes, against
    NumPy float64/int64 references on data whose float32 arithmetic is exact"""
    os.environ.setdefault("OMP_WAIT_POLICY", "PASSIVE")
    import numba
    from sigpyproc.core import kernels as K
    seed = R.seed + 1919
    maxthreads = min(16, int(numba.config.NUMBA_NUM_THREADS))
    saved_threads = numba.get_num_threads()
    where = "props/c19.py scale_build(K, numpy.random.default_rng([seed, case_index]), kernel, dtype, params)"
    nfail = {}

    def report(key, what, case):
        nfail[key] = nfail.get(key, 0) + 1
        if nfail[key] <= 3:
            R.fail(key, what, case)

    def run_cfgs(fn, call, want, base, iters, elements, key_kernel):
        """call the compiled kernel under every thread configuration; compare with the reference and with each other"""
        wantb = out_bytes(want)
        outs = []
        for n, ch in _sc_cfgs(iters, maxthreads, elements):
            case = dict(base, threads=n, chunksize=ch)
            R.tick(case)
            numba.set_num_threads(n)
            numba.set_parallel_chunksize(ch)
            try:
                got = call(fn)
            except Exception as e:  # noqa: BLE001
                outs.append((n, ch, False, {"raised": f"{type(e).__name__}: {str(e)[:120]}"}))
                continue
            finally:
                numba.set_parallel_chunksize(0)
            ok = out_bytes(got) == wantb
            outs.append((n, ch, ok, None if ok else first_diff(got, want)))
            del got
        bad = [o for o in outs if not o[2]]
        if bad:
            same = len(bad) == len(outs) and all(o[3] == bad[0][3] for o in bad)
            if same:
                report(f"scale-ref-{key_kernel}", "at scale the compiled kernel gives, under every thread configuration, a result that differs from the NumPy reference of its definition",
                       dict(base, configurations=[[o[0], o[1]] for o in outs], diff=bad[0][3]))
            else:
                report(f"scale-sched-{key_kernel}", "at scale the result of the compiled kernel depends on the thread count / chunk size (and differs from the NumPy reference)",
                       dict(base, agree_with_reference=[[o[0], o[1]] for o in outs if o[2]], differ=[{"threads": o[0], "chunksize": o[1], "diff": o[3]} for o in bad[:3]]))

    try:
        # ---------------- the kernels on exact data ------------------------------------------------
        for i, (kernel, dn, p) in enumerate(scale_specs()):
            nprng = np.random.default_rng([seed, i])
            base = {"kernel": kernel, "dtype": dn, "params": list(p), "seed": seed, "case_index": i, "data": where}
            R.tick(base)
            R.case(("scale", kernel, dn, p), regime="scale")
            call, want, iters, elements, big = scale_build(K, nprng, kernel, dn, p)
            if big >= F24:     # the generator promised exact float32 arithmetic: never compare where it is not
                R.notes.append(f"scale: case {i} ({kernel} {dn} {p}) skipped: its sums reach {big:.0f}, float32 arithmetic would not be exact")
                continue
            run_cfgs(getattr(K, kernel), call, want, base, iters, elements, kernel)
            del call, want

        # ---------------- online moments ---------------------------------------------------------
        scale_moments(R, K, numba, seed, maxthreads, report)

        # ---------------- Filterbank.subband: the kernel call it really makes, at scale -----------
        scale_subband_site(R, K, numba, seed, maxthreads, report)
    finally:
        numba.set_num_threads(saved_threads)
        numba.set_parallel_chunksize(0)


def scale_moments(R, K, numba, seed, maxthreads, report):
    """(a) very many channels x a few samples, two chunks: every field exact;  (b) 1001 samples in 143 chunks of 7, the samples after
    the sixth equal to the mean: every field exact (the float32 record holds the sums);  (c) > 16384 / > 65536 / > 2**20 samples in
    chunks of a gulp: count, extrema and mean exact, central sums to float32 accuracy.  Always bit-identical across configurations."""
    table = [("a", C, N, [N // 2], 2) for C, N in ((65535, 5), (65536, 4), (65537, 5), (262145, 4), (1048577, 4))]
    table += [("b", 5, 1001, list(range(7, 1001, 7)), 2), ("b", 1, 1001, list(range(7, 1001, 7)), 2), ("b", 300, 2000, list(range(16, 2000, 16)), 2)]
    table += [("c", 4, 70000, [], 1), ("c", 4, 70000, list(range(16384, 70000, 16384)), 2), ("c", 1, 70001, [65537], 1), ("c", 64, 20000, [16384], 2),
              ("c", 16, 1048577, [], 1), ("c", 16, 262145, [100000, 200000], 2), ("c", 1024, 4100, [4096], 1),
              ("c", 8, 50000, list(range(500, 50000, 500)), 2)]
    for j, (cls, C, N, cuts, cmax) in enumerate(table):
        nprng = np.random.default_rng([seed, 5000 + j])
        flat = 6 if cls == "b" else None
        x = scale_moments_data(nprng, C, N, cmax, flat)
        gen = f"props/c19.py scale_moments_data(numpy.random.default_rng([{seed}, {5000 + j}]), {C}, {N}, {cmax}, {flat})"
        tot = x.sum(0, dtype=np.int64)
        if x.max() >= F24 or np.any(tot % N):
            R.notes.append(f"scale: moments case {j} skipped: samples reach {int(x.max())} or a mean is not an integer")
            continue
        xf = x.astype(np.float32).ravel()
        bounds = [0] + list(cuts) + [N]
        # reference: exact mean, central sums in float64
        mu = tot // N
        ref = np.zeros((C, 7))
        ref[:, 0] = N; ref[:, 1] = mu; ref[:, 5] = x.min(0); ref[:, 6] = x.max(0)
        d = x - mu
        del x
        d = d.astype(np.float64)
        dk = d * d
        ref[:, 2] = dk.sum(0)
        dk *= d
        ref[:, 3] = dk.sum(0)
        dk *= d
        ref[:, 4] = dk.sum(0)
        del d, dk
        tol = np.zeros((C, 7))
        if cls == "c" or np.abs(ref[:, 2:5]).max() >= F24:
            rt = 3e-7 * (len(bounds) + 1)
            tol[:, 2:5] = rt * np.abs(ref[:, 2:5])
            tol[:, 3] = np.maximum(tol[:, 3], rt * N * (ref[:, 2] / N) ** 1.5)     # the third central sum may cancel: scale N * sigma**3
        for basic in (False, True):
            name = "compute_online_moments_basic" if basic else "compute_online_moments"
            fn = getattr(K, name)
            base = {"kernel": name, "channels": C, "samples": N,
                    "chunks_end_at": cuts if len(cuts) < 8 else f"{cuts[0]}, {cuts[1]}, ... (every {cuts[1] - cuts[0]})", "seed": seed, "data": gen}
            R.tick(base)
            R.case(("scale", name, C, N, len(cuts)), regime="scale")
            want = ref.copy()
            if basic:
                want[:, 3:5] = 0
            first = None
            for n, ch in _sc_cfgs(C, maxthreads, C * N):
                case = dict(base, threads=n, chunksize=ch)
                mom = np.zeros(C, dtype=K.moments_dtype)
                numba.set_num_threads(n)
                err = None
                for a, b in zip(bounds[:-1], bounds[1:]):
                    R.tick(case)
                    numba.set_parallel_chunksize(ch)
                    try:
                        fn(xf[a * C:b * C], mom, a)
                    except Exception as e:  # noqa: BLE001
                        err = f"{type(e).__name__}: {str(e)[:120]}"
                        break
                    finally:
                        numba.set_parallel_chunksize(0)
                if err is not None:
                    report(f"scale-ref-{name}", "at scale the moments kernel raised", dict(case, raised=err, chunk=[a, b]))
                    continue
                rows = rec_to_rows(mom)
                if first is None:
                    first = rows
                elif rows.tobytes() != first.tobytes():
                    report(f"scale-sched-{name}", "at scale the accumulated moments depend on the thread count / chunk size",
                           dict(case, versus={"threads": 1, "chunksize": 0}, diff=first_diff(rows, first)))
                    continue
                badm = ~(np.abs(rows - want) <= tol)
                if badm.any():
                    ic, fld = (int(t) for t in np.argwhere(badm)[0])
                    report(f"scale-ref-{name}", "at scale the accumulated moments differ from the moments of the samples (count, extrema and mean exactly; "
                                                "central sums exactly while float32 holds them, else to float32 accuracy)",
                           dict(case, channel=ic, field=FIELDS[fld], got=float(rows[ic, fld]), expected=float(want[ic, fld]), n_different=int(badm.sum())))
        del xf, ref, tol


def scale_subband_site(R, K, numba, seed, maxthreads, report):
    import filutil
    from sigpyproc.readers import FilReader
    d = os.path.join(vlib.SCRATCH, f"c19s_{os.getpid()}")
    os.makedirs(d, exist_ok=True)
    try:
        for j, (nch, N, nsub) in enumerate(((64, 150000, 8), (8, 300000, 8), (1024, 20000, 4))):
            ranges = ((0, N), (4321, N - 10000)) if j == 0 else ((123, N - 123),)
            nprng = np.random.default_rng([seed, 9000 + j])
            x = nprng.integers(0, 200, (N, nch), dtype=np.uint8)
            p = filutil.write_fil(os.path.join(d, f"s{j}.fil"), x, 8, fch1=400.0, foff=-200.0 / nch, tsamp=0.001)
            fil = FilReader(p)
            dm = next((float(v) for v in np.linspace(0.5, 400, 400) if 1500 < int(fil.header.get_dmdelays(float(v)).max()) < 3000), 1.0)
            delays = np.asarray(fil.header.get_dmdelays(dm)).astype(np.int64)
            delays = delays - min(0, int(delays.min()))
            md = int(delays.max())
            cts = np.arange(nch) // (nch // nsub)
            for start, nsamps in ranges:
                want = _sc_delayed(x[start:start + nsamps], delays, nsamps - md, cts, nsub).astype(np.float32)
                for gulp in (16384, 20011, 70000):
                    for n, ch in ((maxthreads, 0), (min(7, maxthreads), 271)) + (((1, 0),) if gulp == 16384 else ()):
                        case = {"call": "FilReader(file).subband(dm, nsub, gulp=gulp, start=start, nsamps=nsamps)", "nbits": 8, "nchans": nch, "N": N, "nsub": nsub,
                                "dm": dm, "maxdelay": md, "start": start, "nsamps": nsamps, "gulp": gulp, "threads": n, "chunksize": ch, "seed": seed,
                                "data": f"numpy.random.default_rng([{seed}, {9000 + j}]).integers(0, 200, (N, nchans), dtype=uint8), see props/c19.py scale_subband_site()"}
                        R.tick(case)
                        R.case(("scale", "subband-site", nch, start, gulp, n, ch), regime="scale")
                        out = os.path.join(d, "out.sub")
                        real = K.subband

                        def chunked(*a, real=real, ch=ch):     # the chunk size is consumed by the next parallel region: set it at the call
                            numba.set_parallel_chunksize(ch)
                            try:
                                return real(*a)
                            finally:
                                numba.set_parallel_chunksize(0)
                        numba.set_num_threads(n)
                        K.subband = chunked
                        try:
                            fil.subband(dm, nsub, outfile_name=out, gulp=gulp, start=start, nsamps=nsamps, quiet=True)
                            o = FilReader(out)
                            got = o.read_block(0, o.header.nsamples).data.T
                            err = None
                        except Exception as e:  # noqa: BLE001
                            got, err = None, f"{type(e).__name__}: {str(e)[:100]}"
                        finally:
                            K.subband = real
                        if err is not None or got.shape != want.shape or not np.array_equal(got, want):
                            diff = err if err is not None else ({"shape_got": list(got.shape), "shape_expected": list(want.shape)} if got.shape != want.shape
                                                                else first_diff(got, want))
                            report("scale-subband-callsite", "Filterbank.subband at scale differs from sum over the channels of a sub-band of x[t + delay_c][c] under this thread configuration",
                                   dict(case, diff=diff))
            del fil, x
            os.remove(p)
    finally:
        shutil.rmtree(d, ignore_errors=True)
