"""C04 -- what is written is what is read back, for every format and sample depth.

Proof: Props/C04.v -- verdict theorems over Model/C04_Writer.v instantiated with Gen/C04Io.v (regenerated from
fileio.py / bits.py / sigproc.py / header.py / readers.py / timeseries.py / fourierseries.py / block.py on every run).
Correspondence: the model under vm_compute (cwrite bytes, whole product file, re-read values, series products) against
the implementation on the same inputs.
Oracle: the property restated with NumPy on the implementation's products -- every in-memory dtype x depth x shape
through prep_outfile + cwrite + FilReader, FilterbankBlock.to_file, .tim, .dat/.inf, .spec, .fft/.inf, and the two
library call sites that hand cwrite an array of another dtype (extract_chans, requantize).

Oracle keys (stable finding classes):
  cwrite-width            data section is not nsamps*nchans*nbits bits (array written at its own item size)
  cwrite-refused-own-type an array that already has the file's sample type was refused
  fil-nsamples / fil-values / fil-meta          inferred sample count / values, shape, order / tsamp, tstart, DM
  cwrite-width-rescale    the same width clause with rescale=True
  to_file-{width,nsamples,values,meta}
  tim-{nsamples,values,meta}  dat-{nsamples,values,meta}  spec-{nsamples,values,meta}  fft-{nsamples,values,meta}
  extract_chans-{width,nsamples,values,meta}   requantize-{width,nsamples,values,meta}
  held-timeseries / held-block / held-fourier   the object does not hold (as float32 / complex64) the values it was constructed
                          from: checked against NumPy's own conversion BEFORE anything is written, so that the expectation of the
                          round trip never rests on the constructor under test
  (cwrite-refused-own-type also covers: read-only / strided 1-D uint8 arrays at 1/2/4 bits, a float32 array handed to a 32-bit
   writer with rescale=True; requantize-values also covers a requantize refused although the blocks have the output's sample type)
Only the first failing clause of a case is reported (width before count before values before metadata), so that one
defect does not show up under four keys.

.inf tolerance (the only place where the comparison is not bit-exact): make_inf prints tstart with 15 decimals
('05.15f': absolute error <= 5e-16, far below half an ulp of an MJD, 3.6e-12, so the nearest double is recovered: we
allow 1 ulp), tsamp with 15 significant digits ('.15g': relative error <= 5e-15; we allow 1e-14) and DM with 12
('.12g': relative error <= 5e-12; we allow 1e-11).  SIGPROC headers store doubles: exact equality is demanded.

At-scale search (`scale(R)`, see its docstring for the table of regimes): the same clauses on products of 2**16 .. 2**25 elements,
many cwrite calls, gulps beyond 16384 / 65536 samples, thousands of channels.  Keys: scale-cwrite-{refused-own-type,width,nsamples,
values,meta}, scale-cwrite-width-rescale, scale-to_file-*, scale-{tim,dat,spec,fft}-{nsamples,values,meta},
scale-extract_chans-{width,nsamples,values}, scale-requantize-{width,nsamples,values}."""
import os
import re
import shutil
import warnings

import numpy as np

import vlib

DTYPES = ["uint8", "uint16", "int64", "float32", "float64"]
DEPTHS = [1, 2, 4, 8, 16, 32]
FILE_DT = {1: "uint8", 2: "uint8", 4: "uint8", 8: "uint8", 16: "uint16", 32: "float32"}
COQ_DT = {"uint8": "U8", "uint16": "U16", "int64": "I64", "float32": "F32", "float64": "F64"}


def bits32(x):
    return np.ascontiguousarray(np.asarray(x, dtype=np.float32)).view(np.uint32)


def same_bits(a, b):
    a = np.asarray(a); b = np.asarray(b)
    return a.shape == b.shape and np.array_equal(bits32(a), bits32(b))


def mk_header(path, nchans, nbits, nsamps, tsamp, tstart, dm, data_type="filterbank"):
    from sigpyproc.header import Header
    return Header(filename=path, data_type=data_type, nchans=nchans, foff=-0.5, fch1=1400.0, nbits=nbits, tsamp=tsamp,
                  tstart=tstart, nsamples=nsamps, dm=dm)


def hdrlen_of(path):
    from sigpyproc.io import sigproc
    return int(sigproc.parse_header(path)["hdrlen"])


def values_for(rng, dt, nbits, n, kind):
    """n values representable at depth nbits AND in dtype dt; kind: 'int' (integers only) or 'any'"""
    d = np.dtype(dt)
    if nbits < 32:
        hi = min((1 << nbits) - 1, np.iinfo(d).max if d.kind in "ui" else (1 << nbits) - 1)
        v = [rng.choice([0, hi, rng.randint(0, hi)]) for _ in range(n)]
        return np.array(v).astype(d)
    # 32-bit files hold float32: every float32 value that the in-memory dtype can hold
    if d.kind == "u":
        hi = np.iinfo(d).max
        return np.array([rng.choice([0, hi, rng.randint(0, hi)]) for _ in range(n)]).astype(d)
    if d.kind == "i":
        v = np.array([rng.choice([0, -1, (1 << 24) - 1, -(1 << 24) + 1, rng.randint(-(1 << 24) + 1, (1 << 24) - 1)]) for _ in range(n)]).astype(d)
        if kind == "any" and rng.random() < 0.5:       # integers beyond 2**24 that float32 holds exactly (the Coq model's integer range stops at 2**24)
            for i in range(n):
                if rng.random() < 0.3:
                    v[i] = rng.choice([1 << 24, -(1 << 24), 1 << 40, -(1 << 40), 3 << 39, 1 << 62, -(1 << 62), (rng.randint(1, (1 << 24) - 1)) << rng.randint(1, 38)])
        return v
    if kind == "int":
        return np.array([rng.choice([0, -1, 16777215, -16777215, rng.randint(-70000, 70000)]) for _ in range(n)]).astype(d)
    v = [rng.choice([0.0, -0.0, 1.5, -2.75, 3.0e-5, -1.0e20, 65504.0, float(np.float32(rng.uniform(-1e3, 1e3))),
                     float(np.float32(rng.uniform(-1, 1) * 10.0 ** rng.randint(-30, 30)))]) for _ in range(n)]
    a = np.array(v, dtype=np.float32)
    # every float32 bit pattern is a representable value of a 32-bit file: quiet NaNs (default, with a payload, negative), the
    # infinities, the smallest / a mid-range / the largest subnormal of either sign, the largest finite value (compared bit for bit)
    for i in range(n):
        if rng.random() < 0.12:
            a.view(np.uint32)[i] = rng.choice(F32_SPECIAL)
    return a.astype(d)


F32_SPECIAL = [0x7FC00000, 0x7FC01234, 0xFFC00001, 0x7F800000, 0xFF800000, 0x00000001, 0x80000001, 0x00400000, 0x007FFFFF, 0x807FFFFF,
               0x7F7FFFFF, 0xFF7FFFFF, 0x00800000]


def meta_values(rng):
    tsamp = rng.choice([0.001, 6.4e-05, 8.192e-05, float(2.0 ** -rng.randint(8, 16)), rng.uniform(1e-6, 1e-2),
                        rng.choice([1e-9, 1.0, 1.0 / 3.0, 10.0 ** rng.uniform(-9, 2)])])
    tstart = rng.choice([60000.0, 50000.125, 58849.000011574074, rng.uniform(40000, 70000),
                         rng.choice([0.0, 1.5, 99999.999999999, rng.uniform(0, 1e5)])])
    dm = rng.choice([0.0, 12.5, 56.7789, rng.uniform(0, 3000), rng.choice([1e-6, 99999.123456789, 10.0 ** rng.uniform(-6, 5)])])
    return tsamp, tstart, dm


def check_meta(R, key, h, tsamp, tstart, dm, case, inf=False):
    if inf:
        ok = (abs(h.tstart - tstart) <= abs(np.spacing(tstart)) and abs(h.tsamp - tsamp) <= 1e-14 * abs(tsamp)
              and abs(h.dm - dm) <= 1e-11 * abs(dm))
    else:
        ok = h.tsamp == tsamp and h.tstart == tstart and h.dm == dm
    if not ok:
        R.fail(key, "timing metadata (tsamp, tstart, DM) changed by the write / read", dict(case, got=[h.tsamp, h.tstart, h.dm], want=[tsamp, tstart, dm]))
    return ok


def small(a, k=24):
    return [x.item() for x in np.asarray(a).ravel()[:k]]


# ------------------------------------------------------------------------------------------------------------
def run(R: vlib.Run):
    warnings.filterwarnings("ignore")
    from sigpyproc.block import FilterbankBlock
    from sigpyproc.fourierseries import FourierSeries
    from sigpyproc.io.fileio import FileWriter
    from sigpyproc.readers import FilReader
    from sigpyproc.timeseries import TimeSeries

    R.rule = ("in-memory dtypes {uint8,uint16,int64,float32,float64} x depths {1,2,4,8,16,32} x shapes (nsamps in {1,2,3,5,..}, "
              "nchans with nchans*nbits%8==0 incl. the smallest) x values representable at the depth and in the dtype (extremes 0 and "
              "max, random; at 32 bits also fractions, negatives, -0.0, tiny/huge magnitudes) x one or two cwrite calls; "
              "FilterbankBlock.to_file, .tim, .dat/.inf, .spec, .fft/.inf from every dtype (32-bit values: every float32 bit pattern class -- "
              "quiet NaNs with payload, infinities, subnormals, largest finite -- and int64 beyond 2**24; Fourier series also handed over as complex128 "
              "and as real arrays); read-only / strided 1-D arrays at every depth; values NOT representable at the depth for the width clause; "
              "timing metadata incl. tstart 0 .. 1e5, tsamp 1e-9 .. 100, DM 1e-6 .. 1e5; default product names, explicit inffile=, "
              "prep_outfile(updates=); extract_chans / requantize on inputs of every depth.  A case is non-trivial when it writes >= 1 sample; distinct = distinct (path, dtype, depth, shape, values)")
    R.trusted += [
        "Coq 8.16.1 kernel + vm_compute",
        "tools/py2coq/gen_c04.py: classifies the array expressions of cwrite (as-is / converted to self.bitsinfo.dtype / refused), reads the "
        "depth->dtype, bit-order and unpack tables, pack's dtype check and packed length, the nsamples expression (py2coq.expr), and checks "
        "prep_outfile, FilReader.read_block, the eight series methods and to_file statement by statement (fail closed)",
        "hand model Model/C04_Writer.v (cwrite, tofile/fromfile, little-endian and IEEE-754 words of integers, series writers/readers), tied "
        "to the code by that statement check and by the byte-for-byte correspondence run",
        "C02 reader model Model/Stream.v + Proofs/C02_stream.v (read_block_bytes) and the C03 kernel theorems (pack/unpack) are reused",
        "correspondence harness and NumPy oracle in tools/harness/props/c04.py",
    ]
    R.assume += [
        "numpy.tofile writes the C-order machine representation of the array and flushes before close returns; np.fromfile reads whole items",
        "ndarray.astype on representable values keeps the value (checked by the correspondence, not proved)",
        "SIGPROC header encode/parse round trip is C05's subject (section hypothesis of C04_meta_carried); .inf decimal formatting is external "
        "(numerical check with the tolerance justified in the module docstring)",
        "rescale=True (BitsInfo.quantize) is outside the model; only the written width is checked for it",
        "arrays are one-dimensional and contiguous, as cwrite documents; sample values of the model are integers (floats: |v| < 2^24 / 2^53)",
        "at 1, 2 and 4 bits the array handed to cwrite is one-dimensional (read-only and strided ones included): a two-dimensional uint8 array, "
        "C- or Fortran-ordered, is refused there by the packing kernel's signature (TypeError) although it has the file's sample type; at 8, 16 "
        "and 32 bits every layout is exercised",
        "strided TimeSeries, FilterbankBlock and FourierSeries inputs are exercised (a Fourier series held as a strided complex64 view is "
        "copied into C order by to_spec / to_fft before its float pairs are written)",
        "the count clause for .spec accepts the n complex bins or the 2n float32 words (what nsamples means for a Fourier series is C08's "
        "subject); for .fft/.inf the count travels in the .inf and must read back as the header handed to to_fft declared it",
    ]
    R.prove("Props/C04.v")
    R.need(["Model/C04_Writer.vo", "Model/C04_Multi.vo"])

    rng = R.rng
    quick = R.tier == "quick"
    d = os.path.join(vlib.SCRATCH, f"c04_{os.getpid()}")
    shutil.rmtree(d, ignore_errors=True)
    os.makedirs(d)
    fired = set()

    def fail(key, what, case):
        fired.add(key)
        R.fail(key, what, case)

    corr_w, corr_f, corr_s, corr_v = [], [], [], []       # correspondence cases
    try:
        # ---------------------------------------------------------------------------------------------
        # 1. prep_outfile + cwrite + FilReader
        # ---------------------------------------------------------------------------------------------
        shapes_per = 3 if quick else 24
        for nbits in DEPTHS:
            unit = max(1, 8 // nbits)                     # smallest nchans with nchans*nbits % 8 == 0
            for dt in DTYPES:
                shapes = [(1, unit), (3, 2 * unit), (rng.choice([2, 5, 7]), unit * rng.choice([1, 3, 4]))]
                shapes += [(rng.randint(1, 40 if si_ % 3 else 600), unit * rng.randint(1, 6 if si_ % 2 else 64)) for si_ in range(shapes_per - 3)]
                for si, (nsamps, nchans) in enumerate(shapes):
                    for kind in ("int", "any"):
                        vals = values_for(rng, dt, nbits, nsamps * nchans, kind)
                        tsamp, tstart, dm = meta_values(rng)
                        hdr_nbits = rng.choice(DEPTHS)    # depth of the header the writer is prepared from (overridden by nbits=)
                        path = os.path.join(d, f"f_{nbits}_{dt}_{si}_{kind}.fil")
                        hdr = mk_header(path, nchans, hdr_nbits, nsamps, tsamp, tstart, dm)
                        split = rng.choice([0, 0, rng.randint(1, nsamps)]) if nsamps > 1 else 0
                        case = {"path": "prep_outfile+cwrite", "dtype": dt, "nbits": nbits, "nsamps": nsamps, "nchans": nchans,
                                "split_at_sample": split, "values": small(vals), "header_nbits": hdr_nbits}
                        R.case(("fil", dt, nbits, nsamps, nchans, split, vals.tobytes()), regime=f"fil-{nbits}bit",
                               sample=case if (nbits, dt, si, kind) in ((4, "uint8", 1, "int"), (32, "int64", 1, "int")) else None)
                        refused = None
                        # memory layout of what is handed to cwrite: the same logical (nsamps, nchans) samples in every case
                        # at 1/2/4 bits only the one-dimensional layouts: a 2-D array is refused by the packing kernel's signature (TypeError;
                        # cwrite documents 1-D input, see R.assume).  Read-only and strided 1-D uint8 arrays are written like any other.
                        layout = rng.choice(["flat", "flat", "c2d", "f2d", "tview", "strided", "readonly"] if nbits >= 8 else ["flat", "flat", "strided", "readonly"])
                        case["layout"] = layout
                        if layout == "c2d":
                            arr = vals.reshape(nsamps, nchans)
                        elif layout == "f2d":
                            arr = np.asfortranarray(vals.reshape(nsamps, nchans))
                        elif layout == "tview":
                            arr = np.ascontiguousarray(vals.reshape(nsamps, nchans).T).T
                        elif layout == "strided":
                            big = np.zeros(2 * len(vals), dtype=vals.dtype); big[::2] = vals; arr = big[::2]
                        elif layout == "readonly":
                            arr = vals.copy(); arr.setflags(write=False)
                        else:
                            arr = vals
                        cut = split if arr.ndim == 2 else split * nchans
                        try:
                            w = hdr.prep_outfile(path, nbits=nbits)
                            try:
                                if split:
                                    w.cwrite(arr[:cut]); w.cwrite(arr[cut:])
                                else:
                                    w.cwrite(arr)
                            finally:
                                w.close()
                        except Exception as e:  # noqa: BLE001
                            refused = type(e).__name__
                        if len(vals) <= 48 and kind == "int":        # one call or two (model: write_fil_many, C04_calls_are_one_call)
                            corr_f.append((nbits, nchans, dt, vals, path, refused, split * nchans, layout == "flat" or nbits >= 8))
                        if refused is not None:
                            if dt == FILE_DT[nbits]:
                                fail("cwrite-refused-own-type", f"cwrite raised {refused} for an array of the file's own sample type", case)
                            continue
                        hl = hdrlen_of(path)
                        datalen = os.path.getsize(path) - hl
                        if datalen * 8 != nsamps * nchans * nbits:
                            fail("cwrite-width", "data written at a sample width other than the declared depth",
                                 dict(case, data_bytes=datalen, expected_bytes=nsamps * nchans * nbits // 8))
                            continue
                        try:
                            r = FilReader(path)
                            ns = r.header.nsamples
                            blk = r.read_block(0, ns)
                        except Exception as e:  # noqa: BLE001
                            fail("fil-values", f"re-reading the product raised {type(e).__name__}", case)
                            continue
                        if ns != nsamps:
                            fail("fil-nsamples", "inferred sample count differs from the samples written", dict(case, inferred=ns))
                            continue
                        want = vals.astype(np.float32).reshape(nsamps, nchans).T
                        if r.header.nbits != nbits or not same_bits(blk.data, want):
                            fail("fil-values", "values / shape / order read back differ from what was written",
                                 dict(case, got=small(blk.data.T), got_shape=list(blk.data.shape), header_nbits_read=r.header.nbits))
                            continue
                        check_meta(R, "fil-meta", r.header, tsamp, tstart, dm, case) or fired.add("fil-meta")

        # rescale=True: only the width clause applies (the values are re-quantised on purpose)
        for nbits in DEPTHS:
            for dt in ("float32", "float64"):
                n = 8 * rng.randint(1, 6)
                arr = np.array([rng.gauss(0, 1) for _ in range(n)]).astype(dt)
                path = os.path.join(d, f"rs_{nbits}_{dt}.bin")
                case = {"path": "FileWriter(rescale=True).cwrite", "dtype": dt, "nbits": nbits, "n": n}
                R.case(("rescale", dt, nbits, arr.tobytes()), regime="rescale-width")
                try:
                    with FileWriter(path, mode="w", nbits=nbits, rescale=True) as w:
                        w.cwrite(arr)
                except Exception as e:  # noqa: BLE001
                    # a refusal is allowed for an array that is not of the file's sample type; at 32 bits nothing is re-quantised and a
                    # float32 array IS of the file's type
                    if nbits == 32 and dt == "float32":
                        fail("cwrite-refused-own-type", f"cwrite (rescale=True) raised {type(e).__name__} for a float32 array handed to a 32-bit writer", case)
                    continue
                if os.path.getsize(path) * 8 != n * nbits:
                    fail("cwrite-width-rescale", "rescaled data written at a width other than the declared depth",
                         dict(case, data_bytes=os.path.getsize(path)))

        # bare FileWriter.cwrite for the byte-level correspondence (also values that are NOT representable at the depth,
        # integer -> integer conversions only: there numpy's wrap-around is defined)
        for nbits in DEPTHS:
            unit = max(1, 8 // nbits)
            for dt in DTYPES:
                for rep in range(2 if quick else 10):
                    n = unit * rng.randint(1, 5)
                    if rep == 0 or np.dtype(dt).kind == "f" or nbits == 32:
                        vals = values_for(rng, dt, nbits, n, "int")
                    else:
                        hi = int(min(np.iinfo(np.dtype(dt)).max, 1 << 20))
                        vals = np.array([rng.randint(0, hi) for _ in range(n)]).astype(dt)
                    path = os.path.join(d, f"w_{nbits}_{dt}_{rep}.bin")
                    R.case(("cwrite", dt, nbits, vals.tobytes()), regime="cwrite-bytes")
                    try:
                        with FileWriter(path, mode="w", nbits=nbits) as w:
                            w.cwrite(vals)
                        out = list(open(path, "rb").read())
                    except Exception:  # noqa: BLE001
                        out = None
                    corr_w.append((nbits, dt, vals, out))
                    # the width clause holds for ALL values, representable or not (C04_written_width)
                    if out is not None and len(out) * 8 != n * nbits:
                        fail("cwrite-width", "data written at a sample width other than the declared depth (values not representable at the depth)",
                             {"path": "FileWriter.cwrite", "dtype": dt, "nbits": nbits, "n": n, "values": small(vals), "data_bytes": len(out),
                              "expected_bytes": n * nbits // 8})
                    # the same call on a strided view (every step-th item of a longer buffer, from an offset) and on a read-only array:
                    # model cwrite_view with the regenerated gen_cw_copies_noncontig (C04_layout_verdict)
                    if rep < 2 and np.dtype(dt).kind != "f":
                        for writeable, step in ((True, rng.choice([2, 3])), (False, 1)):
                            off = rng.randint(0, 2)
                            buf = np.array([rng.randint(0, 200) for _ in range(off + step * n + 1)]).astype(dt)
                            buf[off:off + step * n:step] = vals
                            view = buf[off:off + step * n:step]
                            view.setflags(write=writeable)
                            try:
                                with FileWriter(path, mode="w", nbits=nbits) as w:
                                    w.cwrite(view)
                                vout = list(open(path, "rb").read())
                            except Exception:  # noqa: BLE001
                                vout = None
                            R.case(("cwrite-view", dt, nbits, buf.tobytes(), off, step, writeable), regime="cwrite-bytes")
                            corr_v.append((nbits, dt, buf, off, step, n, writeable, vout))
                # a call that does NOT hand over a whole number of bytes at a packed depth (outside the property's quantifier; the model
                # says what pack does: size // bitfact bytes, C04_packed_call_length)
                if nbits < 8 and dt == "uint8":
                    for n_un in (1, unit + 1, 2 * unit + rng.randint(1, unit - 1)) if unit > 1 else ():
                        vals = values_for(rng, dt, nbits, n_un, "int")
                        try:
                            with FileWriter(path, mode="w", nbits=nbits) as w:
                                w.cwrite(vals)
                            out = list(open(path, "rb").read())
                        except Exception:  # noqa: BLE001
                            out = None
                        R.case(("cwrite-unaligned", nbits, vals.tobytes()), regime="cwrite-bytes")
                        corr_w.append((nbits, dt, vals, out))
            # float values that are NOT representable at the depth (negative, fractional, beyond the maximum, NaN, inf): what is stored is
            # unspecified, the width is not (oracle only: the conversion float -> unsigned of such values is outside the model)
            for dt in ("float32", "float64"):
                n = 8 * rng.randint(1, 4)
                vals = np.array([rng.choice([-1.5, 300.7, 7.0e4, -3.0e9, 1.0e20, float("nan"), float("inf"), -float("inf"), 0.5, rng.uniform(-1e5, 1e5)])
                                 for _ in range(n)]).astype(dt)
                path = os.path.join(d, f"wn_{nbits}_{dt}.bin")
                case = {"path": "FileWriter.cwrite", "dtype": dt, "nbits": nbits, "n": n, "values": [repr(x) for x in small(vals)]}
                R.case(("cwrite-nonrepr", dt, nbits, vals.tobytes()), regime="cwrite-bytes")
                try:
                    with FileWriter(path, mode="w", nbits=nbits) as w:
                        w.cwrite(vals)
                except Exception as e:  # noqa: BLE001  (refused: allowed unless the array has the file's own sample type)
                    if dt == FILE_DT[nbits]:
                        fail("cwrite-refused-own-type", f"cwrite raised {type(e).__name__} for an array of the file's own sample type", case)
                    continue
                if os.path.getsize(path) * 8 != n * nbits:
                    fail("cwrite-width", "data written at a sample width other than the declared depth (values not representable at the depth)",
                         dict(case, data_bytes=os.path.getsize(path), expected_bytes=n * nbits // 8))

        # ---------------------------------------------------------------------------------------------
        # 2. FilterbankBlock.to_file
        # ---------------------------------------------------------------------------------------------
        for dt in DTYPES:
            for rep in range(2 if quick else 16):
                nchans, nsamps = rng.randint(1, 9), rng.randint(1, 12 if rep < 8 else 400)
                hb = rng.choice(DEPTHS)
                data = values_for(rng, dt, 32, nchans * nsamps, "any").reshape(nchans, nsamps)
                tsamp, tstart, dm = meta_values(rng)
                path = os.path.join(d, f"blk_{dt}_{rep}.fil")
                hdr = mk_header(os.path.join(d, "blk_in.fil"), nchans, hb, nsamps, tsamp, tstart, dm)
                case = {"path": "FilterbankBlock.to_file", "dtype": dt, "nchans": nchans, "nsamps": nsamps, "header_nbits": hb,
                        "values": small(data)}
                R.case(("to_file", dt, nchans, nsamps, data.tobytes()), regime="to_file",
                       sample=case if (dt, rep) == ("uint16", 0) else None)
                # the block's own DM record and its header agree (a block whose two DM records differ has no single DM to carry)
                blk = FilterbankBlock(data, hdr, dm=dm)
                inmem = blk.data.copy()
                # independent reference: the block holds, as float32, the values it was built from (NumPy's own conversion of representable values)
                if not same_bits(inmem, data.astype(np.float32)):
                    fail("held-block", "the block does not hold (as float32) the values it was constructed from", dict(case, got=small(inmem))); continue
                try:
                    blk.to_file(path)
                    del blk
                    hl = hdrlen_of(path)
                    datalen = os.path.getsize(path) - hl
                    if datalen * 8 != nchans * nsamps * 32:
                        fail("to_file-width", "block written at a width other than the declared 32 bits", dict(case, data_bytes=datalen)); continue
                    r = FilReader(path)
                    if r.header.nsamples != nsamps:
                        fail("to_file-nsamples", "inferred sample count differs", dict(case, inferred=r.header.nsamples)); continue
                    back = r.read_block(0, r.header.nsamples)
                except Exception as e:  # noqa: BLE001
                    fail("to_file-values", f"to_file / re-read raised {type(e).__name__}: {e}", case); continue
                if r.header.nbits != 32 or not same_bits(back.data, inmem):
                    fail("to_file-values", "block read back differs in values / shape / order", dict(case, got=small(back.data))); continue
                check_meta(R, "to_file-meta", r.header, tsamp, tstart, dm, case) or fired.add("to_file-meta")
                # a block dedispersed in memory and then written: the file records the DM that was applied (the block's DM), samples as held
                if nchans >= 2 and rep % 2 == 0:
                    dm2 = round(rng.uniform(1.0, 300.0), 3)
                    case2 = dict(case, path="FilterbankBlock.dedisperse(dm).to_file", applied_dm=dm2)
                    R.case(("to_file-dedispersed", dt, nchans, nsamps, dm2), regime="to_file")
                    try:
                        blk2 = FilterbankBlock(data, hdr, dm=dm).dedisperse(dm2)
                        held = blk2.data.copy()
                        blk2.to_file(path)
                        r2 = FilReader(path)
                        back2 = r2.read_block(0, r2.header.nsamples)
                    except Exception as e:  # noqa: BLE001
                        fail("to_file-values", f"dedisperse(dm).to_file / re-read raised {type(e).__name__}: {e}", case2); continue
                    if r2.header.nsamples != held.shape[1] or not same_bits(back2.data, held):
                        fail("to_file-values", "dedispersed block read back differs in values / shape / order", dict(case2, got=small(back2.data))); continue
                    check_meta(R, "to_file-meta", r2.header, tsamp, tstart, dm2, case2) or fired.add("to_file-meta")

        # ---------------------------------------------------------------------------------------------
        # 3. time series (.tim, .dat/.inf) and Fourier series (.spec, .fft/.inf)
        # ---------------------------------------------------------------------------------------------
        for dt in DTYPES:
            for rep in range(2 if quick else 16):
                n = rng.choice([1, 2, 7, rng.randint(3, 300), rng.randint(3, 300 if quick else 20000)])
                x = values_for(rng, dt, 32, n, "any" if rep else "int")
                tsamp, tstart, dm = meta_values(rng)
                hb = rng.choice(DEPTHS)
                base = os.path.join(d, f"ts_{dt}_{rep}")
                hdr = mk_header(base + "_src.tim", 1, hb, n, tsamp, tstart, dm, data_type="time series")
                ts = TimeSeries(x, hdr)
                want = ts.data.copy()
                case = {"dtype": dt, "n": n, "header_nbits": hb, "values": small(x)}
                # independent reference: the series holds, as float32, the values it was built from (NumPy's own conversion of representable values)
                if want.dtype != np.float32 or not same_bits(want, x.astype(np.float32)):
                    fail("held-timeseries", "the time series does not hold (as float32) the values it was constructed from",
                         dict(case, path="TimeSeries(x, header)", got=small(want))); continue
                # .tim
                R.case(("tim", dt, x.tobytes()), regime="tim")
                c = dict(case, path="TimeSeries.to_tim/from_tim")
                try:
                    f = ts.to_tim(base + ".tim")
                    back = TimeSeries.from_tim(f)
                    if back.header.nsamples != n or back.data.size != n:
                        fail("tim-nsamples", "sample count read from the .tim differs", dict(c, got=[back.header.nsamples, int(back.data.size)]))
                    elif not same_bits(back.data, want):
                        fail("tim-values", ".tim values differ", dict(c, got=small(back.data)))
                    else:
                        check_meta(R, "tim-meta", back.header, tsamp, tstart, dm, c) or fired.add("tim-meta")
                except Exception as e:  # noqa: BLE001
                    fail("tim-values", f".tim write / read raised {type(e).__name__}: {e}", c)
                if rep < (1 if quick else 4) and n <= 40:
                    corr_s.append(("tim", want, base + ".tim", "from_tim"))
                # .dat / .inf
                R.case(("dat", dt, x.tobytes()), regime="dat", sample=dict(case, path="to_dat/from_dat") if (dt, rep) == ("float32", 0) else None)
                c = dict(case, path="TimeSeries.to_dat/from_dat")
                try:
                    f = ts.to_dat(base)
                    back = TimeSeries.from_dat(f)
                    if back.header.nsamples != n or back.data.size != n:
                        fail("dat-nsamples", "sample count read from the .dat differs from the samples written",
                             dict(c, got=[back.header.nsamples, int(back.data.size)], dat_bytes=os.path.getsize(f)))
                    elif not same_bits(back.data, want):
                        fail("dat-values", ".dat values differ", dict(c, got=small(back.data)))
                    else:
                        check_meta(R, "dat-meta", back.header, tsamp, tstart, dm, c, inf=True) or fired.add("dat-meta")
                except Exception as e:  # noqa: BLE001
                    fail("dat-values", f".dat write / read raised {type(e).__name__}: {e}", c)
                if rep < (1 if quick else 4) and n <= 40:
                    corr_s.append(("dat", want, base + ".dat", "from_dat"))
                # Fourier series: complex values from the same generator
                re_, im_ = values_for(rng, dt, 32, n, "any"), values_for(rng, dt, 32, n, "int")
                z = (re_.astype(np.float32) + 1j * im_.astype(np.float32)).astype(np.complex64)
                nt = 2 * (n - 1) if n > 1 else 2
                fh = mk_header(base + "_src.spec", 1, hb, nt, tsamp, tstart, dm, data_type="time series")
                fs = FourierSeries(z, fh)
                wantz = fs.data.copy()
                wantf = wantz.view(np.float32)
                if wantz.dtype != np.complex64 or not same_bits(wantf, z.view(np.float32)):
                    fail("held-fourier", "the Fourier series does not hold (as complex64) the values it was constructed from",
                         dict(case, path="FourierSeries(z, header)", input="complex64", values=small(z.view(np.float32)), got=small(wantf))); continue
                R.case(("spec", dt, z.tobytes()), regime="spec")
                c = dict(case, path="FourierSeries.to_spec/from_spec", values=small(wantf))
                try:
                    f = fs.to_spec(base + ".spec")
                    back = FourierSeries.from_spec(f)
                    # n complex bins = 2n float32 words were written.  The clause "the sample count the reader infers from the
                    # file equals the number of samples written" is met by either count (the pinned reader reports the 2n words)
                    if back.data.size != n or back.header.nsamples not in (2 * n, n):
                        fail("spec-nsamples", "sample count read from the .spec differs", dict(c, got=[back.header.nsamples, int(back.data.size)]))
                    elif not same_bits(back.data.view(np.float32), wantf):
                        fail("spec-values", ".spec values differ", dict(c, got=small(back.data.view(np.float32))))
                    else:
                        check_meta(R, "spec-meta", back.header, tsamp, tstart, dm, c) or fired.add("spec-meta")
                except Exception as e:  # noqa: BLE001
                    fail("spec-values", f".spec write / read raised {type(e).__name__}: {e}", c)
                if rep < (1 if quick else 4) and n <= 20:
                    corr_s.append(("spec", wantf, base + ".spec", "from_spec"))
                R.case(("fft", dt, z.tobytes()), regime="fft")
                c = dict(case, path="FourierSeries.to_fft/from_fft", values=small(wantf))
                try:
                    f = fs.to_fft(base)
                    back = FourierSeries.from_fft(f)
                    # the .fft itself carries no count; the .inf carries the length of the time series (nt), read back as written
                    if back.data.size != n or back.header.nsamples != nt:
                        fail("fft-nsamples", "sample count read from the .fft/.inf differs", dict(c, got=[back.header.nsamples, int(back.data.size)]))
                    elif not same_bits(back.data.view(np.float32), wantf):
                        fail("fft-values", ".fft values differ", dict(c, got=small(back.data.view(np.float32))))
                    else:
                        check_meta(R, "fft-meta", back.header, tsamp, tstart, dm, c, inf=True) or fired.add("fft-meta")
                except Exception as e:  # noqa: BLE001
                    fail("fft-values", f".fft write / read raised {type(e).__name__}: {e}", c)
                if rep < (1 if quick else 4) and n <= 20:
                    corr_s.append(("fft", wantf, base + ".fft", "from_fft"))
                # the in-memory dtype axis for Fourier series: the same bins handed over as complex128, and a REAL array of dtype dt
                # (n bins re + 0j).  Either is converted to complex64 (representable values: identically) and written as 2n float32 words.
                zr = np.zeros(n, dtype=np.complex64)
                zr.real = re_.astype(np.float32)
                for vname, zin, zexp in (("complex128", z.astype(np.complex128), z), (f"real {dt}", re_, zr)):
                    expf = zexp.view(np.float32)
                    cv = dict(case, input=vname, values=small(expf))
                    vbase = base + ("_c128" if vname == "complex128" else "_real")
                    R.case(("fourier-in", vname, dt, zin.tobytes()), regime="spec")
                    try:
                        fs2 = FourierSeries(zin, fh)
                        held = np.ascontiguousarray(fs2.data)
                        if held.dtype != np.complex64 or not same_bits(held.view(np.float32), expf):
                            fail("held-fourier", "the Fourier series does not hold (as complex64) the values it was constructed from",
                                 dict(cv, path="FourierSeries(z, header)", got=small(held.view(np.float32) if held.dtype == np.complex64 else held))); continue
                    except Exception as e:  # noqa: BLE001
                        fail("held-fourier", f"FourierSeries({vname} array) raised {type(e).__name__}: {e}", dict(cv, path="FourierSeries(z, header)")); continue
                    c = dict(cv, path="FourierSeries.to_spec/from_spec")
                    try:
                        f = fs2.to_spec(vbase + ".spec")
                        if (os.path.getsize(f) - hdrlen_of(f)) != 8 * n:
                            fail("spec-nsamples", ".spec data section is not 2n float32 words", dict(c, data_bytes=os.path.getsize(f) - hdrlen_of(f)))
                        else:
                            back = FourierSeries.from_spec(f)
                            if back.data.size != n or back.header.nsamples not in (2 * n, n):
                                fail("spec-nsamples", "sample count read from the .spec differs", dict(c, got=[back.header.nsamples, int(back.data.size)]))
                            elif not same_bits(back.data.view(np.float32), expf):
                                fail("spec-values", ".spec values differ", dict(c, got=small(back.data.view(np.float32))))
                            else:
                                check_meta(R, "spec-meta", back.header, tsamp, tstart, dm, c) or fired.add("spec-meta")
                    except Exception as e:  # noqa: BLE001
                        fail("spec-values", f".spec write / read raised {type(e).__name__}: {e}", c)
                    R.case(("fourier-in-fft", vname, dt, zin.tobytes()), regime="fft")
                    c = dict(cv, path="FourierSeries.to_fft/from_fft")
                    try:
                        f = fs2.to_fft(vbase)
                        if os.path.getsize(f) != 8 * n:
                            fail("fft-nsamples", ".fft is not 2n float32 words", dict(c, fft_bytes=os.path.getsize(f)))
                        else:
                            back = FourierSeries.from_fft(f)
                            if back.data.size != n or back.header.nsamples != nt:
                                fail("fft-nsamples", "sample count read from the .fft/.inf differs", dict(c, got=[back.header.nsamples, int(back.data.size)]))
                            elif not same_bits(back.data.view(np.float32), expf):
                                fail("fft-values", ".fft values differ", dict(c, got=small(back.data.view(np.float32))))
                            else:
                                check_meta(R, "fft-meta", back.header, tsamp, tstart, dm, c, inf=True) or fired.add("fft-meta")
                    except Exception as e:  # noqa: BLE001
                        fail("fft-values", f".fft write / read raised {type(e).__name__}: {e}", c)

        # call forms: products named by default (written to the working directory from header.basename), an explicit inffile=,
        # a strided (non-contiguous) input array, prep_outfile(updates=...)
        cwd = os.getcwd()
        try:
            os.chdir(d)
            n = rng.randint(2, 40)
            x = values_for(rng, "float32", 32, 2 * n, "any")[::2]                   # strided view
            tsamp, tstart, dm = meta_values(rng)
            hdr = mk_header(os.path.join(d, "dflt_src.tim"), 1, rng.choice(DEPTHS), n, tsamp, tstart, dm, data_type="time series")
            want = np.ascontiguousarray(x)
            case = {"dtype": "float32", "n": n, "values": small(want), "layout": "strided", "names": "default"}
            ts = TimeSeries(x, hdr)
            for name, wr, rd, inf in (("tim", ts.to_tim, TimeSeries.from_tim, False), ("dat", ts.to_dat, TimeSeries.from_dat, True)):
                c = dict(case, path=f"TimeSeries.to_{name}()/from_{name}")
                R.case(("dflt", name, want.tobytes()), regime=name)
                try:
                    f = wr()
                    if name == "dat":       # the .inf under another name, handed over explicitly
                        os.replace(os.path.splitext(f)[0] + ".inf", os.path.join(d, "elsewhere.inf"))
                        back = rd(f, inffile=os.path.join(d, "elsewhere.inf"))
                    else:
                        back = rd(f)
                    if back.header.nsamples != n or back.data.size != n:
                        fail(f"{name}-nsamples", f"sample count read from the .{name} differs", dict(c, got=[back.header.nsamples, int(back.data.size)]))
                    elif not same_bits(back.data, want):
                        fail(f"{name}-values", f".{name} values differ", dict(c, got=small(back.data)))
                    else:
                        check_meta(R, f"{name}-meta", back.header, tsamp, tstart, dm, c, inf=inf) or fired.add(f"{name}-meta")
                except Exception as e:  # noqa: BLE001
                    fail(f"{name}-values", f".{name} write / read raised {type(e).__name__}: {e}", c)
            z = np.ascontiguousarray(want[: n // 2 * 2]).view(np.complex64).copy()
            nb, nt = z.size, max(2, 2 * (z.size - 1))
            # the bins are handed over as every other item of a buffer twice as long (a strided complex64 view, kept as it is by the constructor)
            zbig = np.zeros(2 * nb, dtype=np.complex64)
            zbig[::2] = z
            fs = FourierSeries(zbig[::2], mk_header(os.path.join(d, "dflt_src.spec"), 1, 32, nt, tsamp, tstart, dm, data_type="time series"))
            wantf = z.view(np.float32)
            for name, wr, rd, inf in (("spec", fs.to_spec, FourierSeries.from_spec, False), ("fft", fs.to_fft, FourierSeries.from_fft, True)):
                c = dict(case, path=f"FourierSeries.to_{name}()/from_{name}", n=nb, values=small(wantf))
                R.case(("dflt", name, z.tobytes()), regime=name)
                try:
                    f = wr()
                    if name == "fft":
                        os.replace(os.path.splitext(f)[0] + ".inf", os.path.join(d, "elsewhere.inf"))
                        back = rd(f, inffile=os.path.join(d, "elsewhere.inf"))
                    else:
                        back = rd(f)
                    if back.data.size != nb or (back.header.nsamples != nt if name == "fft" else back.header.nsamples not in (2 * nb, nb)):
                        fail(f"{name}-nsamples", f"sample count read from the .{name} differs", dict(c, got=[back.header.nsamples, int(back.data.size)]))
                    elif not same_bits(back.data.view(np.float32), wantf):
                        fail(f"{name}-values", f".{name} values differ", dict(c, got=small(back.data.view(np.float32))))
                    else:
                        check_meta(R, f"{name}-meta", back.header, tsamp, tstart, dm, c, inf=inf) or fired.add(f"{name}-meta")
                except Exception as e:  # noqa: BLE001
                    fail(f"{name}-values", f".{name} write / read raised {type(e).__name__}: {e}", c)
            # a block that is a strided view (every other channel, a sample sub-range of a larger array), default file name
            nchans, nsamps = rng.randint(1, 6), rng.randint(1, 20)
            bigb = values_for(rng, "float32", 32, 2 * nchans * (nsamps + 3), "any").reshape(2 * nchans, nsamps + 3)
            view = bigb[::2, 1:nsamps + 1]
            c = {"path": "FilterbankBlock.to_file()", "dtype": "float32", "nchans": nchans, "nsamps": nsamps, "layout": "strided view", "names": "default",
                 "values": small(view)}
            R.case(("dflt", "to_file", np.ascontiguousarray(view).tobytes()), regime="to_file")
            try:
                blk = FilterbankBlock(view, mk_header(os.path.join(d, "dflt_blk.fil"), nchans, 8, nsamps, tsamp, tstart, dm), dm=dm)
                f = blk.to_file()
                del blk
                r = FilReader(f)
                if (os.path.getsize(f) - hdrlen_of(f)) * 8 != nchans * nsamps * 32:
                    fail("to_file-width", "block written at a width other than the declared 32 bits", dict(c, data_bytes=os.path.getsize(f) - hdrlen_of(f)))
                elif r.header.nsamples != nsamps:
                    fail("to_file-nsamples", "inferred sample count differs", dict(c, inferred=r.header.nsamples))
                elif r.header.nbits != 32 or not same_bits(r.read_block(0, nsamps).data, view):
                    fail("to_file-values", "block read back differs in values / shape / order", c)
                else:
                    check_meta(R, "to_file-meta", r.header, tsamp, tstart, dm, c) or fired.add("to_file-meta")
            except Exception as e:  # noqa: BLE001
                fail("to_file-values", f"to_file() / re-read raised {type(e).__name__}: {e}", c)
            # prep_outfile(updates=...): the timing metadata handed over as updates is what the product declares
            nchans, nsamps = rng.randint(1, 5), rng.randint(1, 9)
            vals = values_for(rng, "uint8", 8, nchans * nsamps, "int")
            ts2, t02, dm2 = meta_values(rng)
            path = os.path.join(d, "upd.fil")
            c = {"path": "prep_outfile(updates=)+cwrite", "dtype": "uint8", "nbits": 8, "nsamps": nsamps, "nchans": nchans, "values": small(vals)}
            R.case(("upd", vals.tobytes(), ts2, t02, dm2), regime="fil-8bit")
            try:
                w = mk_header(path, nchans, 32, nsamps, tsamp, tstart, dm).prep_outfile(path, updates={"tsamp": ts2, "tstart": t02, "dm": dm2}, nbits=8)
                try:
                    w.cwrite(vals)
                finally:
                    w.close()
                r = FilReader(path)
                if (os.path.getsize(path) - hdrlen_of(path)) != nchans * nsamps:
                    fail("cwrite-width", "data written at a sample width other than the declared depth", dict(c, data_bytes=os.path.getsize(path) - hdrlen_of(path)))
                elif r.header.nsamples != nsamps:
                    fail("fil-nsamples", "inferred sample count differs from the samples written", dict(c, inferred=r.header.nsamples))
                elif r.header.nbits != 8 or not same_bits(r.read_block(0, nsamps).data, vals.astype(np.float32).reshape(nsamps, nchans).T):
                    fail("fil-values", "values / shape / order read back differ from what was written", c)
                else:
                    check_meta(R, "fil-meta", r.header, ts2, t02, dm2, c) or fired.add("fil-meta")
            except Exception as e:  # noqa: BLE001
                fail("fil-values", f"prep_outfile(updates=) / cwrite / re-read raised {type(e).__name__}: {e}", c)
        finally:
            os.chdir(cwd)

        # ---------------------------------------------------------------------------------------------
        # 4. the two library call sites that hand cwrite an array of another dtype
        # ---------------------------------------------------------------------------------------------
        import filutil
        for nb_in in DEPTHS:                      # packed inputs too: the reader's uint8 blocks go to 32-bit .tim files / to another depth
            nchans, nsamps = rng.choice([c for c in (2, 4, 8) if (c * nb_in) % 8 == 0]), rng.randint(3, 30)
            tsamp, tstart, dm = meta_values(rng)
            src = os.path.join(d, f"src_{nb_in}.fil")
            data = values_for(rng, FILE_DT[nb_in], nb_in, nsamps * nchans, "int").reshape(nsamps, nchans)
            if nb_in == 32:
                data = np.abs(data) % 2
            filutil.write_fil(src, data, nb_in, tsamp=tsamp, tstart=tstart, dm=dm)
            # extract_chans: one 32-bit .tim per channel
            chan = rng.randrange(nchans)
            case = {"path": "extract_chans", "nbits_in": nb_in, "nchans": nchans, "nsamps": nsamps, "chan": chan, "values": small(data[:, chan])}
            R.case(("extract_chans", nb_in, data.tobytes(), chan), regime="extract_chans")
            try:
                names = FilReader(src).extract_chans(chans=[chan], outfile_base=os.path.join(d, f"ec_{nb_in}"), gulp=rng.randint(1, nsamps + 2), quiet=True)
                hl = hdrlen_of(names[0])
                if (os.path.getsize(names[0]) - hl) * 8 != nsamps * 32:
                    fail("extract_chans-width", "channel time series written at a width other than the declared 32 bits",
                         dict(case, data_bytes=os.path.getsize(names[0]) - hl))
                else:
                    back = TimeSeries.from_tim(names[0])
                    if back.header.nsamples != nsamps:
                        fail("extract_chans-nsamples", "inferred sample count differs", dict(case, inferred=back.header.nsamples))
                    elif not same_bits(back.data, data[:, chan].astype(np.float32)):
                        fail("extract_chans-values", "channel values differ", dict(case, got=small(back.data)))
                    else:       # the whole file from its first sample: tsamp, tstart and DM of the source are those of the product
                        check_meta(R, "extract_chans-meta", back.header, tsamp, tstart, dm, case) or fired.add("extract_chans-meta")
            except Exception as e:  # noqa: BLE001
                fail("extract_chans-values", f"extract_chans / re-read raised {type(e).__name__}: {e}", case)
            # requantize without rescaling: same values at another depth (all values here are 0/1 or representable)
            for nb_out in DEPTHS:
                if nb_out == nb_in:
                    continue
                small_vals = (data % 2) if nb_out < nb_in else data
                src2 = os.path.join(d, f"src2_{nb_in}_{nb_out}.fil")
                nch2 = nchans if (nchans * nb_out) % 8 == 0 else 8
                d2 = np.resize(small_vals, (nsamps, nch2))
                filutil.write_fil(src2, d2, nb_in, tsamp=tsamp, tstart=tstart, dm=dm)
                case = {"path": "requantize", "nbits_in": nb_in, "nbits_out": nb_out, "nchans": nch2, "nsamps": nsamps, "values": small(d2)}
                R.case(("requantize", nb_in, nb_out, d2.tobytes()), regime="requantize")
                out = os.path.join(d, f"rq_{nb_in}_{nb_out}.fil")
                try:
                    FilReader(src2).requantize(nb_out, outfile_name=out, gulp=rng.randint(1, nsamps + 2), quiet=True)
                except Exception as e:  # noqa: BLE001  (refused: allowed for a dtype that is not the file's)
                    if FILE_DT[nb_in] == FILE_DT[nb_out]:       # the reader's blocks already have the output file's sample type: no refusal allowed
                        fail("requantize-values", f"requantize raised {type(e).__name__}: {e} although the blocks have the output file's sample type", case)
                    continue
                try:
                    hl = hdrlen_of(out)
                    if (os.path.getsize(out) - hl) * 8 != nsamps * nch2 * nb_out:
                        fail("requantize-width", "requantised data written at a width other than the declared depth",
                             dict(case, data_bytes=os.path.getsize(out) - hl)); continue
                    r = FilReader(out)
                    if r.header.nsamples != nsamps:
                        fail("requantize-nsamples", "inferred sample count differs", dict(case, inferred=r.header.nsamples)); continue
                    if not same_bits(r.read_block(0, nsamps).data, d2.T.astype(np.float32)):
                        fail("requantize-values", "values differ", case); continue
                    check_meta(R, "requantize-meta", r.header, tsamp, tstart, dm, case) or fired.add("requantize-meta")
                except Exception as e:  # noqa: BLE001
                    fail("requantize-values", f"re-read raised {type(e).__name__}: {e}", case)

        # ---------------------------------------------------------------------------------------------
        # correspondence: the model under vm_compute vs the implementation
        # ---------------------------------------------------------------------------------------------
        head = ["From Coq Require Import ZArith List Bool.",
                "Require Import SPP.Base.Rt SPP.Gen.C04Io SPP.Model.Stream SPP.Model.C04_Writer SPP.Model.C04_Multi.",
                "Import ListNotations.", "Open Scope Z_scope.",
                "Definition oeqb (a b : option (list Z)) : bool := match a, b with Some x, Some y => list_eqb x y | None, None => true | _, _ => false end.",
                "Definition bad {A} (ok : A -> bool) (cases : list A) := map fst (filter (fun p => negb (ok (snd p))) (combine (seq 0 (length cases)) cases))."]

        def ivals(a):
            return vlib.zlist(int(x) for x in np.asarray(a).ravel())

        def opt(x):
            return "None" if x is None else f"(Some {vlib.zlist(x)})"

        def is_intlike(a):
            a = np.asarray(a, dtype=np.float64)
            return bool(np.all(np.isfinite(a)) and np.all(a == np.round(a)) and np.all(np.abs(a) < 2 ** 24))

        # (a) status: which branch of the verdicts the regenerated configuration takes
        rc, out = vlib.coq_run("c04_status", "\n".join(head + [
            "Eval vm_compute in (sound_cfg gen_cfg, map sound_fmt series_formats).",
            "Eval vm_compute in gen_cfg.", "Eval vm_compute in gen_cw_copies_noncontig."]), timeout=120)
        vals = vlib.parse_eval(out)
        sound_cfg = sound_fmts = copies = None
        if rc != 0 or len(vals) < 3:
            R.red.append("correspondence: Corr/c04_status did not evaluate: " + out[-300:])
        else:
            m = re.match(r"\((true|false), \[(.*)\]\)", vals[0])
            if m:
                sound_cfg = m.group(1) == "true"
                sound_fmts = dict(zip(("tim", "dat", "spec", "fft"), [x.strip() == "true" for x in m.group(2).split(";")]))
            R.notes.append(f"regenerated configuration: {vals[1]}; sound_cfg={sound_cfg}; header written iff skipped: {sound_fmts}")
            copies = vals[2].strip().startswith("true")
            R.notes.append(f"cwrite copies a non-contiguous / read-only array in front of pack: {copies}")
            R.extra_cov["verdict_branches"] = {"cwrite": "property" if sound_cfg else "refuted", "layout": "property" if copies else "refuted",
                                               **{k: ("property" if v else "refuted") for k, v in (sound_fmts or {}).items()}}

        # (b) cwrite bytes
        ncorr = 0
        for i in range(0, len(corr_w), 400):
            sh = corr_w[i:i + 400]
            lines = head + ["Definition cases : list (Z * dtype * list Z * option (list Z)) := ["]
            lines.append(";\n".join(f"({nb}, {COQ_DT[dt]}, {ivals(v)}, {opt(o)})" for nb, dt, v, o in sh))
            lines += ["].", "Definition ok (c : Z * dtype * list Z * option (list Z)) : bool :=",
                      "  let '(nb, dt, v, o) := c in oeqb (cwrite gen_cfg nb (mknd dt v)) o.",
                      "Eval vm_compute in (length cases, bad ok cases)."]
            rc, out = vlib.coq_run(f"c04_w{i // 400}", "\n".join(lines), timeout=300)
            pv = vlib.parse_eval(out)
            if rc != 0 or not pv:
                R.red.append("correspondence: Corr/c04_w did not evaluate: " + out[-300:]); continue
            idx = [int(x) for x in re.findall(r"(\d+)%nat", pv[0])]
            ncorr += idx[0] if idx else 0
            for bi in idx[1:6]:
                nb, dt, v, o = sh[bi]
                R.disagree("cwrite: bytes written by the implementation differ from the model", {"nbits": nb, "dtype": dt, "values": small(v), "impl_bytes": o if o is None else o[:32]})

        # (b') cwrite on strided / read-only views
        if corr_v:
            lines = head + ["Definition cases : list (Z * dtype * list Z * Z * Z * Z * bool * option (list Z)) := ["]
            lines.append(";\n".join(f"({nb}, {COQ_DT[dt]}, {ivals(buf)}, {off}, {step}, {n}, {'true' if wr else 'false'}, {opt(o)})"
                                    for nb, dt, buf, off, step, n, wr, o in corr_v))
            lines += ["].", "Definition ok (c : Z * dtype * list Z * Z * Z * Z * bool * option (list Z)) : bool :=",
                      "  let '(nb, dt, buf, off, st, n, wr, o) := c in oeqb (cwrite_view gen_cw_copies_noncontig gen_cfg nb (mkview dt buf off st n wr)) o.",
                      "Eval vm_compute in (length cases, bad ok cases)."]
            rc, out = vlib.coq_run("c04_v", "\n".join(lines), timeout=300)
            pv = vlib.parse_eval(out)
            if rc != 0 or not pv:
                R.red.append("correspondence: Corr/c04_v did not evaluate: " + out[-300:])
            else:
                idx = [int(x) for x in re.findall(r"(\d+)%nat", pv[0])]
                ncorr += idx[0] if idx else 0
                for bi in idx[1:6]:
                    nb, dt, buf, off, step, n, wr, o = corr_v[bi]
                    R.disagree("cwrite on a strided / read-only view: bytes written by the implementation differ from the model",
                               {"nbits": nb, "dtype": dt, "buffer": small(buf), "offset": off, "step": step, "n": n, "writeable": wr,
                                "impl_bytes": o if o is None else o[:32]})

        # (c) whole product + re-read
        fcases = []
        for nb, nch, dt, v, path, refused, cut, plain in corr_f:
            v = [v[:cut], v[cut:]] if cut else [v]
            if refused is not None:
                fcases.append((nb, nch, dt, v, [], None, plain)); continue
            raw = open(path, "rb").read()
            hl = hdrlen_of(path)
            try:
                r = FilReader(path)
                ns = int(r.header.nsamples)
                back = r.read_block(0, ns).data.T.ravel() if ns >= 1 else None
            except Exception:  # noqa: BLE001
                ns, back = -1, None
            rv = None if back is None or not is_intlike(back) else [int(x) for x in back]
            fcases.append((nb, nch, dt, v, list(raw[:hl]), (list(raw), ns, rv), plain))
        for i in range(0, len(fcases), 150):
            sh = fcases[i:i + 150]
            lines = head + ["Definition cases : list (Z * Z * dtype * list (list Z) * list Z * option (list Z * Z * option (list Z)) * bool) := ["]
            lines.append(";\n".join(
                f"({nb}, {nch}, {COQ_DT[dt]}, [{'; '.join(ivals(x) for x in v)}], {vlib.zlist(h)}, " +
                ("None" if o is None else f"(Some ({vlib.zlist(o[0])}, {o[1]}, {opt(o[2])}))") + f", {'true' if plain else 'false'})" for nb, nch, dt, v, h, o, plain in sh))
            lines += ["].", "Definition ok (c : Z * Z * dtype * list (list Z) * list Z * option (list Z * Z * option (list Z)) * bool) : bool :=",
                      "  let '(nb, nch, dt, v, h, o, plain) := c in",
                      "  (* a strided / read-only array at a packed depth: refused unless cwrite copies it (cwrite_view) *)",
                      "  match (if negb plain && bit_unpack nb && negb gen_cw_copies_noncontig then None else write_fil_many gen_cfg nb h (map (mknd dt) v)), o with",
                      "  | None, None => true",
                      "  | Some f, Some (fb, ns, rv) => list_eqb (raw f) fb &&",
                      "      match rv with None => true | Some l =>",
                      "        match read_fil nb nch f with Some (n, l') => (n =? ns) && list_eqb l' l | None => false end end",
                      "  | _, _ => false end.",
                      "Eval vm_compute in (length cases, bad ok cases)."]
            rc, out = vlib.coq_run(f"c04_f{i // 150}", "\n".join(lines), timeout=300)
            pv = vlib.parse_eval(out)
            if rc != 0 or not pv:
                R.red.append("correspondence: Corr/c04_f did not evaluate: " + out[-300:]); continue
            idx = [int(x) for x in re.findall(r"(\d+)%nat", pv[0])]
            ncorr += idx[0] if idx else 0
            for bi in idx[1:6]:
                nb, nch, dt, v, h, o, plain = sh[bi]
                R.disagree("prep_outfile+cwrite+FilReader: product file / re-read values differ from the model",
                           {"nbits": nb, "nchans": nch, "dtype": dt, "values_per_call": [small(x) for x in v], "impl": None if o is None else {"file_tail": o[0][len(h):][:32], "nsamples": o[1], "read": o[2] if o[2] is None else o[2][:24]}})

        # (d) series products
        scases = []
        readers = {"from_tim": TimeSeries.from_tim, "from_dat": TimeSeries.from_dat, "from_spec": FourierSeries.from_spec, "from_fft": FourierSeries.from_fft}
        for fmt, want, path, rd in corr_s:
            if not is_intlike(want) or not os.path.exists(path):
                continue
            raw = open(path, "rb").read()
            try:
                hl = hdrlen_of(path)
            except Exception:  # noqa: BLE001
                hl = None
            try:
                back = readers[rd](path).data
                back = np.ascontiguousarray(back).view(np.float32) if back.dtype == np.complex64 else back
                cnt = int(back.size)
                rv = [int(x) for x in back] if is_intlike(back) else None
            except Exception:  # noqa: BLE001
                cnt, rv = -1, None
            scases.append((fmt, [int(x) for x in want], list(raw[:hl]) if hl else [], hl, list(raw), cnt, rv))
        if scases:
            lines = head + ["Definition cases : list (sfmt * list Z * list Z * option Z * list Z * Z * option (list Z)) := ["]
            lines.append(";\n".join(
                f"(fmt_{fmt}, {vlib.zlist(v)}, {vlib.zlist(h)}, {'None' if hl is None else f'(Some {hl})'}, {vlib.zlist(raw)}, {cnt}, {opt(rv)})"
                for fmt, v, h, hl, raw, cnt, rv in scases))
            lines += ["].", "Definition ok (c : sfmt * list Z * list Z * option Z * list Z * Z * option (list Z)) : bool :=",
                      "  let '(f, v, h, parsed, product, cnt, rv) := c in",
                      "  match write_series gen_cfg f h v with",
                      "  | Some p => list_eqb p product &&",
                      "      match read_series f parsed 32 p with",
                      "      | Some l => (len l =? cnt) && match rv with Some l' => list_eqb l l' | None => true end",
                      "      | None => cnt =? -1 end",
                      "  | None => false end.",
                      "Eval vm_compute in (length cases, bad ok cases)."]
            rc, out = vlib.coq_run("c04_s", "\n".join(lines), timeout=300)
            pv = vlib.parse_eval(out)
            if rc != 0 or not pv:
                R.red.append("correspondence: Corr/c04_s did not evaluate: " + out[-300:])
            else:
                idx = [int(x) for x in re.findall(r"(\d+)%nat", pv[0])]
                ncorr += idx[0] if idx else 0
                for bi in idx[1:6]:
                    fmt, v, h, hl, raw, cnt, rv = scases[bi]
                    R.disagree("series product / re-read differs from the model", {"format": fmt, "values": v[:16], "hdrlen": hl, "product_len": len(raw), "read_count": cnt})
        R.extra_cov["correspondence_cases"] = ncorr
        R.extra_cov["correspondence_two_call_products"] = sum(1 for c in corr_f if c[6])
        R.extra_cov["correspondence_view_cases"] = len(corr_v)
        R.extra_cov["traces_validated_against_impl"] = ncorr
        R.extra_cov["oracle_keys_fired"] = sorted(fired)

        # the proof side took a refuted branch: the oracle must have exhibited the matching failing input
        if copies is False and "cwrite-refused-own-type" not in fired:
            R.red.append("verdict: the regenerated cwrite does not copy a strided / read-only array in front of pack (LayoutRefuted) but the oracle found no refused array")
        if sound_cfg is False and not (fired & {"cwrite-width", "fil-nsamples", "fil-values"}):
            R.red.append("verdict: the regenerated cwrite is refuted by the model but the oracle found no failing input")
        for k, v in (sound_fmts or {}).items():
            if v is False and not any(f.startswith(k + "-") for f in fired):
                R.red.append(f"verdict: format {k} is refuted by the model (header written but not skipped, or the reverse) but the oracle found no failing input")
    finally:
        shutil.rmtree(d, ignore_errors=True)
    return R


# ------------------------------------------------------------------------------------------------------------
# at-scale search
# ------------------------------------------------------------------------------------------------------------
def _scale_own(seed, nbits, n):
    """the at-scale sample stream of depth nbits: n values in the file's own sample type (uint8 / uint16 / float32), a pure function
    of (seed, nbits, n).  Below 32 bits: uniform over the whole range of the depth (0 and the maximum included).  At 32 bits: uniform
    random float32 BIT PATTERNS made finite (sign, subnormals, 1e-38 .. 3.4e38, -0.0), the first four are max, -max, the smallest
    subnormal and -0.0"""
    g = np.random.default_rng([int(seed), 404, int(nbits)])
    if nbits < 32:
        return g.integers(0, 1 << nbits, n, dtype=FILE_DT[nbits])
    b = g.integers(0, 1 << 32, n, dtype=np.uint32)
    nonfinite = (b & np.uint32(0x7F800000)) == np.uint32(0x7F800000)
    b[nonfinite] &= np.uint32(0xFF7FFFFF)          # exponent 255 -> 254: a finite value next to the largest
    b[:4] = np.array([0x7F7FFFFF, 0xFF7FFFFF, 0x00000001, 0x80000000], dtype=np.uint32)[:min(4, n)]
    return b.view(np.float32)


def _scale_as(own, dt, nbits):
    """the same stream held in memory as dtype dt, every value representable at the depth AND in dt (so that it must read back
    identically): below 32 bits the values themselves (uint8 holding a 16-bit file's samples: the low byte); at 32 bits float64 holds
    the float32 values, the integer types hold integers derived from the bit patterns (int64: |v| < 2**24, exact in float32)"""
    d = np.dtype(dt)
    if d == np.dtype(FILE_DT[nbits]):
        return own
    if nbits < 32:
        return (own & 0xFF).astype(d) if (nbits == 16 and d == np.uint8) else own.astype(d)
    b = own.view(np.uint32)
    if d == np.uint8:
        return (b & np.uint32(0xFF)).astype(d)
    if d == np.uint16:
        return (b & np.uint32(0xFFFF)).astype(d)
    if d == np.int64:
        return b.astype(np.int64) % ((1 << 25) - 1) - ((1 << 24) - 1)
    return own.astype(d)      # float64


def _scale_pack(v, nbits):
    """reference encoding of own-type samples as the bytes of a SIGPROC data section (written without the library's pack):
    1 bit: first sample in the least significant bit; 2 and 4 bits: first sample in the most significant field"""
    if nbits == 1:
        return np.packbits(v, bitorder="little")
    if nbits == 2:
        q = v.reshape(-1, 4)
        return ((q[:, 0] << 6) | (q[:, 1] << 4) | (q[:, 2] << 2) | q[:, 3]).astype(np.uint8)
    if nbits == 4:
        q = v.reshape(-1, 2)
        return ((q[:, 0] << 4) | q[:, 1]).astype(np.uint8)
    return np.ascontiguousarray(v, dtype={8: "<u1", 16: "<u2", 32: "<f4"}[nbits])


def _scale_diff(got, want):
    """small description of where two float32 arrays of the same size differ (bit comparison)"""
    g, w = bits32(got).ravel(), bits32(want).ravel()
    if g.size != w.size:
        return {"got_size": int(g.size), "want_size": int(w.size)}
    bad = np.flatnonzero(g != w)
    if bad.size == 0:
        return {}
    i = int(bad[0])
    return {"first_diff_flat_index": i, "n_diff": int(bad.size), "got_at": small(np.asarray(got, dtype=np.float32).ravel()[i:i + 4]),
            "want_at": small(np.asarray(want, dtype=np.float32).ravel()[i:i + 4])}


SCALE_META = [(6.4e-05, 60000.0, 0.0), (8.192e-05, 58849.000011574074, 56.7789), (0.001, 50000.125, 2999.999),
              (1.0 / 30000.0, 69999.99999, 12.5)]


def scale(R: vlib.Run):
    """at-scale search (run when something no longer checks and no small failing input was found, and in the thorough tier).

    regime                          sizes
    prep_outfile+cwrite+FilReader   every depth, own sample type, ONE cwrite of 2**16, 2**18, 2**20, 2**22, 2**24 elements -/=/+ one 8-channel
                                    sample, 2**25+8 at 1/2/4 bits (packed 2**22+1 .. 2**24+4 bytes); nchans 4096 and 70000; at >= 8 bits 1
                                    channel with 2**16-1, 2**16+1, 2**20+1, 2**22+1, 2**24+1 samples; the four other in-memory dtypes at
                                    2**16+8, 2**20+8, 2**22+8 (and 2**24+8 at >= 8 bits) elements; FileWriter(rescale=True) width at
                                    2**20+8 elements; ~2000 cwrite calls of 1..197 samples (200000 samples) and a
                                    big/small/big history at every depth; read-only and strided 1-D own-type arrays of 2**20+8 elements
                                    (one call, three calls) at every depth; random values over the whole range of the depth (float32: the
                                    whole finite range incl. max, subnormals, -0.0)
    FilterbankBlock.to_file         (nchans, nsamps) = (1,65537) (64,1025) (64,16385) (4096,257) (70000,3) (8,2**19+1) (2,2**23+1);
                                    every dtype at (64,16385) and (8,2**19+1); (64,70000) and (16,140000) blocks dedispersed in memory and written
    .tim .dat/.inf                  65535, 65536, 65537, 2**18+1, and -/=/+ 1 around 2**20, 2**22, 2**24 samples; every dtype at 65537, 2**20+1
    .spec .fft/.inf                 32768, 32769, 65535..65537, 2**17, 2**19+1, 2**20, 2**22+1 and -/=/+ 1 around 2**21, 2**23 complex bins (2 words each);
                                    the bins handed over as complex128 and as a real float64 array at 65537, 2**20+1
    extract_chans                   70000..140000 samples, 1/2/4/8/16/32-bit inputs, gulps 16384 / 5000 / 4097 / 100 (700 blocks) /
                                    65537 / 70001 / 1100000 (one 1.1e6-element cwrite), 300 channels extracted (two batches), files of
                                    4096 and 70000 channels, a start/nsamps sub-range
    requantize                      all 36 (depth in, depth out) pairs on 70000 samples x 16 channels with gulps 16384 (2**18 elements
                                    per block) / 5000 / 70001 / 65537 / 100; 300000-sample gulps (4.8e6 elements per block) on 14 pairs;
                                    4096 and 70000 channels
    Reference: the written values as float32 (NumPy), bit comparison; file length against nsamps*nchans*nbits/8; the small-scope
    oracle's metadata clauses and .inf tolerances.  Data are never stored in a case: `data` names the generator call that rebuilds them."""
    warnings.filterwarnings("ignore")
    from sigpyproc.block import FilterbankBlock
    from sigpyproc.fourierseries import FourierSeries
    from sigpyproc.readers import FilReader
    from sigpyproc.timeseries import TimeSeries

    seed = int(R.seed)
    d = os.path.join(vlib.SCRATCH, f"c04s_{os.getpid()}")
    shutil.rmtree(d, ignore_errors=True)
    os.makedirs(d)
    counter = [0]

    def meta():
        counter[0] += 1
        return SCALE_META[counter[0] % len(SCALE_META)]

    def exc(e):
        return f"{type(e).__name__}: {str(e)[:160]}"

    def rm(*paths):
        for p in paths:
            try:
                os.remove(p)
            except OSError:
                pass

    def reread_fil(name, path, want2d, nbits, case, metav=None):
        """width, inferred count, values / shape / order, metadata of a written filterbank product.  want2d: (nsamps, nchans) float32"""
        nsamps, nchans = want2d.shape
        try:
            hl = hdrlen_of(path)
            datalen = os.path.getsize(path) - hl
        except Exception as e:  # noqa: BLE001
            R.fail(f"scale-{name}-values", f"the product's header cannot be parsed at scale ({exc(e)})", case); return False
        if datalen * 8 != nsamps * nchans * nbits:
            R.fail(f"scale-{name}-width", "at scale the data section is not nsamps*nchans*nbits bits long",
                   dict(case, data_bytes=datalen, expected_bytes=nsamps * nchans * nbits // 8)); return False
        R.tick(dict(case, step="FilReader.read_block"))
        try:
            r = FilReader(path)
            ns = int(r.header.nsamples)
            blk = r.read_block(0, ns)
            got = blk.data
        except Exception as e:  # noqa: BLE001
            R.fail(f"scale-{name}-values", f"re-reading the product at scale raised {exc(e)}", case); return False
        if ns != nsamps:
            R.fail(f"scale-{name}-nsamples", "at scale the inferred sample count differs from the samples written", dict(case, inferred=ns)); return False
        if r.header.nbits != nbits or got.shape != (nchans, nsamps) or not same_bits(got.T, want2d):
            R.fail(f"scale-{name}-values", "at scale the values / shape / order read back differ from what was written",
                   dict(case, got_shape=list(got.shape), header_nbits_read=int(r.header.nbits),
                        **(_scale_diff(got.T, want2d) if got.shape == (nchans, nsamps) else {}))); return False
        if metav is not None:
            return check_meta(R, f"scale-{name}-meta", r.header, *metav, case)
        return True

    try:
        # -------------------------------------------------------------------------------------------------
        # 1. prep_outfile + cwrite (one call, many calls) + FilReader
        # -------------------------------------------------------------------------------------------------
        def fil_case(own, n_base, nbits, dt, nsamps, nchans, off, blocks, blocks_rule, layout="flat"):
            E = nsamps * nchans
            vals = _scale_as(own[off:off + E], dt, nbits)
            want = np.asarray(vals, dtype=np.float32).reshape(nsamps, nchans)
            if layout == "strided":             # the same samples as every other item of a buffer twice as long (1-D, not contiguous)
                big = np.zeros(2 * E, dtype=vals.dtype); big[::2] = vals; vals = big[::2]
            elif layout == "readonly":
                vals = np.array(vals, copy=True); vals.setflags(write=False)
            tsamp, tstart, dm = meta()
            hdr_nbits = 8 if nbits != 8 else 32          # the header the writer is prepared from has another depth (overridden by nbits=)
            path = os.path.join(d, "f.fil")
            case = {"path": "prep_outfile+cwrite", "dtype": dt, "nbits": nbits, "nsamps": nsamps, "nchans": nchans, "elements": E,
                    "cwrite_calls": len(blocks), "samples_per_call": blocks_rule, "layout": layout, "header_nbits": hdr_nbits, "tsamp": tsamp, "tstart": tstart, "dm": dm,
                    "data": f"props/c04.py: _scale_as(_scale_own(seed={seed}, nbits={nbits}, n={n_base})[{off}:{off + E}], '{dt}', {nbits})"}
            R.case(("scale", "fil", nbits, dt, nsamps, nchans, len(blocks), layout), regime="scale")
            R.tick(case)
            try:
                hdr = mk_header(path, nchans, hdr_nbits, nsamps, tsamp, tstart, dm)
                w = hdr.prep_outfile(path, nbits=nbits)
                try:
                    p = 0
                    for b in blocks:
                        w.cwrite(vals[p * nchans:(p + b) * nchans]); p += b
                finally:
                    w.close()
            except Exception as e:  # noqa: BLE001
                if dt == FILE_DT[nbits]:
                    R.fail("scale-cwrite-refused-own-type", f"at scale cwrite raised {exc(e)} for an array of the file's own sample type", case)
                rm(path); return
            reread_fil("cwrite", path, want, nbits, case, (tsamp, tstart, dm))
            rm(path)

        for nbits in DEPTHS:
            own_dt = FILE_DT[nbits]
            top = (1 << 25) + 8 if nbits < 8 else (1 << 24) + 8
            n_base = top + 4096
            own = _scale_own(seed, nbits, n_base)
            shapes = []
            for k in (16, 18, 20, 22):
                s = (1 << k) // 8
                shapes += [(s - 1, 8), (s, 8), (s + 1, 8)]
            shapes += [((1 << 21) - 1, 8), (1 << 21, 8), ((1 << 21) + 1, 8), (257, 4096), (16, 70000)]
            if nbits < 8:                       # packed length 2**22+1 / 2**23+2 / 2**24+4 bytes
                shapes += [((1 << 22) + 1, 8)]
            if nbits >= 8:
                shapes += [(65535, 1), (65537, 1), ((1 << 20) + 1, 1), ((1 << 22) + 1, 1), ((1 << 24) + 1, 1)]
            for i, (nsamps, nchans) in enumerate(shapes):
                fil_case(own, n_base, nbits, own_dt, nsamps, nchans, (i * 8) % 4096, [nsamps], "all in one call")
            for dt in DTYPES:
                if dt == own_dt:
                    continue
                for nsamps in (8193, (1 << 17) + 1, (1 << 19) + 1) + (((1 << 21) + 1,) if nbits >= 8 else ()):
                    fil_case(own, n_base, nbits, dt, nsamps, 8, 24, [nsamps], "all in one call")
            # long histories: ~2000 calls of 1..197 samples; a big / small / big history (the file cursor after a large write)
            N = 200000
            blocks, i = [], 0
            while sum(blocks) < N:
                blocks.append(min(1 + (i * 7919) % 197, N - sum(blocks))); i += 1
            fil_case(own, n_base, nbits, own_dt, N, 8, 0, blocks, "1 + (i*7919) % 197, the last one cut to end at 200000")
            hist = [(1 << 17) + 1, 1, 3, 1 << 17, 5, 70000, 16384, 65536]
            fil_case(own, n_base, nbits, own_dt, sum(hist), 8, 8, hist, hist)
            # read-only and strided 1-D arrays of the file's own type, in one call and in three (2**20+8 elements)
            for layout in ("readonly", "strided"):
                fil_case(own, n_base, nbits, own_dt, (1 << 17) + 1, 8, 16, [(1 << 17) + 1], "all in one call", layout=layout)
                fil_case(own, n_base, nbits, own_dt, (1 << 17) + 1, 8, 32, [1 << 16, 1, 1 << 16], [1 << 16, 1, 1 << 16], layout=layout)
            del own

        # rescale=True: only the width clause applies (the values are re-quantised on purpose); a refusal is allowed, as in run()
        from sigpyproc.io.fileio import FileWriter
        for nbits in DEPTHS:
            for dt in ("float32", "float64"):
                n = (1 << 20) + 8
                arr = np.random.default_rng([seed, 404, 99]).standard_normal(n).astype(dt)
                path = os.path.join(d, "rs.bin")
                case = {"path": "FileWriter(rescale=True).cwrite", "dtype": dt, "nbits": nbits, "n": n,
                        "data": f"numpy.random.default_rng([{seed}, 404, 99]).standard_normal({n}).astype('{dt}')"}
                R.case(("scale", "rescale", dt, nbits, n), regime="scale")
                R.tick(case)
                try:
                    with FileWriter(path, mode="w", nbits=nbits, rescale=True) as w:
                        w.cwrite(arr)
                except Exception as e:  # noqa: BLE001
                    if nbits == 32 and dt == "float32":     # nothing is re-quantised at 32 bits: the array has the file's sample type
                        R.fail("scale-cwrite-refused-own-type", f"at scale cwrite (rescale=True) raised {exc(e)} for a float32 array handed to a 32-bit writer", case)
                    rm(path); continue
                if os.path.getsize(path) * 8 != n * nbits:
                    R.fail("scale-cwrite-width-rescale", "at scale rescaled data are written at a width other than the declared depth",
                           dict(case, data_bytes=os.path.getsize(path), expected_bytes=n * nbits // 8))
                rm(path)
                del arr

        # -------------------------------------------------------------------------------------------------
        # 2. FilterbankBlock.to_file
        # -------------------------------------------------------------------------------------------------
        n32 = (1 << 24) + 4096
        f32 = _scale_own(seed, 32, n32)

        def block_case(dt, nchans, nsamps, off, dedisp=None):
            E = nchans * nsamps
            data = _scale_as(f32[off:off + E], dt, 32).reshape(nchans, nsamps)
            tsamp, tstart, dm = meta()
            path = os.path.join(d, "blk.fil")
            case = {"path": "FilterbankBlock.to_file" if dedisp is None else "FilterbankBlock.dedisperse(dm).to_file", "dtype": dt,
                    "nchans": nchans, "nsamps": nsamps, "elements": E, "tsamp": tsamp, "tstart": tstart, "dm": dm,
                    "data": f"props/c04.py: _scale_as(_scale_own(seed={seed}, nbits=32, n={n32})[{off}:{off + E}], '{dt}', 32).reshape({nchans}, {nsamps})"}
            if dedisp is not None:
                case["applied_dm"] = dedisp
            R.case(("scale", "to_file", dt, nchans, nsamps, dedisp), regime="scale")
            R.tick(case)
            try:
                hdr = mk_header(os.path.join(d, "blk_in.fil"), nchans, 8, nsamps, tsamp, tstart, dm)
                blk = FilterbankBlock(data, hdr, dm=dm)
                if dedisp is not None:
                    blk = blk.dedisperse(dedisp)
                    want_dm = dedisp
                else:
                    want_dm = dm
                held = np.array(blk.data, dtype=np.float32, copy=True)      # the samples as held in memory, (nchans, nsamps)
                blk.to_file(path)
                del blk
            except Exception as e:  # noqa: BLE001
                R.fail("scale-to_file-values", f"to_file at scale raised {exc(e)}", case); rm(path); return
            if dedisp is None and not same_bits(held, np.asarray(data, dtype=np.float32)):
                R.fail("scale-to_file-values", "the block does not hold the values it was constructed from", case); rm(path); return
            reread_fil("to_file", path, held.T, 32, case, (tsamp, tstart, want_dm))
            rm(path)

        for i, (nchans, nsamps) in enumerate([(1, 65537), (64, 1025), (64, 16385), (4096, 257), (70000, 3), (8, (1 << 19) + 1), (2, (1 << 23) + 1)]):
            block_case("float32", nchans, nsamps, 4 * i)
        for dt in DTYPES:
            if dt != "float32":
                block_case(dt, 64, 16385, 40)
                block_case(dt, 8, (1 << 19) + 1, 48)
        block_case("float32", 64, 70000, 0, dedisp=123.456)
        block_case("int64", 16, 140000, 64, dedisp=37.5)

        # -------------------------------------------------------------------------------------------------
        # 3. .tim, .dat/.inf, .spec, .fft/.inf
        # -------------------------------------------------------------------------------------------------
        def series_check(name, back, n_want, counts_ok, wantf, metav, case, inf):
            got = back.data
            gotf = np.ascontiguousarray(got).view(np.float32) if got.dtype == np.complex64 else got
            if got.size != n_want or back.header.nsamples not in counts_ok:
                R.fail(f"scale-{name}-nsamples", f"at scale the sample count read from the .{name} differs from the samples written",
                       dict(case, got=[int(back.header.nsamples), int(got.size)])); return
            if not same_bits(gotf, wantf):
                R.fail(f"scale-{name}-values", f"at scale the .{name} values read back differ", dict(case, **_scale_diff(gotf, wantf))); return
            check_meta(R, f"scale-{name}-meta", back.header, *metav, case, inf=inf)

        def tseries_case(dt, n, off):
            x = _scale_as(f32[off:off + n], dt, 32)
            want = np.asarray(x, dtype=np.float32)
            tsamp, tstart, dm = meta()
            base = os.path.join(d, "ts")
            data = f"props/c04.py: _scale_as(_scale_own(seed={seed}, nbits=32, n={n32})[{off}:{off + n}], '{dt}', 32)"
            for name, wr, rd, inf in (("tim", lambda t: t.to_tim(base + ".tim"), TimeSeries.from_tim, False),
                                      ("dat", lambda t: t.to_dat(base), TimeSeries.from_dat, True)):
                case = {"path": f"TimeSeries.to_{name}/from_{name}", "dtype": dt, "n": n, "tsamp": tsamp, "tstart": tstart, "dm": dm, "data": data}
                R.case(("scale", name, dt, n), regime="scale")
                R.tick(case)
                try:
                    hdr = mk_header(base + "_src.tim", 1, 8, n, tsamp, tstart, dm, data_type="time series")
                    ts = TimeSeries(x, hdr)
                    f = wr(ts)
                    del ts
                    R.tick(dict(case, step="read back"))
                    back = rd(f)
                except Exception as e:  # noqa: BLE001
                    R.fail(f"scale-{name}-values", f".{name} write / read at scale raised {exc(e)}", case); continue
                series_check(name, back, n, (n,), want, (tsamp, tstart, dm), case, inf)
                del back
            rm(base + ".tim", base + ".dat", base + ".inf")

        def fseries_case(dt, n, off, given="complex64"):
            if dt == "float32":
                z = np.ascontiguousarray(f32[off:off + 2 * n]).view(np.complex64)
            else:
                re_, im_ = _scale_as(f32[off:off + n], dt, 32), _scale_as(f32[off + n:off + 2 * n], dt, 32)
                z = np.empty(n, dtype=np.complex64)
                z.real = np.asarray(re_, dtype=np.float32); z.imag = np.asarray(im_, dtype=np.float32)
            wantf = z.view(np.float32).copy()
            zin = z
            if given == "complex128":           # the same bins held in memory as complex128
                zin = z.astype(np.complex128)
            elif given == "real":               # a real float64 array: n bins re + 0j
                zin = z.real.astype(np.float64)
                wantf[1::2] = 0.0
            tsamp, tstart, dm = meta()
            nt = 2 * (n - 1)
            base = os.path.join(d, "fs")
            data = (f"props/c04.py: complex64 bins (re, im) from _scale_own(seed={seed}, nbits=32, n={n32})[{off}:{off + 2 * n}]"
                    + ("" if dt == "float32" else f", first half as real and second half as imaginary parts through _scale_as(.., '{dt}', 32)"))
            for name, wr, rd, inf, counts in (("spec", lambda t: t.to_spec(base + ".spec"), FourierSeries.from_spec, False, (2 * n, n)),
                                              ("fft", lambda t: t.to_fft(base), FourierSeries.from_fft, True, (nt,))):
                case = {"path": f"FourierSeries.to_{name}/from_{name}", "dtype": dt, "given_as": given, "n_bins": n, "tsamp": tsamp, "tstart": tstart, "dm": dm, "data": data}
                R.case(("scale", name, dt, n, given), regime="scale")
                R.tick(case)
                try:
                    fh = mk_header(base + "_src.spec", 1, 8, nt, tsamp, tstart, dm, data_type="time series")
                    fs = FourierSeries(zin, fh)
                    f = wr(fs)
                    del fs
                    R.tick(dict(case, step="read back"))
                    back = rd(f)
                except Exception as e:  # noqa: BLE001
                    R.fail(f"scale-{name}-values", f".{name} write / read at scale raised {exc(e)}", case); continue
                series_check(name, back, n, counts, wantf, (tsamp, tstart, dm), case, inf)
                del back
            rm(base + ".spec", base + ".fft", base + ".inf")

        for i, n in enumerate([65535, 65536, 65537, (1 << 18) + 1, (1 << 20) - 1, 1 << 20, (1 << 20) + 1, (1 << 22) - 1, 1 << 22, (1 << 22) + 1,
                               (1 << 24) - 1, 1 << 24, (1 << 24) + 1]):
            tseries_case("float32", n, 4 * i)
        for i, n in enumerate([32768, 32769, 65535, 65536, 65537, 1 << 17, (1 << 19) + 1, 1 << 20, (1 << 21) - 1, 1 << 21, (1 << 21) + 1, (1 << 22) + 1,
                               (1 << 23) - 1, 1 << 23, (1 << 23) + 1]):
            fseries_case("float32", n, 4 * i)
        for dt in DTYPES:
            if dt != "float32":
                for n in (65537, (1 << 20) + 1):
                    tseries_case(dt, n, 100)
                    fseries_case(dt, n, 200)
        for given in ("complex128", "real"):
            for n in (65537, (1 << 20) + 1):
                fseries_case("float32", n, 300, given=given)
        del f32

        # -------------------------------------------------------------------------------------------------
        # 4. extract_chans and requantize: many gulps, gulps of more than 65536 samples, blocks of millions of elements
        # -------------------------------------------------------------------------------------------------
        def source(path, nb_in, nsamps, nchans, hi=None, off=0):
            """a source file written WITHOUT the library's pack / cwrite; returns the (nsamps, nchans) array it holds (own sample type)"""
            n_b = nsamps * nchans + off
            v = _scale_own(seed + 1, nb_in, n_b)[off:]
            if hi is not None:                    # integer values below hi (representable at the output depth as well)
                if nb_in == 32:
                    v = (v.view(np.uint32) % np.uint32(hi)).astype(np.float32)
                elif hi <= int(np.iinfo(v.dtype).max):
                    v = v % v.dtype.type(hi)
            tsamp, tstart, dm = meta()
            hdr = mk_header(path, nchans, nb_in, nsamps, tsamp, tstart, dm)
            w = hdr.prep_outfile(path)
            w.write(_scale_pack(v, nb_in).tobytes())
            w.close()
            return v.reshape(nsamps, nchans), f"props/c04.py: scale().source: _scale_own(seed={seed + 1}, nbits={nb_in}, n={n_b})[{off}:]" + (f" % {hi}" if hi else "")

        src = os.path.join(d, "src.fil")
        ec_table = [  # (nb_in, nchans, N, chans, gulp, start, nsamps)
            (8, 16, 70000, [0, 7, 15], 16384, 0, None), (8, 16, 70000, [3], 5000, 0, None), (16, 8, 70001, [1, 6], 70001, 0, None),
            (32, 4, 140000, [2], 65537, 0, None), (1, 64, 70000, [0, 63], 16384, 0, None), (2, 32, 40000, [5], 4097, 0, None),
            (4, 16, 40000, [9], 16384, 0, None), (8, 4, 70000, [1], 100, 0, None), (8, 300, 20000, list(range(300)), 16384, 0, None),
            (16, 8, 100000, [4], 16384, 1234, 90000), (8, 4096, 2000, [0, 4095], 16384, 0, None), (8, 70000, 40, [69999], 16384, 0, None),
            (8, 2, 1100000, [1], 1100000, 0, None), (32, 2, 1100000, [0], 1100000, 0, None),
        ]
        for nb_in, nchans, N, chans, gulp, start, nsel in ec_table:
            data, desc = source(src, nb_in, N, nchans)
            n_out = N - start if nsel is None else nsel
            case = {"path": "extract_chans", "nbits_in": nb_in, "nchans": nchans, "nsamps_in_file": N, "chans": chans if len(chans) <= 8 else f"all {len(chans)}",
                    "gulp": gulp, "start": start, "nsamps": nsel, "data": desc}
            R.case(("scale", "extract_chans", nb_in, nchans, N, len(chans), gulp, start), regime="scale")
            R.tick(case)
            names = []
            try:
                names = FilReader(src).extract_chans(chans=chans, outfile_base=os.path.join(d, "ec"), gulp=gulp, start=start, nsamps=nsel, quiet=True)
                for chan, nm in zip(chans, names):
                    want = data[start:start + n_out, chan].astype(np.float32)
                    c = dict(case, chan=chan)
                    hl = hdrlen_of(nm)
                    if (os.path.getsize(nm) - hl) * 8 != n_out * 32:
                        R.fail("scale-extract_chans-width", "at scale a channel time series is not nsamps*32 bits long",
                               dict(c, data_bytes=os.path.getsize(nm) - hl, expected_bytes=n_out * 4)); break
                    back = TimeSeries.from_tim(nm)
                    if back.header.nsamples != n_out or back.data.size != n_out:
                        R.fail("scale-extract_chans-nsamples", "at scale the inferred sample count differs", dict(c, inferred=int(back.header.nsamples))); break
                    if not same_bits(back.data, want):
                        R.fail("scale-extract_chans-values", "at scale the channel values differ", dict(c, **_scale_diff(back.data, want))); break
            except Exception as e:  # noqa: BLE001
                R.fail("scale-extract_chans-values", f"extract_chans / re-read at scale raised {exc(e)}", case)
            rm(src, *names)
            del data

        gulps = [16384, 5000, 70001, 16384, 100, 65537]
        rq_table = [(a, b, 16, 70000, gulps[(i * 6 + j) % len(gulps)]) for i, a in enumerate(DEPTHS) for j, b in enumerate(DEPTHS)]
        rq_table += [(a, b, 16, 300000, 300000) for a, b in ((8, 1), (8, 2), (8, 4), (8, 8), (8, 16), (8, 32), (1, 8), (2, 8), (4, 8), (16, 8),
                                                                 (32, 8), (1, 1), (2, 4), (16, 32))]
        rq_table += [(8, 4, 4096, 20000, 16384), (8, 16, 70000, 40, 16384), (1, 8, 4096, 3000, 1000)]
        out = os.path.join(d, "rq.fil")
        for nb_in, nb_out, nchans, N, gulp in rq_table:
            hi = None if nb_in == nb_out else 1 << min(nb_in, nb_out, 8)
            data, desc = source(src, nb_in, N, nchans, hi=hi)
            case = {"path": "requantize", "nbits_in": nb_in, "nbits_out": nb_out, "nchans": nchans, "nsamps": N, "gulp": gulp, "data": desc}
            R.case(("scale", "requantize", nb_in, nb_out, nchans, N, gulp), regime="scale")
            R.tick(case)
            try:
                FilReader(src).requantize(nb_out, outfile_name=out, gulp=gulp, quiet=True)
            except Exception as e:  # noqa: BLE001
                if FILE_DT[nb_in] == FILE_DT[nb_out]:       # blocks already have the output's sample type: no refusal allowed
                    R.fail("scale-requantize-values", f"requantize at scale raised {exc(e)} although the blocks have the output file's sample type", case)
                rm(src, out); del data; continue
            reread_fil("requantize", out, np.asarray(data, dtype=np.float32), nb_out, case)
            rm(src, out)
            del data
    finally:
        shutil.rmtree(d, ignore_errors=True)
