"""C20 -- a partially written output is always a valid prefix of the final file.

Proof: Props/C20.v over Gen/C20Sites.v (writer calls per call site, what write/cwrite/close/prep_outfile do to the file object, the
reader's sample-count and read_block arithmetic: all regenerated from /repo) and Model/C20_Trace.v (meaning of the primitives).

Oracle (the property restated against the implementation): FileWriter.write / FileWriter.cwrite are wrapped so that after every
call the output path is read back from disk; FilReader.read_plan is wrapped to log every block it hands out.  For every
streaming writer x depth x gulp, with stale junk at the output path beforehand:
  * the first thing on disk is exactly the encoded header, written once;
  * after every call the disk holds header ++ the blocks handed to cwrite so far (so it only grows and nothing is rewritten);
  * between two blocks of the read plan every output receives exactly one cwrite (one block per gulp, in loop order);
  * on normal return the file equals the last observation (complete without relying on close);
  * extract_bands / extract_chans with batch sizes 1, 2, 3, 5 and enough outputs for several batches: every output path is watched
    over the WHOLE call (also after it was closed): each state extends the previous one, header written once;
  * every byte-length truncation L >= |hdr| of the final file opens with FilReader, reports floor(8(L-|hdr|)/(nbits*nchans))
    samples and read_block(0, that many) equals the first that many samples of the full read; truncations inside the header raise.

Correspondence: the executable model (at_crash / on_return / open_nsamples / read_block_file) under vm_compute on the same
(stale content, header bytes, block bytes, truncation lengths) versus what the implementation left on disk / read back."""
import os
import re
import shutil

import numpy as np

import filutil
import vlib

NCH = {1: 16, 2: 8, 4: 4, 8: 4, 16: 2, 32: 2}
SITES = ["invert_freq", "apply_channel_mask", "downsample", "extract_samps", "requantize", "remove_zerodm", "subband",
         "extract_chans", "extract_bands", "to_file", "to_tim"]
ONESHOT = {"to_file", "to_tim"}
JUNK = bytes([0xEE, 0x48, 0x45, 0x41]) * 300     # stale content at the output path: longer than any output written here


class Tap:
    """wraps FileWriter.write/cwrite and FilReader.read_plan; logs ('W'|'C', path, payload bytes, disk bytes after) and ('Y',)"""

    def __init__(self, scratch):
        from sigpyproc.io import fileio
        from sigpyproc.readers import FilReader
        self.fileio, self.FilReader = fileio, FilReader
        self.ev = []
        self.scratch = scratch
        self.ow, self.oc, self.orp = fileio.FileWriter.write, fileio.FileWriter.cwrite, FilReader.read_plan
        tap = self

        def w(self_, bo):
            r = tap.ow(self_, bo)
            p = self_.files[0]
            with open(p, "rb") as f:
                disk = f.read()
            tap.ev.append(("W", p, bytes(bo), disk))
            return r

        def c(self_, arr):
            r = tap.oc(self_, arr)
            p = self_.files[0]
            with open(p, "rb") as f:
                disk = f.read()
            # the bytes this block encodes to, by the implementation's own encoder, on a file of its own
            t = tap.fileio.FileWriter(tap.scratch, mode="w+", nbits=self_.bitsinfo.nbits, rescale=self_.rescale)
            try:
                tap.oc(t, arr)
            finally:
                t.close()
            with open(tap.scratch, "rb") as f:
                payload = f.read()
            tap.ev.append(("C", p, payload, disk))
            return r

        def rp(self_, *a, **k):
            for item in tap.orp(self_, *a, **k):
                tap.ev.append(("Y",))
                yield item

        self.w, self.c, self.rp = w, c, rp

    def __enter__(self):
        self.fileio.FileWriter.write = self.w
        self.fileio.FileWriter.cwrite = self.c
        self.FilReader.read_plan = self.rp
        return self

    def __exit__(self, *a):
        self.fileio.FileWriter.write = self.ow
        self.fileio.FileWriter.cwrite = self.oc
        self.FilReader.read_plan = self.orp


def raw_of(block, nbits):
    """the raw file bytes a FilterbankBlock (nchans, k) came from"""
    from sigpyproc.io import bits
    x = np.ascontiguousarray(np.asarray(block.data).T).ravel()
    bi = bits.BitsInfo(nbits)
    if bi.unpack:
        return bits.pack(x.astype(np.uint8), nbits, bitorder=bi.bitorder).tobytes()
    return x.astype(bi.dtype).tobytes()


def run(R: vlib.Run):
    from sigpyproc.io import sigproc
    from sigpyproc.readers import FilReader
    R.rule = ("synthetic inputs at depths 1,2,4,8,16,32 (a sample a whole number of bytes); the 9 streaming writers of base.py at gulps "
              "{1,3,n-1,n,>n} plus FilterbankBlock.to_file and TimeSeries.to_tim; stale bytes at every output path; every crash point "
              "(after each write/cwrite) and every byte-length truncation of the final file (all lengths 0..len for one gulp per "
              "writer/depth, block boundaries +-1 for the others).  distinct = (writer, depth, gulp, params, output); non-trivial = "
              "more than one block written or a truncation sweep")
    R.trusted += ["Coq 8.16.1 kernel + vm_compute (examples, shape of the regenerated site descriptors)",
                  "tools/py2coq/gen_c20.py (ast -> per-site writer calls, file-object operations per writer method, reader arithmetic)",
                  "Model/C20_Trace.v: POSIX meaning of open-mode/write-at-position/seek/truncate/close and of buffered vs raw writes (hand model, tied by the correspondence)",
                  "Model/Stream.v (C02) for seek/counted read", "correspondence harness tools/harness/props/c20.py"]
    R.assume += ["io.FileIO is unbuffered and ndarray.tofile has flushed when it returns (observed by reading the path back after every call)",
                 "the header parser depends only on the header bytes (C05); per-byte unpacking is C03",
                 "outputs of one call are distinct paths", "a sample is a whole number of bytes ((nchans*nbits) mod 8 = 0)"]
    R.prove("Props/C20.v")
    R.need(["Model/C20_Trace.vo"])

    rng = R.rng
    nprng = np.random.default_rng(R.seed + 20)
    d = os.path.join(vlib.SCRATCH, f"c20_{os.getpid()}")
    shutil.rmtree(d, ignore_errors=True)
    os.makedirs(d, exist_ok=True)
    N = 7 if R.tier == "quick" else 11
    wcases, rcases = [], []          # correspondence cases: writer / reader
    swept = set()

    def stale(paths):
        for p in paths:
            with open(p, "wb") as f:
                f.write(JUNK)

    def sweep(site, final, case, Ls=None):
        """reader oracle on truncations of `final`; returns (hdrlen, nbits, nchans, [(L, k)], [(L, k, bytes)]) or None"""
        t = os.path.join(d, "trunc.fil")
        fp = os.path.join(d, "final_copy.fil")
        with open(fp, "wb") as f:
            f.write(final)
        try:
            g = FilReader(fp)
            hdrlen = g.header.stream_info.entries[0].hdrlen
            nbits, nch, n = g.header.nbits, g.header.nchans, g.header.nsamples
            full = np.asarray(g.read_block(0, n).data) if n > 0 else np.zeros((nch, 0))
        except Exception as e:  # noqa: BLE001
            R.fail(f"{site}-final-unreadable", "the completed output cannot be re-read", dict(case, exc=f"{type(e).__name__}: {str(e)[:120]}"))
            return None
        if (nbits * nch) % 8 != 0:
            R.case(("unaligned", site, case.get("nbits")), nontrivial=False, regime="sample-not-whole-bytes-skipped")
            return None
        if n != 8 * (len(final) - hdrlen) // (nbits * nch):
            R.fail(f"{site}-final-nsamples", "sample count of the completed output is not floor(8*datalen/(nbits*nchans))",
                   dict(case, nsamples=n, datalen=len(final) - hdrlen))
        ks, reads = [], []
        allL = range(0, len(final) + 1) if Ls is None else sorted(set(L for L in Ls if 0 <= L <= len(final)))
        for L in allL:
            with open(t, "wb") as f:
                f.write(final[:L])
            R.case(("trunc", site, case.get("nbits"), case.get("gulp"), case.get("out"), L), regime="truncation-in-header" if L < hdrlen else "truncation")
            try:
                g = FilReader(t)
            except Exception as e:  # noqa: BLE001
                if L >= hdrlen:
                    R.fail(f"{site}-truncation-unreadable", "a truncation at or after the header does not open with FilReader",
                           dict(case, L=L, hdrlen=hdrlen, exc=f"{type(e).__name__}: {str(e)[:120]}"))
                continue
            if L < hdrlen:
                R.fail("truncated-header-accepted", "a file cut inside its header opens without an error",
                       dict(case, L=L, hdrlen=hdrlen, nsamples=int(g.header.nsamples)))
                continue
            k = int(g.header.nsamples)
            want = 8 * (L - hdrlen) // (nbits * nch)
            ks.append((L, k))
            if k != want or g.header.nbits != nbits or g.header.nchans != nch:
                R.fail(f"{site}-truncation-nsamples", "a truncated output reports a sample count other than floor(8(L-|hdr|)/(nbits*nchans)) or another header",
                       dict(case, L=L, hdrlen=hdrlen, got=k, want=want))
                continue
            if k == 0:
                continue        # zero-length requests are not part of the property (DESIGN section 10)
            try:
                blk = g.read_block(0, k)
                got = np.asarray(blk.data)
            except Exception as e:  # noqa: BLE001
                R.fail(f"{site}-truncation-unreadable", "read_block(0, nsamples) fails on a truncated output",
                       dict(case, L=L, hdrlen=hdrlen, k=k, exc=f"{type(e).__name__}: {str(e)[:120]}"))
                continue
            if got.shape != (nch, k) or not np.array_equal(got, full[:, :k]):
                R.fail(f"{site}-truncation-data", "a truncated output does not read as the first k samples of the full result",
                       dict(case, L=L, hdrlen=hdrlen, k=k, got=got.T.tolist()[:4], want=full[:, :k].T.tolist()[:4]))
                continue
            reads.append((L, k, raw_of(blk, nbits)))
        return hdrlen, nbits, nch, ks, reads

    def judge(site, case, ev, outs, exc, full_sweep):
        """oracle on one call.  outs: output paths; ev: event log; exc: exception text or None"""
        for oi, o in enumerate(outs):
            c = dict(case, out=os.path.basename(o))
            idx = [i for i, e in enumerate(ev) if e[0] in "WC" and e[1] == o]
            if not idx:
                if exc is None:
                    R.fail(f"{site}-no-output", "the call returned but nothing was written to the output path", c)
                continue
            evs = [ev[i] for i in idx]
            kinds = "".join(e[0] for e in evs)
            key = (site, case["nbits"], case.get("gulp"), case.get("p"), oi)   # p carries the batch size
            R.case(key, nontrivial=len(evs) > 2 or full_sweep, regime=("died:" if exc else "") + site,
                   sample=dict(c, events=kinds, sizes=[len(e[3]) for e in evs]) if case.get("gulp") == 3 and case["nbits"] == 8 and oi == 0 else None)
            with open(o, "rb") as f:
                final = f.read()
            # over the WHOLE call (also across a close and a later re-open of the same path): every observed state of the
            # path extends the previous one -- the size only grows, nothing already on disk is truncated or rewritten
            for j in range(1, len(evs)):
                if not evs[j][3].startswith(evs[j - 1][3]):
                    R.fail(f"{site}-not-append-only", "a later state of an output path does not extend an earlier one (shrunk, truncated or rewritten during the call)",
                           dict(c, event=j, events=kinds, sizes=[len(e[3]) for e in evs], shrank=len(evs[j][3]) < len(evs[j - 1][3])))
                    break
            # header first, exactly, once
            h = evs[0][2]
            if evs[0][0] != "W" or evs[0][3] != h:
                R.fail(f"{site}-header-not-first", "after the first write the path does not hold exactly the encoded header",
                       dict(c, first_event=evs[0][0], disk_len=len(evs[0][3]), header_len=len(h), stale_left=evs[0][3][len(h):len(h) + 4].hex()))
                continue
            try:
                t = os.path.join(d, "hdr_only.fil")
                with open(t, "wb") as f:
                    f.write(h)
                ph = sigproc.parse_header(t)
                if ph["hdrlen"] != len(h) or ph["nsamples"] != 0:
                    raise ValueError(f"hdrlen {ph['hdrlen']} != {len(h)}")
            except Exception as e:  # noqa: BLE001
                R.fail(f"{site}-header-not-first", "what the first write left on disk is not a complete SIGPROC header",
                       dict(c, exc=f"{type(e).__name__}: {str(e)[:100]}"))
                continue
            if kinds.count("W") != 1:
                R.fail(f"{site}-second-header-write", "more than one raw write on the output", dict(c, events=kinds))
                continue
            # append only: after call j the disk is header ++ blocks[:j]
            blocks = [e[2] for e in evs[1:]]
            bad = None
            acc = h
            for j, e in enumerate(evs[1:]):
                acc = acc + e[2]
                if e[3] != acc:
                    bad = j
                    break
            if bad is not None:
                e = evs[1 + bad]
                R.fail(f"{site}-not-append-only", "after a cwrite the path does not hold header ++ the blocks written so far",
                       dict(c, block=bad, disk_len=len(e[3]), expected_len=len(acc), is_prefix=acc.startswith(e[3]), events=kinds))
                continue
            # one block per gulp, in loop order
            lo, hi = idx[0], idx[-1]
            pat = "".join("Y" if e[0] == "Y" else ("C" if e[1] == o else "") for e in ev[lo + 1:hi + 1])
            okpat = (pat in ("C", "")) if site in ONESHOT else re.fullmatch(r"(YC)*", pat) is not None
            if not okpat:
                R.fail(f"{site}-not-one-block-per-gulp", "blocks do not reach the output one per block of the read plan, in order",
                       dict(c, pattern=pat[:60]))
            # complete on return (or: what survives the exception is the last observation)
            if final != evs[-1][3]:
                R.fail(f"{site}-changed-after-last-write" if exc is None else f"{site}-changed-after-death",
                       "the file on disk differs from what was there after the last write",
                       dict(c, final_len=len(final), last_len=len(evs[-1][3]), same_prefix=final[:len(h)] == h))
                continue
            # reader: truncations
            if full_sweep:
                Ls = None
            else:
                Ls = set()
                for e in evs:
                    Ls |= {len(e[3]) - 1, len(e[3]), len(e[3]) + 1}
                Ls |= {0, len(h) - 1, len(final)}
            sw = sweep(site, final, c, Ls)
            if sw is None:
                continue
            hdrlen, nbits, nch, ks, reads = sw
            if hdrlen != len(h):
                R.fail(f"{site}-header-not-first", "header length seen by the reader differs from what prep_outfile wrote", dict(c, hdrlen=hdrlen, wrote=len(h)))
            if full_sweep and len(wcases) < 160:
                wcases.append((site, list(JUNK[:len(final) + 5]), list(h), [list(b) for b in blocks], [list(e[3]) for e in evs], list(final), exc is None))
                pick = reads if len(reads) <= 6 else [reads[i] for i in sorted(set([0, 1, len(reads) // 2, len(reads) - 2, len(reads) - 1]))]
                rcases.append((list(h), list(final[hdrlen:]), nbits, nch, ks, [(L, k, list(b)) for L, k, b in pick]))

    try:
        for nbits in (8, 1, 2, 4, 16, 32):
            nch = NCH[nbits]
            x = nprng.integers(0, 1 << min(nbits, 8), (N, nch))
            inp = filutil.write_fil(os.path.join(d, f"in{nbits}.fil"), x, nbits, fch1=400.0, foff=-80.0 / nch, tsamp=0.001)
            base = os.path.join(d, "o")
            o1 = os.path.join(d, "o.fil")
            half = nch // 2
            mask = (np.arange(nch) % 2).astype(bool)
            gulps = sorted(set([1, 3, N - 1, N, N + 3]))
            if R.tier != "quick":
                gulps = sorted(set(gulps + [2, 4, 5, rng.randrange(1, N + 5)]))

            def calls(fil, gulp):
                kw = dict(gulp=gulp, quiet=True)
                out = [
                    ("invert_freq", "", [o1], lambda: fil.invert_freq(o1, **kw)),
                    ("apply_channel_mask", "", [o1], lambda: fil.apply_channel_mask(mask, 0, o1, **kw)),
                    ("downsample", "t2", [o1], lambda: fil.downsample(2, 1, o1, **kw)),
                    ("extract_samps", "1:N-2", [o1], lambda: fil.extract_samps(1, N - 2, o1, **kw)),
                    ("requantize", "8", [o1], lambda: fil.requantize(8, o1, **kw)),
                    ("remove_zerodm", "", [o1], lambda: fil.remove_zerodm(o1, **kw)),
                    ("subband", "dm0.25", [o1], lambda: fil.subband(0.25, 2, o1, **kw)),
                    ("extract_chans", "0,last;batch1", [f"{base}_chan{0:04d}.tim", f"{base}_chan{nch - 1:04d}.tim"],
                     lambda: fil.extract_chans([0, nch - 1], base, batch_size=1, **kw)),
                    ("extract_bands", "2 bands", [f"{base}_sub00.fil", f"{base}_sub01.fil"] if half * nbits % 8 == 0 and half > 1 else [f"{base}_sub00.fil"],
                     (lambda: fil.extract_bands(0, nch, half, base, **kw)) if half * nbits % 8 == 0 and half > 1 else (lambda: fil.extract_bands(0, nch, nch, base, **kw))),
                ]
                if gulp == 3:
                    out += [
                        ("downsample", "f2", [o1], lambda: fil.downsample(1, 2, o1, **kw)),
                        ("requantize", "2", [o1], lambda: fil.requantize(2, o1, **kw)),
                        ("requantize", "32", [o1], lambda: fil.requantize(32, o1, **kw)),
                        ("extract_samps", "sub", [o1], lambda: fil.extract_samps(2, 3, o1, **kw)),
                        ("to_file", "", [o1], lambda: fil.read_block(0, N).to_file(o1)),
                        ("to_tim", "", [os.path.join(d, "o.tim")], lambda: fil.read_chan(0, quiet=True).to_tim(os.path.join(d, "o.tim"))),
                    ]
                return out

            for gulp in gulps:
                fil = FilReader(inp)
                for site, p, outs, fn in calls(fil, gulp):
                    case = {"site": site, "nbits": nbits, "nchans": nch, "N": N, "gulp": gulp, "p": p}
                    stale(outs)
                    exc = None
                    with Tap(os.path.join(d, "payload.bin")) as tap:
                        try:
                            fn()
                        except Exception as e:  # noqa: BLE001  -- the call died: what is on disk must still be a valid prefix
                            exc = f"{type(e).__name__}: {str(e)[:100]}"
                        ev = list(tap.ev)
                    fs_key = (site, nbits, p)
                    full_sweep = (gulp == 3 and fs_key not in swept) or R.tier != "quick" and gulp in (1, N)
                    if gulp == 3:
                        swept.add(fs_key)
                    judge(site, case, ev, outs, exc, full_sweep)
                    for o in outs:
                        try:
                            os.remove(o)
                        except OSError:
                            pass
                del fil

        # ---- batching of the multi-output writers: several batches, every output path watched over the whole call ------
        for nbits, nchb in ((8, 16), (32, 8)):
            x = nprng.integers(0, 1 << min(nbits, 8), (N, nchb))
            inp = filutil.write_fil(os.path.join(d, f"inb{nbits}.fil"), x, nbits, fch1=400.0, foff=-80.0 / nchb, tsamp=0.001)
            base = os.path.join(d, "b")
            nsub = nchb // 2
            chans = list(range(0, nchb, 2))[:7] + [nchb - 1]
            for bsz in (1, 2, 3, 5):
                for gulp in ((3, N + 3) if R.tier == "quick" else (1, 3, N, N + 3)):
                    fil = FilReader(inp)
                    jobs = [("extract_bands", f"{nsub} bands;batch{bsz}", [f"{base}_sub{i:02d}.fil" for i in range(nsub)],
                             lambda: fil.extract_bands(0, nchb, 2, base, batch_size=bsz, gulp=gulp, quiet=True)),
                            ("extract_chans", f"{len(chans)} chans;batch{bsz}", [f"{base}_chan{c_:04d}.tim" for c_ in chans],
                             lambda: fil.extract_chans(chans, base, batch_size=bsz, gulp=gulp, quiet=True))]
                    for site, p, outs, fn in jobs:
                        case = {"site": site, "nbits": nbits, "nchans": nchb, "N": N, "gulp": gulp, "p": p, "batch_size": bsz}
                        stale(outs)
                        exc = None
                        with Tap(os.path.join(d, "payload.bin")) as tap:
                            try:
                                ret = fn()
                            except Exception as e:  # noqa: BLE001
                                exc, ret = f"{type(e).__name__}: {str(e)[:100]}", None
                            ev = list(tap.ev)
                        if exc is None and sorted(ret) != sorted(outs):
                            R.fail(f"{site}-no-output", "the list of files returned differs from the outputs requested", dict(case, returned=[os.path.basename(r) for r in ret]))
                        touched = sorted(set(e[1] for e in ev if e[0] in "WC") - set(outs))
                        if touched:
                            R.fail(f"{site}-no-output", "a path that is not one of the outputs was written", dict(case, paths=[os.path.basename(t) for t in touched]))
                        judge(site, case, ev, outs, exc, full_sweep=(bsz == 2 and gulp == 3 and nbits == 8))
                        for o in outs:
                            try:
                                os.remove(o)
                            except OSError:
                                pass
                    del fil

        # ---- correspondence: the executable model on the same inputs ------------------------------------------------
        head = ["From Coq Require Import ZArith List Bool.", "Require Import SPP.Base.Rt SPP.Gen.C20Sites SPP.Model.Stream SPP.Model.C20_Trace.",
                "Import ListNotations.", "Open Scope Z_scope.",
                "Definition lle (a b : list (list Z)) : bool := (Nat.eqb (length a) (length b)) && forallb (fun p => list_eqb (fst p) (snd p)) (combine a b)."]
        per = 12
        for si in range(0, len(wcases), per):
            sh = wcases[si:si + per]
            lines = list(head)
            lines.append("Definition cases : list (site * list Z * list Z * list (list Z) * list (list Z) * list Z * bool) := [")
            lines.append(";\n".join(f"(site_{s}, {vlib.zlist(old)}, {vlib.zlist(h)}, {vlib.zlistlist(bs) if bs else '[]'}, {vlib.zlistlist(snaps)}, {vlib.zlist(fin)}, {'true' if ret else 'false'})"
                                    for s, old, h, bs, snaps, fin, ret in sh))
            lines.append("].")
            lines.append("""Definition ok (c : site * list Z * list Z * list (list Z) * list (list Z) * list Z * bool) : bool :=
  let '(s, old, h, bs, snaps, fin, ret) := c in
  lle (map (fun j => disk (at_crash s old h bs (2 + j))) (seq 0 (S (length bs)))) snaps
  && forallb (fun j => match pend (at_crash s old h bs (2 + j)) with [] => true | _ => false end) (seq 0 (S (length bs)))
  && list_eqb (disk (at_crash s old h bs 0)) old && list_eqb (disk (at_crash s old h bs 1)) []
  && (negb ret || list_eqb (disk (on_return s old h bs)) fin).
Definition idx := map fst (filter (fun p => negb (ok (snd p))) (combine (seq 0 (length cases)) cases)).
Eval vm_compute in (length cases, idx).""")
            rc, out = vlib.coq_run(f"c20_w{si // per}", "\n".join(lines), timeout=300)
            vals = vlib.parse_eval(out)
            if rc != 0 or not vals:
                R.red.append("correspondence: Corr/c20_w did not evaluate: " + out[-400:])
                continue
            nums = [int(v) for v in re.findall(r"(\d+)%nat", vals[0])]
            R.extra_cov["traces_validated_against_impl"] = R.extra_cov.get("traces_validated_against_impl", 0) + (nums[0] if nums else 0)
            for bi in nums[1:][:4]:
                s, old, h, bs, snaps, fin, ret = sh[bi]
                R.disagree("writer model and implementation differ on what is on disk at the crash points",
                           {"site": s, "header_len": len(h), "block_lens": [len(b) for b in bs], "snap_lens": [len(x) for x in snaps], "final_len": len(fin)})
        nread = 0
        for si in range(0, len(rcases), per):
            sh = rcases[si:si + per]
            lines = list(head)
            lines.append("Definition cases : list (list Z * list Z * Z * Z * list (Z * Z) * list (Z * Z * list Z)) := [")
            lines.append(";\n".join(
                f"({vlib.zlist(h)}, {vlib.zlist(dd)}, {nb}, {nc}, [" + "; ".join(f"({L}, {k})" for L, k in ks) + "], [" +
                "; ".join(f"({L}, {k}, {vlib.zlist(b)})" for L, k, b in rd) + "])" for h, dd, nb, nc, ks, rd in sh))
            lines.append("].")
            lines.append("""Definition ok (c : list Z * list Z * Z * Z * list (Z * Z) * list (Z * Z * list Z)) : bool :=
  let '(h, d, nb, nc, ks, rd) := c in
  forallb (fun p => open_nsamples (cut h d (fst p)) nb nc =? snd p) ks
  && forallb (fun t => let '(L, k, b) := t in
       match read_block_file (cut h d L) nb nc (open_nsamples (cut h d L) nb nc) 0 k with OBytes r => list_eqb r b | _ => false end
       && match read_block_file (cut h d L) nb nc (open_nsamples (cut h d L) nb nc) 0 (k + 1) with OErr _ => true | _ => false end) rd.
Definition idx := map fst (filter (fun p => negb (ok (snd p))) (combine (seq 0 (length cases)) cases)).
Eval vm_compute in (length cases, idx).""")
            rc, out = vlib.coq_run(f"c20_r{si // per}", "\n".join(lines), timeout=300)
            vals = vlib.parse_eval(out)
            if rc != 0 or not vals:
                R.red.append("correspondence: Corr/c20_r did not evaluate: " + out[-400:])
                continue
            nums = [int(v) for v in re.findall(r"(\d+)%nat", vals[0])]
            nread += nums[0] if nums else 0
            for bi in nums[1:][:4]:
                h, dd, nb, nc, ks, rd = sh[bi]
                R.disagree("reader model and FilReader differ on a truncated file",
                           {"header_len": len(h), "data_len": len(dd), "nbits": nb, "nchans": nc, "nsamples_by_length": ks[:12]})
        R.extra_cov["correspondence_cases"] = len(wcases) + len(rcases)
        R.extra_cov["reader_files_validated_against_impl"] = nread
        # the read past the inferred end must raise in the implementation too (range check of read_block)
    finally:
        shutil.rmtree(d, ignore_errors=True)
    return R
