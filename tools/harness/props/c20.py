"""C20 -- a partially written output is always a valid prefix of the final file.

Proof: Props/C20.v over Gen/C20Sites.v (writer calls per call site, what write/cwrite/close/prep_outfile do to the file object, the
reader's sample-count and read_block arithmetic: all regenerated from /repo) and Model/C20_Trace.v (meaning of the primitives).

Oracle (the property restated against the implementation): FileWriter.write / FileWriter.cwrite are wrapped so that after every
call the output path is read back from disk; FilReader.read_plan is wrapped to log every block it hands out.  For every
streaming writer x depth x gulp, with stale junk at the output path beforehand:
  * the first thing on disk is exactly the encoded header, written once;
  * after every call the disk holds header ++ the blocks handed to cwrite so far (so it only grows and nothing is rewritten);
  * between two blocks of the read plan every output receives exactly one cwrite (one block per gulp, in loop order);
  * on normal return the file equals the last observation (complete without relying on close);
  * every observed intermediate state is a byte prefix of the file the call leaves behind, and the header region of that file
    is byte for byte the header first written (never patched afterwards);
  * every writer that takes a range is observed on SUB-RANGES with start > 0 too (start/nsamps strictly inside the file), not
    only on whole-file calls: code that runs only for start > 0 is inside the scope;
  * extract_bands / extract_chans with batch sizes 1, 2, 3, 5 and enough outputs for several batches: every output path is watched
    over the WHOLE call (also after it was closed): each state extends the previous one, header written once;
  * every byte-length truncation L >= |hdr| of the final file opens with FilReader, reports floor(8(L-|hdr|)/(nbits*nchans))
    samples and read_block(0, that many) equals the first that many samples of the full read; truncations inside the header raise
    (those cuts are outside the quantifier: they are checked but not counted as evaluations);
  * complete on return: every call that returns normally leaves exactly the number of samples the call was asked for (counted
    independently of the writer: range, decimation factor, dispersion delay), and no block of the read plan goes by without its
    write -- the window runs to the end of the call (or to the next batch), not only to the last write;
  * a truncated output carries the same header values as the full file, read_block(k-1, 1) is the k-th sample, read_block(0, k+1)
    raises, read_plan over a cut at a whole sample delivers the same k samples; .tim outputs are also read back with
    TimeSeries.from_tim and .spec outputs with FourierSeries.from_spec (k >= 1);
  * inputs with an ascending band (foff > 0) and inputs spread over two files; extract_bands with chanstart > 0, extract_chans
    with the default channel list, FilterbankBlock.to_file of a block that starts inside the file, FourierSeries.to_spec;
  * coverage floor: every writer must have returned normally at least once with several blocks at every depth (else red).

Correspondence: the executable model (at_crash / on_return / open_nsamples / read_block_file) under vm_compute on the same
(stale content, header bytes, block bytes, truncation lengths) versus what the implementation left on disk / read back.
The two states before the header write (path untouched until the open; empty after the truncating open) are observed around
FileWriter.__init__ and compared with at_crash ... 0 / 1 as well.

At-scale search: scale(R) at the end of this file (blocks around 2**16 .. 2**24 elements at every depth, 1e5 .. 1.7e7 samples, gulps
16384 / non-dividing / above 65536, 70000 blocks, 450 outputs in batches of 200, 4096 channels; same oracle with byte counts and crc32)."""
import json
import os
import re
import shutil
import zlib

import numpy as np

import filutil
import vlib

NCH = {1: 16, 2: 8, 4: 4, 8: 4, 16: 2, 32: 2}
SITES = ["invert_freq", "apply_channel_mask", "downsample", "extract_samps", "requantize", "remove_zerodm", "subband",
         "extract_chans", "extract_bands", "to_file", "to_tim"]
ONESHOT = {"to_file", "to_tim", "to_spec"}
# (writer, depth) pairs whose every call dies with an exception in the library as it is (16-bit input: the numba kernels of the mask /
# zero-DM / sub-band writers have no uint16 signature; findings.d/C20.md): no coverage floor there -- what they leave behind is still judged
NO_FLOOR = {("apply_channel_mask", 16), ("remove_zerodm", 16), ("subband", 16)}
JUNK = bytes([0xEE, 0x48, 0x45, 0x41]) * 300     # stale content at the output path: longer than any output written here


class Tap:
    """wraps FileWriter.write/cwrite and FilReader.read_plan; logs ('W'|'C', path, payload bytes, disk bytes after) and ('Y',);
    wraps FileWriter.__init__ too: ('O', path, bytes at the path before the open or None, bytes at the path after the open) --
    the two states of the trace that lie before the header write"""

    def __init__(self, scratch):
        from sigpyproc.io import fileio
        from sigpyproc.readers import FilReader
        self.fileio, self.FilReader = fileio, FilReader
        self.ev = []
        self.scratch = scratch
        self.ow, self.oc, self.orp = fileio.FileWriter.write, fileio.FileWriter.cwrite, FilReader.read_plan
        self.oi = fileio.FileWriter.__init__
        tap = self

        def w(self_, bo):
            r = tap.ow(self_, bo)
            p = self_.files[0]
            with open(p, "rb") as f:
                disk = f.read()
            tap.ev.append(("W", p, bytes(bo), disk))
            return r

        def i(self_, *a, **k):
            p = a[0] if a else k.get("file")
            if p == tap.scratch or not isinstance(p, (str, os.PathLike)):            # the observer's own encoder file
                return tap.oi(self_, *a, **k)
            pre = None
            if os.path.exists(p):
                with open(p, "rb") as f:
                    pre = f.read()
            r = tap.oi(self_, *a, **k)
            with open(p, "rb") as f:
                post = f.read()
            tap.ev.append(("O", os.fspath(p), pre, post))
            return r

        def c(self_, arr):
            r = tap.oc(self_, arr)
            p = self_.files[0]
            with open(p, "rb") as f:
                disk = f.read()
            # the bytes this block encodes to, by the implementation's own encoder, on a file of its own
            t = tap.fileio.FileWriter(tap.scratch, mode="w+", nbits=self_.bitsinfo.nbits, rescale=self_.rescale)
            try:
                tap.oc(t, arr)
            finally:
                t.close()
            with open(tap.scratch, "rb") as f:
                payload = f.read()
            tap.ev.append(("C", p, payload, disk))
            return r

        def rp(self_, *a, **k):
            for item in tap.orp(self_, *a, **k):
                tap.ev.append(("Y",))
                yield item

        self.w, self.c, self.rp, self.i = w, c, rp, i

    def __enter__(self):
        self.fileio.FileWriter.write = self.w
        self.fileio.FileWriter.cwrite = self.c
        self.fileio.FileWriter.__init__ = self.i
        self.FilReader.read_plan = self.rp
        return self

    def __exit__(self, *a):
        self.fileio.FileWriter.write = self.ow
        self.fileio.FileWriter.cwrite = self.oc
        self.fileio.FileWriter.__init__ = self.oi
        self.FilReader.read_plan = self.orp


def raw_of(block, nbits):
    """the raw file bytes a FilterbankBlock (nchans, k) came from"""
    from sigpyproc.io import bits
    x = np.ascontiguousarray(np.asarray(block.data).T).ravel()
    bi = bits.BitsInfo(nbits)
    if bi.unpack:
        return bits.pack(x.astype(np.uint8), nbits, bitorder=bi.bitorder).tobytes()
    return x.astype(bi.dtype).tobytes()


def run(R: vlib.Run):
    from sigpyproc.fourierseries import FourierSeries
    from sigpyproc.io import sigproc
    from sigpyproc.readers import FilReader
    from sigpyproc.timeseries import TimeSeries
    R.rule = ("synthetic inputs at depths 1,2,4,8,16,32 (a sample a whole number of bytes); the 9 streaming writers of base.py at gulps "
              "{1,3,n-1,n,>n} plus FilterbankBlock.to_file (also of a block that starts inside the file), TimeSeries.to_tim and FourierSeries.to_spec; every writer with a range also on a sub-range with start > 0; "
              "at depth 8 also an ascending band (foff > 0) and an input spread over two files; extract_bands with chanstart > 0, extract_chans with the default channel list; "
              "stale bytes at every output path; the sample count on return against the count asked for; every crash point "
              "(after each write/cwrite) and every byte-length truncation of the final file (all lengths 0..len for one gulp per "
              "writer/depth, block boundaries +-1 for the others; cuts inside the header are checked to raise but not counted; .tim / .spec outputs also through from_tim / from_spec).  distinct = (writer, depth, gulp, params, output); non-trivial = "
              "more than one block written or a truncation sweep")
    R.trusted += ["Coq 8.16.1 kernel + vm_compute (examples, shape of the regenerated site descriptors)",
                  "tools/py2coq/gen_c20.py (ast -> per-site writer calls, file-object operations per writer method, reader arithmetic)",
                  "Model/C20_Trace.v: POSIX meaning of open-mode/write-at-position/seek/truncate/close and of buffered vs raw writes (hand model, tied by the correspondence)",
                  "Model/Stream.v (C02) for seek/counted read", "correspondence harness tools/harness/props/c20.py"]
    R.assume += ["io.FileIO is unbuffered and ndarray.tofile has flushed when it returns (observed by reading the path back after every call)",
                 "the header parser depends only on the header bytes (C05); per-byte unpacking is C03",
                 "outputs of one call are distinct paths", "a sample is a whole number of bytes ((nchans*nbits) mod 8 = 0)",
                 "one OUTPUT sample is a whole number of bytes too: the writers do not refuse a band / decimation / depth whose sample is not "
                 "(e.g. 2-bit extract_bands with chanpersub=2, 1-bit downsample to 4 channels); there cwrite packs every block on its own, drops the "
                 "bits of a block that do not fill a byte, and the output loses samples depending on the gulp (observation, not checked here)",
                 "TimeSeries.from_tim and FourierSeries.from_spec are asked only for k >= 1 complete samples (on a header-only file both raise "
                 "'Input data is empty'; zero-length results are outside the property, DESIGN 10), and from_spec only for a .spec file cut at a "
                 "whole complex bin (it views the float32 stream as complex64 and refuses an odd number of floats)",
                 "the expected sample count of a sub-banded output uses the library's own Header.get_dmdelays for the largest delay (the delays themselves are C09)"]
    R.prove("Props/C20.v")
    R.need(["Model/C20_Trace.vo"])

    rng = R.rng
    nprng = np.random.default_rng(R.seed + 20)
    d = os.path.join(vlib.SCRATCH, f"c20_{os.getpid()}")
    shutil.rmtree(d, ignore_errors=True)
    os.makedirs(d, exist_ok=True)
    N = 7 if R.tier == "quick" else 11
    wcases, rcases = [], []          # correspondence cases: writer / reader
    swept = set()
    alive = {}                       # (writer, depth) -> most blocks written by a call that returned normally

    def stale(paths):
        for p in paths:
            with open(p, "wb") as f:
                f.write(JUNK)

    HATTR = ("data_type", "nchans", "foff", "fch1", "nbits", "tsamp", "tstart", "nifs", "telescope", "backend", "source", "frame",
             "ibeam", "nbeams", "dm", "period", "accel", "signed", "rawdatafile")

    def hvals(hdr, sig=False):
        """the header values of a reader, as a comparable string (no sample count, no path): the plain attributes; sig: also everything
        the SIGPROC header carries (to_sigproc: coordinates, angles, ids -- slower, asked for the first and the last cut of a sweep)"""
        v = {a: getattr(hdr, a) for a in HATTR}
        if sig:
            v["sigproc"] = hdr.to_sigproc()
        return json.dumps(v, sort_keys=True, default=str)

    def sweep(site, final, case, Ls=None, kind="fil"):
        """reader oracle on truncations of `final`; returns (hdrlen, nbits, nchans, [(L, k)], [(L, k, bytes)]) or None.
        kind: "fil" | "tim" (also read back with TimeSeries.from_tim) | "spec" (also with FourierSeries.from_spec)"""
        t = os.path.join(d, "trunc.fil")
        fp = os.path.join(d, "final_copy.fil")
        with open(fp, "wb") as f:
            f.write(final)
        try:
            g = FilReader(fp)
            hdrlen = g.header.stream_info.entries[0].hdrlen
            nbits, nch, n = g.header.nbits, g.header.nchans, g.header.nsamples
            full = np.asarray(g.read_block(0, n).data) if n > 0 else np.zeros((nch, 0))
            full_hvals = {False: hvals(g.header), True: hvals(g.header, sig=True)}
        except Exception as e:  # noqa: BLE001
            R.fail(f"{site}-final-unreadable", "the completed output cannot be re-read", dict(case, exc=f"{type(e).__name__}: {str(e)[:120]}"))
            return None
        if (nbits * nch) % 8 != 0:
            R.case(("unaligned", site, case.get("nbits")), nontrivial=False, regime="sample-not-whole-bytes-skipped")
            return None
        if n != 8 * (len(final) - hdrlen) // (nbits * nch):
            R.fail(f"{site}-final-nsamples", "sample count of the completed output is not floor(8*datalen/(nbits*nchans))",
                   dict(case, nsamples=n, datalen=len(final) - hdrlen))
        ks, reads = [], []
        sig_done = False
        allL = range(0, len(final) + 1) if Ls is None else sorted(set(L for L in Ls if 0 <= L <= len(final)))
        for L in allL:
            with open(t, "wb") as f:
                f.write(final[:L])
            if L < hdrlen:
                # a cut inside the header is outside the quantifier ("at or after the header"): still checked, not counted as an evaluation
                R.tick(dict(case, L=L))
                R.hist["truncation-in-header (checked, not counted)"] = R.hist.get("truncation-in-header (checked, not counted)", 0) + 1
            else:
                R.case(("trunc", site, case.get("nbits"), case.get("gulp"), case.get("out"), case.get("p"), L), regime="truncation")
            try:
                g = FilReader(t)
            except Exception as e:  # noqa: BLE001
                if L >= hdrlen:
                    R.fail(f"{site}-truncation-unreadable", "a truncation at or after the header does not open with FilReader",
                           dict(case, L=L, hdrlen=hdrlen, exc=f"{type(e).__name__}: {str(e)[:120]}"))
                continue
            if L < hdrlen:
                R.fail("truncated-header-accepted", "a file cut inside its header opens without an error",
                       dict(case, L=L, hdrlen=hdrlen, nsamples=int(g.header.nsamples)))
                continue
            k = int(g.header.nsamples)
            want = 8 * (L - hdrlen) // (nbits * nch)
            ks.append((L, k))
            if k != want or g.header.nbits != nbits or g.header.nchans != nch:
                R.fail(f"{site}-truncation-nsamples", "a truncated output reports a sample count other than floor(8(L-|hdr|)/(nbits*nchans)) or another header",
                       dict(case, L=L, hdrlen=hdrlen, got=k, want=want))
                continue
            if k == 0:
                continue        # zero-length requests are not part of the property (DESIGN section 10)
            try:
                blk = g.read_block(0, k)
                got = np.asarray(blk.data)
            except Exception as e:  # noqa: BLE001
                R.fail(f"{site}-truncation-unreadable", "read_block(0, nsamples) fails on a truncated output",
                       dict(case, L=L, hdrlen=hdrlen, k=k, exc=f"{type(e).__name__}: {str(e)[:120]}"))
                continue
            if got.shape != (nch, k) or not np.array_equal(got, full[:, :k]):
                R.fail(f"{site}-truncation-data", "a truncated output does not read as the first k samples of the full result",
                       dict(case, L=L, hdrlen=hdrlen, k=k, got=got.T.tolist()[:4], want=full[:, :k].T.tolist()[:4]))
                continue
            reads.append((L, k, raw_of(blk, nbits)))
            cc = dict(case, L=L, hdrlen=hdrlen, k=k)
            # the same header values as the full file (not only depth and channel count)
            sig = not sig_done or L == len(final)
            sig_done = True
            try:
                hv = hvals(g.header, sig)
            except Exception as e:  # noqa: BLE001
                hv = f"{type(e).__name__}: {str(e)[:120]}"
            if hv != full_hvals[sig]:
                R.fail(f"{site}-truncation-header", "a truncated output opens with header values other than those of the full file",
                       dict(cc, got=hv[:400], want=full_hvals[sig][:400]))
            # the last complete sample on its own (a read that does not start at 0), and nothing beyond it
            try:
                one = np.asarray(g.read_block(k - 1, 1).data)
                if one.shape != (nch, 1) or not np.array_equal(one, full[:, k - 1:k]):
                    R.fail(f"{site}-truncation-data", "read_block(k-1, 1) on a truncated output is not the k-th sample of the full result",
                           dict(cc, got=one.T.tolist(), want=full[:, k - 1:k].T.tolist()))
            except Exception as e:  # noqa: BLE001
                R.fail(f"{site}-truncation-unreadable", "read_block(k-1, 1) fails on a truncated output", dict(cc, exc=f"{type(e).__name__}: {str(e)[:120]}"))
            try:
                over = g.read_block(0, k + 1)
                R.fail(f"{site}-truncation-overread", "a truncated output yields more than its k complete samples: read_block(0, k+1) returns",
                       dict(cc, shape=list(np.asarray(over.data).shape)))
            except Exception:  # noqa: BLE001  -- must raise
                pass
            if (8 * (L - hdrlen)) % (nbits * nch) == 0:
                # cut at a whole sample: the streaming reader delivers the same k samples, block by block
                try:
                    parts = [np.array(dd).reshape(ns, nch) for ns, _ii, dd in g.read_plan(gulp=3, quiet=True)]
                    allp = np.concatenate(parts) if parts else np.zeros((0, nch))
                    if allp.shape != (k, nch) or not np.array_equal(allp, full[:, :k].T):
                        R.fail(f"{site}-truncation-data", "read_plan over a truncated output does not deliver the first k samples of the full result",
                               dict(cc, delivered=int(allp.shape[0]), blocks=[int(q.shape[0]) for q in parts][:8]))
                except Exception as e:  # noqa: BLE001
                    R.fail(f"{site}-truncation-unreadable", "read_plan fails on a truncated output", dict(cc, exc=f"{type(e).__name__}: {str(e)[:120]}"))
            # the reader the library offers for this kind of file
            if kind == "tim":
                try:
                    ts = TimeSeries.from_tim(t)
                    if ts.data.shape != (k,) or int(ts.header.nsamples) != k or not np.array_equal(np.asarray(ts.data), full[0, :k]):
                        R.fail(f"{site}-truncation-from_tim", "TimeSeries.from_tim on a truncated .tim output is not the first k samples of the full result",
                               dict(cc, size=int(ts.data.size), nsamples=int(ts.header.nsamples)))
                except Exception as e:  # noqa: BLE001
                    R.fail(f"{site}-truncation-from_tim", "TimeSeries.from_tim fails on a truncated .tim output with k >= 1 samples",
                           dict(cc, exc=f"{type(e).__name__}: {str(e)[:120]}"))
            elif kind == "spec" and (L - hdrlen) % 8 == 0:
                # (from_spec views the floats as complex64 and refuses an odd number of them: only cuts at a whole complex bin)
                try:
                    fs = FourierSeries.from_spec(t)
                    ref = np.ascontiguousarray(full[0, :k]).astype(np.float32).view(np.complex64)
                    if fs.data.shape != ref.shape or not np.array_equal(np.asarray(fs.data), ref):
                        R.fail(f"{site}-truncation-from_spec", "FourierSeries.from_spec on a truncated .spec output is not the first bins of the full result",
                               dict(cc, size=int(fs.data.size), want=int(ref.size)))
                except Exception as e:  # noqa: BLE001
                    R.fail(f"{site}-truncation-from_spec", "FourierSeries.from_spec fails on a .spec output cut at a whole complex bin",
                           dict(cc, exc=f"{type(e).__name__}: {str(e)[:120]}"))
        return hdrlen, nbits, nch, ks, reads

    def judge(site, case, ev, outs, exc, full_sweep, want=None):
        """oracle on one call.  outs: output paths; ev: event log; exc: exception text or None; want: the number of samples every
        output must hold when the call returns normally (counted from the request, independently of the writer), or None"""
        for oi, o in enumerate(outs):
            c = dict(case, out=os.path.basename(o))
            idx = [i for i, e in enumerate(ev) if e[0] in "WC" and e[1] == o]
            if not idx:
                if exc is None:
                    R.fail(f"{site}-no-output", "the call returned but nothing was written to the output path", c)
                else:
                    R.case(("died-before-write", site, case["nbits"], case.get("gulp"), case.get("p"), oi), nontrivial=False, regime="died-before-any-write:" + site)
                continue
            evs = [ev[i] for i in idx]
            kinds = "".join(e[0] for e in evs)
            key = (site, case["nbits"], case.get("gulp"), case.get("p"), oi)   # p carries the batch size
            R.case(key, nontrivial=len(evs) > 2 or full_sweep, regime=("died:" if exc else "") + site,
                   sample=dict(c, events=kinds, sizes=[len(e[3]) for e in evs]) if case.get("gulp") == 3 and case["nbits"] == 8 and oi == 0 else None)
            if exc is None:
                alive[(site, case["nbits"])] = max(alive.get((site, case["nbits"]), 0), kinds.count("C"))
            with open(o, "rb") as f:
                final = f.read()
            # over the WHOLE call (also across a close and a later re-open of the same path): every observed state of the
            # path extends the previous one -- the size only grows, nothing already on disk is truncated or rewritten
            for j in range(1, len(evs)):
                if not evs[j][3].startswith(evs[j - 1][3]):
                    R.fail(f"{site}-not-append-only", "a later state of an output path does not extend an earlier one (shrunk, truncated or rewritten during the call)",
                           dict(c, event=j, events=kinds, sizes=[len(e[3]) for e in evs], shrank=len(evs[j][3]) < len(evs[j - 1][3])))
                    break
            # header first, exactly, once
            h = evs[0][2]
            if evs[0][0] != "W" or evs[0][3] != h:
                R.fail(f"{site}-header-not-first", "after the first write the path does not hold exactly the encoded header",
                       dict(c, first_event=evs[0][0], disk_len=len(evs[0][3]), header_len=len(h), stale_left=evs[0][3][len(h):len(h) + 4].hex()))
                continue
            try:
                t = os.path.join(d, "hdr_only.fil")
                with open(t, "wb") as f:
                    f.write(h)
                ph = sigproc.parse_header(t)
                if ph["hdrlen"] != len(h) or ph["nsamples"] != 0:
                    raise ValueError(f"hdrlen {ph['hdrlen']} != {len(h)}")
            except Exception as e:  # noqa: BLE001
                R.fail(f"{site}-header-not-first", "what the first write left on disk is not a complete SIGPROC header",
                       dict(c, exc=f"{type(e).__name__}: {str(e)[:100]}"))
                continue
            if kinds.count("W") != 1:
                R.fail(f"{site}-second-header-write", "more than one raw write on the output", dict(c, events=kinds))
                continue
            # append only: after call j the disk is header ++ blocks[:j]
            blocks = [e[2] for e in evs[1:]]
            bad = None
            acc = h
            for j, e in enumerate(evs[1:]):
                acc = acc + e[2]
                if e[3] != acc:
                    bad = j
                    break
            if bad is not None:
                e = evs[1 + bad]
                R.fail(f"{site}-not-append-only", "after a cwrite the path does not hold header ++ the blocks written so far",
                       dict(c, block=bad, disk_len=len(e[3]), expected_len=len(acc), is_prefix=acc.startswith(e[3]), events=kinds))
                continue
            # one block per gulp, in loop order
            lo, hi = idx[0], idx[-1]
            end = hi + 1
            if exc is None:
                # the call returned: the window runs to the end of the call, or to the header write that starts the next batch --
                # a block of the plan that goes by AFTER the last write to this output is a block that never reached it
                end = next((i for i in range(hi + 1, len(ev)) if ev[i][0] == "W"), len(ev))
            pat = "".join("Y" if e[0] == "Y" else ("C" if e[0] in "WC" and e[1] == o else "") for e in ev[lo + 1:end])
            okpat = (pat in ("C", "")) if site in ONESHOT else re.fullmatch(r"(YC)*", pat) is not None
            if not okpat:
                R.fail(f"{site}-not-one-block-per-gulp", "blocks do not reach the output one per block of the read plan, in order",
                       dict(c, pattern=pat[:60]))
            # every observed state is a byte prefix of the file the call leaves behind; the header region in particular
            if final[:len(h)] != h:
                diff = next((i for i in range(min(len(h), len(final))) if final[i] != h[i]), min(len(h), len(final)))
                R.fail(f"{site}-header-patched", "the header region of the file left behind differs from the header that was first written "
                       "(patched after the data): the intermediate states were not prefixes of the final file",
                       dict(c, header_len=len(h), final_len=len(final), first_differing_byte=diff,
                            written=h[diff:diff + 8].hex(), final=final[diff:diff + 8].hex(), events=kinds))
                continue
            notpre = next((j for j, e in enumerate(evs) if not final.startswith(e[3])), None)
            if notpre is not None:
                st = evs[notpre][3]
                diff = next((i for i in range(min(len(st), len(final))) if final[i] != st[i]), min(len(st), len(final)))
                R.fail(f"{site}-state-not-prefix-of-final", "a state of the output observed during the call is not a byte prefix of the file left behind",
                       dict(c, event=notpre, events=kinds, state_len=len(st), final_len=len(final), first_differing_byte=diff))
                continue
            # complete on return (or: what survives the exception is the last observation)
            if final != evs[-1][3]:
                R.fail(f"{site}-changed-after-last-write" if exc is None else f"{site}-changed-after-death",
                       "the file on disk differs from what was there after the last write",
                       dict(c, final_len=len(final), last_len=len(evs[-1][3]), same_prefix=final[:len(h)] == h))
                continue
            # complete on return: the file holds the number of samples that was asked for, whole
            if exc is None and want is not None and (ph["nbits"] * ph["nchans"]) % 8 == 0:
                dbits = 8 * (len(final) - len(h))
                spb = ph["nbits"] * ph["nchans"]
                if dbits != want * spb:
                    R.fail(f"{site}-incomplete-on-return", "the call returned normally but the file does not hold exactly the samples that were asked for",
                           dict(c, samples_on_disk=dbits // spb, leftover_bits=dbits % spb, samples_expected=want, events=kinds))
            # reader: truncations
            if full_sweep:
                Ls = None
            else:
                Ls = set()
                for e in evs:
                    Ls |= {len(e[3]) - 1, len(e[3]), len(e[3]) + 1}
                Ls |= {0, len(h) - 1, len(final)}
            sw = sweep(site, final, c, Ls, kind="tim" if o.endswith(".tim") else "spec" if o.endswith(".spec") else "fil")
            if sw is None:
                continue
            hdrlen, nbits, nch, ks, reads = sw
            if hdrlen != len(h):
                R.fail(f"{site}-header-not-first", "header length seen by the reader differs from what prep_outfile wrote", dict(c, hdrlen=hdrlen, wrote=len(h)))
            if full_sweep and len(wcases) < 160:
                # the two states BEFORE the header write, as observed around FileWriter.__init__ (the last open of this path before its header):
                # at the path before the open / after the open.  (compared over the same leading part as `old`; [256] = no open seen)
                ops = [e for e in ev[:idx[0]] if e[0] == "O" and e[1] == o]
                cap = len(final) + 5
                if ops:
                    obs0 = list((ops[-1][2] or b"")[:cap])
                    obs1 = list(ops[-1][3][:cap])
                    if ops[-1][2] != JUNK:
                        R.disagree("the output path did not hold what the harness put there when the writer opened it (removed or rewritten before the open; the model leaves it untouched until then)",
                                   dict(c, held=None if ops[-1][2] is None else len(ops[-1][2]), put=len(JUNK)))
                else:
                    obs0 = obs1 = [256]
                    R.disagree("no FileWriter was constructed on the output path before its header write (the model opens it through FileWriter.__init__)", c)
                wcases.append((site, list(JUNK[:cap]), list(h), [list(b) for b in blocks], [list(e[3]) for e in evs], list(final), exc is None, obs0, obs1))
                pick = reads if len(reads) <= 6 else [reads[i] for i in sorted(set([0, 1, len(reads) // 2, len(reads) - 2, len(reads) - 1]))]
                rcases.append((list(h), list(final[hdrlen:]), nbits, nch, ks, [(L, k, list(b)) for L, k, b in pick]))

    try:
        # variants of the input (depth 8): a band in ascending order (foff > 0), and the same samples spread over two files
        for nbits, variant in [(nb, "") for nb in (8, 1, 2, 4, 16, 32)] + [(8, "ascending"), (8, "two-file")]:
            nch = NCH[nbits]
            x = nprng.integers(0, 1 << min(nbits, 8), (N, nch))
            if variant == "ascending":
                inp = filutil.write_fil(os.path.join(d, "in8asc.fil"), x, nbits, fch1=320.0, foff=80.0 / nch, tsamp=0.001)
            elif variant == "two-file":
                inp = filutil.write_fil_set(os.path.join(d, "in8two"), x, nbits, [N // 2 + 1], tsamp=0.001, fch1=400.0, foff=-80.0 / nch)
            else:
                inp = filutil.write_fil(os.path.join(d, f"in{nbits}.fil"), x, nbits, fch1=400.0, foff=-80.0 / nch, tsamp=0.001)
            base = os.path.join(d, "o")
            o1 = os.path.join(d, "o.fil")
            half = nch // 2
            mask = (np.arange(nch) % 2).astype(bool)
            gulps = sorted(set([1, 3, N - 1, N, N + 3]))
            SUB = (2, N - 3)            # sub-range: samples 2 .. N-2
            if R.tier != "quick":
                gulps = sorted(set(gulps + [2, 4, 5, rng.randrange(1, N + 5)]))
            elif variant:
                gulps = [1, 3, N + 3]
            # a band of `sel` channels (a whole number of bytes per sample) that does not start at channel 0
            sel = max(2, 8 // nbits)
            cs = 1 if nbits >= 8 else nch - sel

            def calls(fil, gulp):
                """(writer, parameters, output paths, call, samples every output must hold on return)"""
                kw = dict(gulp=gulp, quiet=True)
                # the count of samples asked for, from the request alone: range; decimation (the gulp is rounded up to a multiple of
                # tfactor and every block yields floor(block / tfactor)); sub-banding loses the largest dispersion delay
                def ds(n, tf):
                    g2 = -(-gulp // tf) * tf
                    return (n // g2) * (g2 // tf) + (n % g2) // tf
                dl = fil.header.get_dmdelays(0.25)
                md = int(dl.max()) - min(0, int(dl.min()))
                out = [
                    ("invert_freq", "", [o1], lambda: fil.invert_freq(o1, **kw), N),
                    ("apply_channel_mask", "", [o1], lambda: fil.apply_channel_mask(mask, 0, o1, **kw), N),
                    ("downsample", "t2", [o1], lambda: fil.downsample(2, 1, o1, **kw), ds(N, 2)),
                    ("extract_samps", "1:N-2", [o1], lambda: fil.extract_samps(1, N - 2, o1, **kw), N - 2),
                    ("requantize", "8", [o1], lambda: fil.requantize(8, o1, **kw), N),
                    ("remove_zerodm", "", [o1], lambda: fil.remove_zerodm(o1, **kw), N),
                    ("subband", "dm0.25", [o1], lambda: fil.subband(0.25, 2, o1, **kw), N - md),
                    ("extract_chans", "0,last;batch1", [f"{base}_chan{0:04d}.tim", f"{base}_chan{nch - 1:04d}.tim"],
                     lambda: fil.extract_chans([0, nch - 1], base, batch_size=1, **kw), N),
                    ("extract_bands", "2 bands", [f"{base}_sub00.fil", f"{base}_sub01.fil"] if half * nbits % 8 == 0 and half > 1 else [f"{base}_sub00.fil"],
                     (lambda: fil.extract_bands(0, nch, half, base, **kw)) if half * nbits % 8 == 0 and half > 1 else (lambda: fil.extract_bands(0, nch, nch, base, **kw)), N),
                ]
                # the same writers on a SUB-RANGE strictly inside the file (start > 0, end < N)
                s0, m = SUB
                kr = dict(kw, start=s0, nsamps=m)
                out += [] if R.tier == "quick" and gulp not in (1, 3, N + 3) else [
                    ("invert_freq", f"sub{s0}+{m}", [o1], lambda: fil.invert_freq(o1, **kr), m),
                    ("apply_channel_mask", f"sub{s0}+{m}", [o1], lambda: fil.apply_channel_mask(mask, 0, o1, **kr), m),
                    ("downsample", f"t2;sub{s0}+{m}", [o1], lambda: fil.downsample(2, 1, o1, **kr), ds(m, 2)),
                    ("requantize", f"8;sub{s0}+{m}", [o1], lambda: fil.requantize(8, o1, **kr), m),
                    ("remove_zerodm", f"sub{s0}+{m}", [o1], lambda: fil.remove_zerodm(o1, **kr), m),
                    ("subband", f"dm0.25;sub{s0}+{m}", [o1], lambda: fil.subband(0.25, 2, o1, **kr), m - md),
                    ("extract_chans", f"0,last;batch1;sub{s0}+{m}", [f"{base}_chan{0:04d}.tim", f"{base}_chan{nch - 1:04d}.tim"],
                     lambda: fil.extract_chans([0, nch - 1], base, batch_size=1, **kr), m),
                    ("extract_bands", f"1 band;sub{s0}+{m}", [f"{base}_sub00.fil"], lambda: fil.extract_bands(0, nch, nch, base, **kr), m),
                ]
                if gulp == 3:
                    otim, ospec = os.path.join(d, "o.tim"), os.path.join(d, "o.spec")
                    out += [
                        ("downsample", "f2", [o1], lambda: fil.downsample(1, 2, o1, **kw), N),
                        ("requantize", "2", [o1], lambda: fil.requantize(2, o1, **kw), N),
                        ("requantize", "32", [o1], lambda: fil.requantize(32, o1, **kw), N),
                        ("extract_samps", "sub", [o1], lambda: fil.extract_samps(2, 3, o1, **kw), 3),
                        ("to_file", "", [o1], lambda: fil.read_block(0, N).to_file(o1), N),
                        ("to_tim", "", [otim], lambda: fil.read_chan(0, quiet=True).to_tim(otim), N),
                        # a block that starts inside the file; the channel list left to its default (every channel, default batch size)
                        ("to_file", f"blk{s0}+{m}", [o1], lambda: fil.read_block(s0, m).to_file(o1), m),
                        ("extract_chans", "all;default-batch", [f"{base}_chan{c_:04d}.tim" for c_ in range(nch)],
                         lambda: fil.extract_chans(outfile_base=base, **kw), N),
                    ]
                    if cs >= 1 and cs + sel <= nch:
                        out.append(("extract_bands", f"chanstart{cs};{sel} of {nch}", [f"{base}_sub00.fil"], lambda: fil.extract_bands(cs, sel, sel, base, **kw), N))
                    # FourierSeries.to_spec: the same prep_outfile + cwrite shape as to_tim (site_to_spec in Gen/C20Sites.v; in the correspondence like the others)
                    try:
                        fser = fil.read_chan(0, quiet=True).rfft()
                        out.append(("to_spec", "", [ospec], lambda: fser.to_spec(ospec), 2 * int(fser.data.size)))
                    except Exception:  # noqa: BLE001  -- no spectrum to write: the coverage floor below reports the missing writer
                        pass
                return out

            for gulp in gulps:
                fil = FilReader(inp)
                for site, p, outs, fn, want in calls(fil, gulp):
                    extra = p.startswith(("blk", "all;", "chanstart"))
                    if variant:
                        p = f"{variant};{p}"
                    case = {"site": site, "nbits": nbits, "nchans": nch, "N": N, "gulp": gulp, "p": p}
                    stale(outs)
                    exc = None
                    with Tap(os.path.join(d, "payload.bin")) as tap:
                        try:
                            fn()
                        except Exception as e:  # noqa: BLE001  -- the call died: what is on disk must still be a valid prefix
                            exc = f"{type(e).__name__}: {str(e)[:100]}"
                        ev = list(tap.ev)
                    fs_key = (site, nbits, p)
                    full_sweep = (gulp == 3 and fs_key not in swept) or R.tier != "quick" and gulp in (1, N)
                    if "sub" in p and site != "extract_samps" and nbits != 8:
                        full_sweep = False      # the reader sweep does not depend on the range: one depth is enough for the sub-range variants
                    if variant or p.startswith("all;") or extra and nbits != 8:
                        full_sweep = False      # nor on the band order / the number of input files / the channel selection: cuts at the block boundaries +-1
                    if gulp == 3:
                        swept.add(fs_key)
                    judge(site, case, ev, outs, exc, full_sweep, want)
                    for o in outs:
                        try:
                            os.remove(o)
                        except OSError:
                            pass
                del fil

        # ---- batching of the multi-output writers: several batches, every output path watched over the whole call ------
        for nbits, nchb in ((8, 16), (32, 8)):
            x = nprng.integers(0, 1 << min(nbits, 8), (N, nchb))
            inp = filutil.write_fil(os.path.join(d, f"inb{nbits}.fil"), x, nbits, fch1=400.0, foff=-80.0 / nchb, tsamp=0.001)
            base = os.path.join(d, "b")
            nsub = nchb // 2
            chans = list(range(0, nchb, 2))[:7] + [nchb - 1]
            for bsz in (1, 2, 3, 5):
                for gulp in ((3, N + 3) if R.tier == "quick" else (1, 3, N, N + 3)):
                    fil = FilReader(inp)
                    jobs = [("extract_bands", f"{nsub} bands;batch{bsz}", [f"{base}_sub{i:02d}.fil" for i in range(nsub)],
                             lambda: fil.extract_bands(0, nchb, 2, base, batch_size=bsz, gulp=gulp, quiet=True)),
                            ("extract_chans", f"{len(chans)} chans;batch{bsz}", [f"{base}_chan{c_:04d}.tim" for c_ in chans],
                             lambda: fil.extract_chans(chans, base, batch_size=bsz, gulp=gulp, quiet=True))]
                    for site, p, outs, fn in jobs:
                        case = {"site": site, "nbits": nbits, "nchans": nchb, "N": N, "gulp": gulp, "p": p, "batch_size": bsz}
                        stale(outs)
                        exc = None
                        with Tap(os.path.join(d, "payload.bin")) as tap:
                            try:
                                ret = fn()
                            except Exception as e:  # noqa: BLE001
                                exc, ret = f"{type(e).__name__}: {str(e)[:100]}", None
                            ev = list(tap.ev)
                        if exc is None and sorted(ret) != sorted(outs):
                            R.fail(f"{site}-no-output", "the list of files returned differs from the outputs requested", dict(case, returned=[os.path.basename(r) for r in ret]))
                        touched = sorted(set(e[1] for e in ev if e[0] in "WC") - set(outs))
                        if touched:
                            R.fail(f"{site}-no-output", "a path that is not one of the outputs was written", dict(case, paths=[os.path.basename(t) for t in touched]))
                        judge(site, case, ev, outs, exc, full_sweep=(bsz == 2 and gulp == 3 and nbits == 8), want=N)
                        for o in outs:
                            try:
                                os.remove(o)
                            except OSError:
                                pass
                    del fil

        # ---- coverage floor: the broad `except` around every call must not be able to hide a writer ------------------------------
        # every writer has to have RETURNED NORMALLY at least once at every depth, with several blocks (one for the one-shot writers)
        for site in SITES + ["to_spec"]:
            for nb in (8, 1, 2, 4, 16, 32):
                need = 1 if site in ONESHOT else 2
                if (site, nb) not in NO_FLOOR and alive.get((site, nb), 0) < need:
                    R.red.append(f"coverage: {site} at {nb} bits: no call returned normally with at least {need} block(s) written "
                                 f"(most: {alive.get((site, nb), 0)}) -- every call died, so nothing between its writes was observed")
        R.extra_cov["blocks_written_by_a_returning_call"] = {f"{s_}@{nb}": v for (s_, nb), v in sorted(alive.items())}

        # ---- correspondence: the executable model on the same inputs ------------------------------------------------
        head = ["From Coq Require Import ZArith List Bool.", "Require Import SPP.Base.Rt SPP.Gen.C20Sites SPP.Model.Stream SPP.Model.C20_Trace.",
                "Import ListNotations.", "Open Scope Z_scope.",
                "Definition lle (a b : list (list Z)) : bool := (Nat.eqb (length a) (length b)) && forallb (fun p => list_eqb (fst p) (snd p)) (combine a b)."]
        per = 12
        for si in range(0, len(wcases), per):
            sh = wcases[si:si + per]
            lines = list(head)
            lines.append("Definition cases : list (site * list Z * list Z * list (list Z) * list (list Z) * list Z * bool * list Z * list Z) := [")
            lines.append(";\n".join(f"(site_{s}, {vlib.zlist(old)}, {vlib.zlist(h)}, {vlib.zlistlist(bs) if bs else '[]'}, {vlib.zlistlist(snaps)}, {vlib.zlist(fin)}, {'true' if ret else 'false'}, {vlib.zlist(o0)}, {vlib.zlist(o1_)})"
                                    for s, old, h, bs, snaps, fin, ret, o0, o1_ in sh))
            lines.append("].")
            lines.append("""Definition ok (c : site * list Z * list Z * list (list Z) * list (list Z) * list Z * bool * list Z * list Z) : bool :=
  let '(s, old, h, bs, snaps, fin, ret, obs0, obs1) := c in
  lle (map (fun j => disk (at_crash s old h bs (2 + j))) (seq 0 (S (length bs)))) snaps
  && forallb (fun j => match pend (at_crash s old h bs (2 + j)) with [] => true | _ => false end) (seq 0 (S (length bs)))
  && list_eqb (disk (at_crash s old h bs 0)) old && list_eqb (disk (at_crash s old h bs 1)) []
  && list_eqb (disk (at_crash s old h bs 0)) obs0 && list_eqb (disk (at_crash s old h bs 1)) obs1
  && (negb ret || list_eqb (disk (on_return s old h bs)) fin).
Definition idx := map fst (filter (fun p => negb (ok (snd p))) (combine (seq 0 (length cases)) cases)).
Eval vm_compute in (length cases, idx).""")
            rc, out = vlib.coq_run(f"c20_w{si // per}", "\n".join(lines), timeout=300)
            vals = vlib.parse_eval(out)
            if rc != 0 or not vals:
                R.red.append("correspondence: Corr/c20_w did not evaluate: " + out[-400:])
                continue
            nums = [int(v) for v in re.findall(r"(\d+)%nat", vals[0])]
            R.extra_cov["traces_validated_against_impl"] = R.extra_cov.get("traces_validated_against_impl", 0) + (nums[0] if nums else 0)
            for bi in nums[1:][:4]:
                s, old, h, bs, snaps, fin, ret, o0, o1_ = sh[bi]
                R.disagree("writer model and implementation differ on what is on disk at the crash points",
                           {"site": s, "header_len": len(h), "block_lens": [len(b) for b in bs], "snap_lens": [len(x) for x in snaps], "final_len": len(fin),
                            "before_open_len": len(o0), "after_open_len": len(o1_)})
        nread = 0
        for si in range(0, len(rcases), per):
            sh = rcases[si:si + per]
            lines = list(head)
            lines.append("Definition cases : list (list Z * list Z * Z * Z * list (Z * Z) * list (Z * Z * list Z)) := [")
            lines.append(";\n".join(
                f"({vlib.zlist(h)}, {vlib.zlist(dd)}, {nb}, {nc}, [" + "; ".join(f"({L}, {k})" for L, k in ks) + "], [" +
                "; ".join(f"({L}, {k}, {vlib.zlist(b)})" for L, k, b in rd) + "])" for h, dd, nb, nc, ks, rd in sh))
            lines.append("].")
            lines.append("""Definition ok (c : list Z * list Z * Z * Z * list (Z * Z) * list (Z * Z * list Z)) : bool :=
  let '(h, d, nb, nc, ks, rd) := c in
  forallb (fun p => open_nsamples (cut h d (fst p)) nb nc =? snd p) ks
  && forallb (fun t => let '(L, k, b) := t in
       match read_block_file (cut h d L) nb nc (open_nsamples (cut h d L) nb nc) 0 k with OBytes r => list_eqb r b | _ => false end
       && match read_block_file (cut h d L) nb nc (open_nsamples (cut h d L) nb nc) 0 (k + 1) with OErr _ => true | _ => false end) rd.
Definition idx := map fst (filter (fun p => negb (ok (snd p))) (combine (seq 0 (length cases)) cases)).
Eval vm_compute in (length cases, idx).""")
            rc, out = vlib.coq_run(f"c20_r{si // per}", "\n".join(lines), timeout=300)
            vals = vlib.parse_eval(out)
            if rc != 0 or not vals:
                R.red.append("correspondence: Corr/c20_r did not evaluate: " + out[-400:])
                continue
            nums = [int(v) for v in re.findall(r"(\d+)%nat", vals[0])]
            nread += nums[0] if nums else 0
            for bi in nums[1:][:4]:
                h, dd, nb, nc, ks, rd = sh[bi]
                R.disagree("reader model and FilReader differ on a truncated file",
                           {"header_len": len(h), "data_len": len(dd), "nbits": nb, "nchans": nc, "nsamples_by_length": ks[:12]})
        R.extra_cov["correspondence_cases"] = len(wcases) + len(rcases)
        R.extra_cov["reader_files_validated_against_impl"] = nread
        # the read past the inferred end must raise in the implementation too (range check of read_block)
    finally:
        shutil.rmtree(d, ignore_errors=True)
    return R


# =====================================================================================================================
# at-scale search (called by check.py after run(R) when something no longer checks and no small failing input was found, always
# in the thorough tier, and with VERIF_SCALE=1).  Silent on the unchanged tree; failure keys start with `scale-`.
# =====================================================================================================================
def np_pack(v, nbits):
    """independent numpy encoder of sub-byte samples (SIGPROC conventions of sigpyproc: 1 bit = little-endian bit order, 2 and 4
    bits = first sample in the high bits); v: values < 2**nbits, length a multiple of 8 // nbits"""
    v = np.ascontiguousarray(v).astype(np.uint8, copy=False).ravel()
    if nbits == 1:
        return np.packbits(v, bitorder="little")
    per = 8 // nbits
    m = v.reshape(-1, per)
    out = np.zeros(m.shape[0], np.uint8)
    for j in range(per):
        out |= m[:, j] << np.uint8((per - 1 - j) * nbits)
    return out


def np_enc(vals, nbits):
    """the bytes (1-D uint8 array) `vals` occupy in a SIGPROC data section of depth nbits (independent of FileWriter)"""
    if nbits < 8:
        return np_pack(vals, nbits)
    dt = {8: "u1", 16: "<u2", 32: "<f4"}[nbits]
    return np.ascontiguousarray(np.ascontiguousarray(vals).astype(dt, copy=False).ravel()).view(np.uint8)


def np_dec(raw, nbits):
    """inverse of np_enc on a 1-D uint8 array"""
    raw = np.ascontiguousarray(raw)
    if nbits == 1:
        return np.unpackbits(raw, bitorder="little")
    if nbits < 8:
        per = 8 // nbits
        return np.stack([(raw >> np.uint8((per - 1 - j) * nbits)) & np.uint8((1 << nbits) - 1) for j in range(per)], axis=1).ravel()
    return raw.view({8: "u1", 16: "<u2", 32: "<f4"}[nbits])


def disk_state(path):
    """(length, crc32) of what is on disk at `path`, read back in full"""
    n, c = 0, 0
    with open(path, "rb") as f:
        while True:
            b = f.read(1 << 24)
            if not b:
                break
            n += len(b)
            c = zlib.crc32(b, c)
    return n, c


class ScaleTap:
    """at-scale observer: wraps FileWriter.write / FileWriter.cwrite / FilReader.read_plan.  After every write the output path
    is read back: ('W', path, payload, first bytes on disk, size on disk), ('C', path, elements, size on disk, crc32 of the whole
    file or None when thinned), ('Y', samples in the block of the read plan).  thin = n > 1: the whole-file read-back happens
    at the first 3 blocks and every n-th (the size is measured at every block)"""

    def __init__(self, thin=1):
        from sigpyproc.io import fileio
        from sigpyproc.readers import FilReader
        self.fileio, self.FilReader = fileio, FilReader
        self.ev, self.count, self.thin = [], {}, thin
        self.ow, self.oc, self.orp = fileio.FileWriter.write, fileio.FileWriter.cwrite, FilReader.read_plan
        tap = self

        def w(self_, bo):
            r = tap.ow(self_, bo)
            p = self_.files[0]
            with open(p, "rb") as f:
                disk = f.read(len(bo) + 4096)
            tap.ev.append(("W", p, bytes(bo), disk, os.path.getsize(p)))
            return r

        def c(self_, arr):
            n = int(np.asarray(arr).size)
            r = tap.oc(self_, arr)
            p = self_.files[0]
            k = tap.count[p] = tap.count.get(p, 0) + 1
            if tap.thin <= 1 or k <= 3 or k % tap.thin == 0:
                size, crc = disk_state(p)
            else:
                size, crc = os.path.getsize(p), None
            tap.ev.append(("C", p, n, size, crc))
            return r

        def rp(self_, *a, **k):
            for item in tap.orp(self_, *a, **k):
                tap.ev.append(("Y", int(item[0])))
                yield item

        self.w, self.c, self.rp = w, c, rp

    def __enter__(self):
        self.fileio.FileWriter.write = self.w
        self.fileio.FileWriter.cwrite = self.c
        self.FilReader.read_plan = self.rp
        return self

    def __exit__(self, *a):
        self.fileio.FileWriter.write = self.ow
        self.fileio.FileWriter.cwrite = self.oc
        self.FilReader.read_plan = self.orp


def scale_reader(R, K, c, o, fin, hdrlen, nbits, nch, marks, rng):
    """reader half of the property at scale: cut the finished output `o` (content `fin`, uint8) at byte lengths around `marks`
    (block boundaries), around 2**16 / 2**24 samples and bytes, in the middle of a block and one byte short; each must open with
    FilReader, report floor(8(L-|hdr|)/(nbits*nchans)) samples and read back (first / middle / last window) as the independent
    numpy decoding of the same bytes.  Truncates `o` in place, longest first."""
    from sigpyproc.readers import FilReader
    if (nbits * nch) % 8 != 0:
        return
    stride = nbits * nch // 8
    data = fin[hdrlen:]
    Ls = {int(fin.size), int(fin.size) - 1, hdrlen, hdrlen + (int(data.size) // 2 // stride) * stride + stride // 2 + 1}
    for m in list(marks[:2]) + list(marks[-2:]):
        Ls |= {m - 1, m, m + 1}
    for s in (1 << 16, 1 << 22, 1 << 24):
        Ls |= {hdrlen + s * stride - 1, hdrlen + s * stride, hdrlen + s * stride + 1, hdrlen + s - 1, hdrlen + s + 1}
    Ls = sorted((L for L in Ls if hdrlen <= L <= fin.size), reverse=True)
    if len(Ls) > 10:
        keep = set(Ls[:4] + Ls[-3:] + rng.sample(Ls[4:-3], 3))
        Ls = [L for L in Ls if L in keep]
    for L in Ls:
        cc = dict(c, L=L, hdrlen=hdrlen, final_len=int(fin.size))
        R.tick(cc)
        if L < fin.size:
            os.truncate(o, L)
        try:
            g = FilReader(o)
            k = int(g.header.nsamples)
        except Exception as e:  # noqa: BLE001
            R.fail(K + "truncation", "at scale: a truncation at or after the header does not open with FilReader",
                   dict(cc, exc=f"{type(e).__name__}: {str(e)[:120]}"))
            continue
        want = 8 * (L - hdrlen) // (nbits * nch)
        if k != want or g.header.nbits != nbits or g.header.nchans != nch:
            R.fail(K + "truncation", "at scale: a truncated output reports a sample count other than floor(8(L-|hdr|)/(nbits*nchans)) or another header",
                   dict(cc, got=k, want=want, nbits=int(g.header.nbits), nchans=int(g.header.nchans)))
            continue
        if k == 0:
            continue
        wins = {(0, min(k, 64)), (max(0, k - 2048), k), (k // 2, min(k, k // 2 + 512))}
        for a, b in sorted(wins):
            if b <= a:
                continue
            try:
                got = np.asarray(g.read_block(a, b - a).data)
            except Exception as e:  # noqa: BLE001
                R.fail(K + "truncation", "at scale: read_block inside the reported sample count fails on a truncated output",
                       dict(cc, k=k, window=[a, b], exc=f"{type(e).__name__}: {str(e)[:120]}"))
                break
            ref = np_dec(data[a * stride:b * stride], nbits).reshape(b - a, nch).T
            if got.shape != ref.shape or not np.array_equal(got.astype(np.float64), ref.astype(np.float64)):
                R.fail(K + "truncation", "at scale: a truncated output does not read as the first k samples of the full result",
                       dict(cc, k=k, window=[a, b]))
                break
        del g


def scale_judge(R, d, case, site, o, ev, meta, exc, rng, reader=True):
    """writer half of the property at scale for one output path.  meta: per_block (samples in the block of the plan -> bytes this
    output gains) or sizes (explicit list of block sizes in bytes), want_n (samples of the finished output, independent arithmetic,
    or None), nbits / nchans of the output, expected (callable -> uint8 array: the finished data section by the independent numpy
    reference, or None)"""
    from sigpyproc.io import sigproc
    c = dict(case, out=os.path.basename(o))
    K = f"scale-{site}-"
    nbits, nch = meta["nbits"], meta["nchans"]
    idx = [i for i, e in enumerate(ev) if e[0] in "WC" and e[1] == o]
    if not idx:
        if exc is None:
            R.fail(K + "no-output", "at scale: the call returned but nothing was written to the output path", c)
        return
    evs = [ev[i] for i in idx]
    nW, nC = sum(1 for e in evs if e[0] == "W"), sum(1 for e in evs if e[0] == "C")
    c["events"] = f"{nW} write, {nC} cwrite"
    if exc is not None:
        c["died"] = exc
    # ---- the first thing on disk is exactly the encoded header, written once
    e0 = evs[0]
    if e0[0] != "W" or e0[3] != e0[2] or e0[4] != len(e0[2]):
        R.fail(K + "header", "at scale: after the first write the path does not hold exactly the encoded header",
               dict(c, first_event=e0[0], size_on_disk=e0[4] if e0[0] == "W" else e0[3], header_len=len(e0[2]) if e0[0] == "W" else None))
        return
    h = e0[2]
    try:
        t = os.path.join(d, "hdr_only.fil")
        with open(t, "wb") as f:
            f.write(h)
        ph = sigproc.parse_header(t)
        if ph["hdrlen"] != len(h) or ph["nbits"] != nbits or ph["nchans"] != nch:
            raise ValueError(f"hdrlen {ph['hdrlen']} (wrote {len(h)}), nbits {ph['nbits']} (output is {nbits}), nchans {ph['nchans']} (output has {nch})")
    except Exception as e:  # noqa: BLE001
        R.fail(K + "header", "at scale: what the first write left on disk is not the complete SIGPROC header of this output",
               dict(c, exc=f"{type(e).__name__}: {str(e)[:160]}"))
        return
    if nW != 1:
        R.fail(K + "header", "at scale: more than one raw write on the output (header written or patched again)", c)
        return
    # ---- one block per block of the read plan, in order; after block j the file is header + the blocks so far (sizes)
    if meta.get("sizes") is not None:
        bs = list(meta["sizes"])
        if exc is None and nC != len(bs):
            R.fail(K + "blocks", "at scale: number of blocks written differs from the number handed to the writer", dict(c, expected_blocks=len(bs)))
            return
        bs = bs[:nC]
    else:
        bs, pending, bad = [], None, None
        for e in ev[idx[0] + 1:idx[-1] + 1]:
            if e[0] == "Y":
                if pending is not None:
                    bad = f"a block of {pending} samples of the read plan went by without a write to this output (after {len(bs)} blocks)"
                    break
                pending = e[1]
            elif e[0] == "C" and e[1] == o:
                if pending is None:
                    bad = f"two writes to this output within one block of the read plan (after {len(bs)} blocks)"
                    break
                bs.append(meta["per_block"](pending))
                pending = None
        if bad:
            R.fail(K + "blocks", "at scale: blocks do not reach the output one per block of the read plan, in order: " + bad, c)
            return
    acc, marks = len(h), []
    for j, e in enumerate(evs[1:]):
        acc += bs[j]
        marks.append(acc)
        if e[3] != acc:
            R.fail(K + "append", "at scale: after a cwrite the path does not hold header + the blocks written so far "
                   f"(block {j} of {e[2]} elements: {e[3]} bytes on disk, {acc} expected)",
                   dict(c, block=j, block_elements=e[2], block_bytes=bs[j], size_on_disk=e[3], expected_size=acc, header_len=len(h)))
            return
    # ---- the file left behind: every observed state is a byte prefix of it (header region included), it equals the last state
    fin = np.fromfile(o, np.uint8)
    if fin[:len(h)].tobytes() != h:
        R.fail(K + "header-patched", "at scale: the header region of the file left behind differs from the header first written", dict(c, header_len=len(h)))
        return
    if fin.size != acc:
        R.fail(K + "final", "at scale: the file left behind has another length than after the last write" if exc is None
               else "at scale: what survives the exception has another length than after the last write", dict(c, final_len=int(fin.size), last_len=acc))
        return
    pos, crc = 0, 0
    for j, e in enumerate(evs[1:]):
        if e[4] is None:
            continue
        crc = zlib.crc32(fin[pos:e[3]], crc)
        pos = e[3]
        if crc != e[4]:
            R.fail(K + "prefix", f"at scale: the state of the output after block {j} ({e[3]} bytes) is not a byte prefix of the file left behind "
                   "(something already on disk was rewritten later)", dict(c, block=j, state_len=e[3], final_len=int(fin.size)))
            return
    if exc is None:
        if meta.get("want_n") is not None:
            wl = len(h) + meta["want_n"] * nch * nbits // 8
            if fin.size != wl:
                R.fail(K + "final", "at scale: on return the file is not header + the whole result (length)",
                       dict(c, final_len=int(fin.size), expected_len=wl, expected_samples=meta["want_n"]))
                return
        if meta.get("expected") is not None:
            exp = meta["expected"]()
            got = fin[len(h):]
            if exp.size != got.size or not np.array_equal(exp, got):
                n = min(exp.size, got.size)
                nz = np.flatnonzero(exp[:n] != got[:n])
                R.fail(K + "final", "at scale: on return the data section differs from the independent numpy reference",
                       dict(c, data_len=int(got.size), expected_len=int(exp.size), first_differing_byte=int(nz[0]) if nz.size else n))
                return
            del exp, got
    if reader:
        scale_reader(R, K, c, o, fin, len(h), nbits, nch, marks, rng)


def scale(R: vlib.Run):
    """at-scale search for C20.  Every implementation path of run(R) -- prep_outfile / FileWriter.write / FileWriter.cwrite, the nine
    streaming writers of base.py, FilterbankBlock.to_file, TimeSeries.to_tim, and FilReader on truncations -- on inputs that are
    large in each dimension that can matter.  Regimes (generators below, all data from numpy.random.default_rng([seed, ...])):
      A cwrite-thresholds  prep_outfile + a run of cwrite calls of 2**k - d, 2**k, 2**k + d elements, k = 16, 18, 20, 22, (24), at every
                           writer depth and with in-memory dtypes wider / narrower than the depth; values over the whole dtype range
                           (float32: +-3.4e38, denormals); finished files of up to 6.7e7 samples (> 2**24) cut and re-read
      B streaming          64 channels x 100000 samples at depths 8, 1, 2, 4, 16, 32; the nine writers at the default gulp 16384 (argument left out; 2**20
                           elements per block), 65537 (just above 2**22 elements), 4095 (non-dividing; just below 2**18), whole file and a
                           sub-range with start > 0
      C many-blocks        16 channels x 40000 samples, gulp 61: 640 .. 1000 blocks per output for all nine writers;
                           2 channels x 70000 samples, gulp 1: 70000 blocks (> 2**16) for extract_samps / invert_freq / requantize
      D many-outputs       512 channels x 20000 samples: extract_chans of 450 channels and extract_bands into 256 bands with the
                           default batch size (3 and 2 batches, 200 files open at a time)
      E one-shot           FilterbankBlock.to_file of 65537 x 64 (> 2**22 elements), TimeSeries.to_tim of 100000 and of 2**24 + 5000 samples
      F long               2 channels x (2**24 + 5000) samples at 4 bits (1 byte per sample): extract_samps / invert_freq / requantize /
                           downsample / remove_zerodm with blocks of 2**20 .. 2**24 + 1 samples, a start beyond 2**24, a range of 2**23 from 2**23 + 1
      G many-channels      4096 channels x 700 samples at 8 and 2 bits, gulp 300: all nine writers (bands of 1024 channels)
    Oracle = the small-scope oracle of run(): header first, exactly and once; after every cwrite the path holds header + the blocks
    so far (byte counts from the plan, content as crc32 of the whole file read back); one block per block of the read plan; every
    state is a byte prefix of the file left behind, which equals the last state and, where the transform is a selection / permutation
    / re-encoding, the independent numpy reference; byte-length truncations open, count and read as prefixes."""
    import random
    from sigpyproc.header import Header
    from sigpyproc.io import sigproc
    from sigpyproc.readers import FilReader
    SEED = R.seed + 2020
    rng = random.Random(SEED)
    d = os.path.join(vlib.SCRATCH, f"c20s_{os.getpid()}")
    shutil.rmtree(d, ignore_errors=True)
    os.makedirs(d, exist_ok=True)
    GEN = "props/c20.py scale(): make_input / regime tables"
    FCH1, TS = 400.0, 0.001
    import time
    t_reg, t_last = {}, [time.time()]

    def lap(name):
        t_reg[name] = round(t_reg.get(name, 0.0) + time.time() - t_last[0], 1)
        t_last[0] = time.time()

    def header_of(name, nbits, nch, N):
        return Header(filename=name, data_type="filterbank", nchans=nch, foff=-200.0 / nch, fch1=FCH1, nbits=nbits, tsamp=TS,
                      tstart=60000.0, nsamples=N)

    def make_input(tag, nbits, nch, N, seed):
        """(nsamps, nchans) values over the whole range of the depth (float32: integers 0..255, exact under every transform),
        written with plain file I/O: encoded header + independent numpy encoding (not FileWriter)"""
        g = np.random.default_rng(seed)
        if nbits <= 8:
            x = g.integers(0, 1 << nbits, (N, nch), dtype=np.uint8)
        elif nbits == 16:
            x = g.integers(0, 1 << 16, (N, nch), dtype=np.uint16)
        else:
            x = g.integers(0, 256, (N, nch), dtype=np.uint8).astype(np.float32)
        p = os.path.join(d, f"{tag}.fil")
        with open(p, "wb") as f:
            f.write(sigproc.encode_header(header_of(os.path.basename(p), nbits, nch, N).to_sigproc()))
            np_enc(x, nbits).tofile(f)
        return p, x

    def do_call(case, site, outs, fn, metas, thin=1, readers=None):
        """one implementation call under the observer; metas: one dict per output (see scale_judge)"""
        for o in outs:
            with open(o, "wb") as f:
                f.write(JUNK)
        R.tick(case)
        R.case(("scale", case["regime"], site, case.get("nbits"), case.get("gulp"), case.get("start"), case.get("p")), regime="scale")
        exc = None
        with ScaleTap(thin) as tap:
            try:
                fn()
            except vlib.Hang:
                raise
            except Exception as e:  # noqa: BLE001 -- the call died: what is on disk must still be a valid prefix
                exc = f"{type(e).__name__}: {str(e)[:100]}"
            ev = tap.ev
        if exc is not None:
            R.case(("scale-died", site, case.get("nbits")), nontrivial=False, regime="scale-died:" + site)
        touched = sorted(set(e[1] for e in ev if e[0] in "WC") - set(outs))
        if touched:
            R.fail(f"scale-{site}-no-output", "at scale: a path that is not one of the outputs was written", dict(case, paths=[os.path.basename(t) for t in touched[:5]]))
        for oi, (o, meta) in enumerate(zip(outs, metas)):
            scale_judge(R, d, case, site, o, ev, meta, exc, rng, reader=(readers is None or oi in readers))
        for o in outs:
            try:
                os.remove(o)
            except OSError:
                pass

    def writer_calls(fil, x, nbits, nch, N, gulp, start, nsamps, dm, default_gulp=False):
        """the nine streaming writers on the range (start, nsamps): (site, p, outs, fn, metas).  default_gulp: the gulp argument is
        left out (the writers' default of 16384 samples applies; `gulp` must then be 16384)"""
        o1 = os.path.join(d, "o.fil")
        base = os.path.join(d, "o")
        gk = {} if default_gulp else {"gulp": gulp}
        kw = dict(gk, start=start, nsamps=nsamps, quiet=True)
        sel = x[start:start + nsamps]
        by = lambda nb, nc: (lambda ns: ns * nc * nb // 8)   # noqa: E731
        mask = (np.arange(nch) % 3 == 1)
        mv = (1 << min(nbits, 8)) - 1
        nb_out = {1: 2, 2: 4, 4: 8, 8: 32, 16: 32, 32: 8}[nbits]
        chans = [0, 5, nch - 1]
        cps = nch // 4
        tf, ff = 2, (2 if nch >= 4 else 1)      # an output sample stays a whole number of bytes
        g2 = -(-gulp // tf) * tf
        want_ds = (nsamps // g2) * (g2 // tf) + (nsamps % g2) // tf
        delays = fil.header.get_dmdelays(dm)
        delays = delays - min(0, int(delays.min()))
        md = int(delays.max())
        nsub = 4

        def masked():
            w = sel.copy()
            w[:, mask] = mv
            return np_enc(w, nbits)

        out = [
            ("extract_samps", "", [o1], lambda: fil.extract_samps(start, nsamps, o1, quiet=True, **gk),
             [dict(per_block=by(nbits, nch), want_n=nsamps, nbits=nbits, nchans=nch, expected=lambda: np_enc(sel, nbits))]),
            ("invert_freq", "", [o1], lambda: fil.invert_freq(o1, **kw),
             [dict(per_block=by(nbits, nch), want_n=nsamps, nbits=nbits, nchans=nch, expected=lambda: np_enc(sel[:, ::-1], nbits))]),
            ("apply_channel_mask", f"fill{mv}", [o1], lambda: fil.apply_channel_mask(mask, mv, o1, **kw),
             [dict(per_block=by(nbits, nch), want_n=nsamps, nbits=nbits, nchans=nch, expected=masked)]),
            ("requantize", str(nb_out), [o1], lambda: fil.requantize(nb_out, o1, **kw),
             [dict(per_block=by(nb_out, nch), want_n=nsamps, nbits=nb_out, nchans=nch, expected=lambda: np_enc(sel, nb_out))]),
            ("downsample", f"t{tf}f{ff}", [o1], lambda: fil.downsample(tf, ff, o1, **kw),
             [dict(per_block=lambda ns: (ns // tf) * (nch // ff) * nbits // 8, want_n=want_ds, nbits=nbits, nchans=nch // ff, expected=None)]),
            ("remove_zerodm", "", [o1], lambda: fil.remove_zerodm(o1, **kw),
             [dict(per_block=by(nbits, nch), want_n=nsamps, nbits=nbits, nchans=nch, expected=None)]),
            ("subband", f"dm{dm:.3f};delay{md}", [o1], lambda: fil.subband(dm, nsub, o1, **kw),
             [dict(per_block=lambda ns: (ns - md) * nsub * 4, want_n=nsamps - md, nbits=32, nchans=nsub, expected=None)]),
            ("extract_chans", "0,5,last;batch2", [f"{base}_chan{c_:04d}.tim" for c_ in chans],
             lambda: fil.extract_chans(chans, base, batch_size=2, **kw),
             [dict(per_block=by(32, 1), want_n=nsamps, nbits=32, nchans=1, expected=(lambda c_=c_: np_enc(sel[:, c_].astype(np.float32), 32))) for c_ in chans]),
            ("extract_bands", "4 bands;batch3", [f"{base}_sub{i:02d}.fil" for i in range(4)],
             lambda: fil.extract_bands(0, nch, cps, base, batch_size=3, **kw),
             [dict(per_block=by(nbits, cps), want_n=nsamps, nbits=nbits, nchans=cps,
                   expected=(lambda i=i: np_enc(sel[:, i * cps:(i + 1) * cps], nbits))) for i in range(4)]),
        ]
        return out

    def pick_dm(fil, lo, hi):
        for v in np.linspace(0.05, 400, 4000):
            dl = fil.header.get_dmdelays(float(v))
            if lo <= int(dl.max()) - min(0, int(dl.min())) <= hi:
                return float(v)
        return 1.0

    try:
        # ---- A: prep_outfile + cwrite around the element-count thresholds, every depth, in-memory dtype != depth -----------------
        for ai, (wb, mem, top) in enumerate(((8, "u1", 24), (2, "u1", 24), (4, "u1", 24), (1, "u1", 24), (8, "<f4", 24), (16, "<u2", 22),
                                             (32, "<f4", 22), (32, "u1", 22), (16, "<f4", 20))):
            nch = max(1, 8 // wb)
            counts = [(1 << k) + s * nch for k in (16, 18, 20, 22, 24) if k <= top for s in (-1, 0, 1)]
            if top == 22:
                counts.append((1 << 24) + nch)
            seed = [SEED, 1, ai]
            g = np.random.default_rng(seed)
            case = {"regime": "A cwrite-thresholds", "nbits": wb, "array_dtype": mem, "nchans": nch,
                    "element_counts": [f"2**{k}{s * nch:+d}" for k in (16, 18, 20, 22, 24) if k <= top for s in (-1, 0, 1)] + (["2**24%+d" % nch] if top == 22 else []),
                    "seed": seed, "generator": GEN}
            o = os.path.join(d, "a.fil")
            with open(o, "wb") as f:
                f.write(JUNK)
            R.tick(case)
            R.case(("scale", "A", wb, mem), regime="scale")
            hdr = header_of("a.fil", wb, nch, 0)
            sizes, exp_crc, bad = [], None, False
            with ScaleTap() as tap:
                w = hdr.prep_outfile(o, nbits=wb)
                if tap.ev and tap.ev[0][0] == "W":
                    exp_crc = zlib.crc32(tap.ev[0][2])
                for j, n in enumerate(counts):
                    if mem == "u1":
                        arr = g.integers(0, 1 << min(wb, 8), n, dtype=np.uint8)
                    elif mem == "<u2":
                        arr = g.integers(0, 1 << 16, n, dtype=np.uint16)
                        arr[::4099] = 65535
                    elif wb == 32:
                        arr = g.integers(0, 1 << 24, n, dtype=np.int64).astype(np.float32)
                        arr[::1001], arr[5::1003], arr[7::1009] = 3.4e38, -3.4e38, 1e-45
                    else:
                        arr = g.integers(0, 1 << wb, n, dtype=np.int64).astype(np.float32)
                    eb = np_enc(arr, wb)
                    sizes.append(int(eb.size))
                    R.tick(dict(case, block=j, elements=n))
                    w.cwrite(arr)
                    e = tap.ev[-1]
                    if exp_crc is not None:
                        exp_crc = zlib.crc32(eb, exp_crc)
                        if e[0] == "C" and e[3] == len(tap.ev[0][2]) + sum(sizes) and e[4] != exp_crc and not bad:
                            bad = True
                            R.fail("scale-cwrite-append", f"at scale: after cwrite of block {j} ({n} elements of {mem} to a {wb}-bit writer) the path has the "
                                   "right length but not the bytes header + the independent numpy encoding of the blocks so far",
                                   dict(case, block=j, elements=n, size_on_disk=e[3]))
                    del arr, eb
                w.close()
                ev = tap.ev
            scale_judge(R, d, case, "cwrite", o, ev, dict(sizes=sizes, want_n=sum(counts) // nch, nbits=wb, nchans=nch, expected=None), None, rng)
            os.remove(o)

        lap("A")
        # ---- B: the nine streaming writers, 64 channels x 100000 samples, every depth --------------------------------------------
        NB, CH = 100000, 64
        GULPS = (16384, 65537, 4095)
        for di, nbits in enumerate((8, 2, 32, 1, 4, 16)):
            seed = [SEED, 2, nbits]
            inp, x = make_input(f"b{nbits}", nbits, CH, NB, seed)
            fil = FilReader(inp)
            dm = pick_dm(fil, 500, 2000)
            for gi, gulp in enumerate(GULPS):
                for wi in range(9):
                    if nbits != 8 and (wi + di) % 3 != gi:
                        continue                 # depth 8: every writer at every gulp; other depths: every writer at one gulp (rotating)
                    start, nsamps = ((0, NB), (777, NB - 3000))[(wi + gi + di) % 2]
                    site, p, outs, fn, metas = writer_calls(fil, x, nbits, CH, NB, gulp, start, nsamps, dm, default_gulp=(gulp == 16384))[wi]
                    case = {"regime": "B streaming", "site": site, "nbits": nbits, "nchans": CH, "N": NB, "gulp": "default (16384)" if gulp == 16384 else gulp,
                            "start": start, "nsamps": nsamps, "p": p, "seed": seed, "generator": GEN}
                    do_call(case, site, outs, fn, metas, readers={0, len(outs) - 1})
            if nbits in (8, 2):
                # ---- E (first half): a block of more than 2**22 elements written in one shot
                n1, s1 = 65537, 1234
                o = os.path.join(d, "blk.fil")
                case = {"regime": "E one-shot", "site": "to_file", "nbits": nbits, "nchans": CH, "N": NB, "start": s1, "nsamps": n1, "seed": seed, "generator": GEN}
                do_call(case, "to_file", [o], lambda: fil.read_block(s1, n1).to_file(o),
                        [dict(sizes=[n1 * CH * 4], want_n=n1, nbits=32, nchans=CH, expected=lambda: np_enc(x[s1:s1 + n1].astype(np.float32), 32))])
            if nbits == 8:
                o = os.path.join(d, "ts.tim")
                case = {"regime": "E one-shot", "site": "to_tim", "nbits": nbits, "nchans": CH, "N": NB, "chan": 3, "seed": seed, "generator": GEN}
                do_call(case, "to_tim", [o], lambda: fil.read_chan(3, quiet=True).to_tim(o),
                        [dict(sizes=[NB * 4], want_n=NB, nbits=32, nchans=1, expected=lambda: np_enc(x[:, 3].astype(np.float32), 32))])
            del fil, x
            os.remove(inp)

        lap("B+E")
        # ---- F: more than 2**24 samples (1 byte per sample): offsets, sample counts and start beyond 2**24 ----------------------------
        NT = (1 << 24) + 5000
        seed = [SEED, 5, 4]
        inp, x = make_input("f4", 4, 2, NT, seed)
        fil = FilReader(inp)
        for wi, gulp, start, nsamps in ((0, (1 << 22) + 1, 0, NT), (0, 16384, (1 << 24) + 7, 4000), (1, 1 << 20, 3, NT - 5), (3, 3000001, (1 << 23) + 1, 1 << 23),
                                        (4, 1 << 21, 0, NT), (5, (1 << 24) + 1, 0, NT)):
            site, p, outs, fn, metas = writer_calls(fil, x, 4, 2, NT, gulp, start, nsamps, 0.0)[wi]
            case = {"regime": "F long", "site": site, "nbits": 4, "nchans": 2, "N": NT, "gulp": gulp, "start": start, "nsamps": nsamps,
                    "p": p, "seed": seed, "generator": GEN}
            do_call(case, site, outs, fn, metas)
        o = os.path.join(d, "ts.tim")
        case = {"regime": "E one-shot", "site": "to_tim", "nbits": 4, "nchans": 2, "N": NT, "chan": 1, "seed": seed, "generator": GEN}
        do_call(case, "to_tim", [o], lambda: fil.read_chan(1, quiet=True).to_tim(o),
                [dict(sizes=[NT * 4], want_n=NT, nbits=32, nchans=1, expected=lambda: np_enc(x[:, 1].astype(np.float32), 32))])
        del fil, x
        os.remove(inp)

        # ---- G: many channels ---------------------------------------------------------------------------------------------------------
        NG, CG = 700, 4096
        for nbits in (8, 2):
            seed = [SEED, 6, nbits]
            inp, x = make_input(f"g{nbits}", nbits, CG, NG, seed)
            fil = FilReader(inp)
            dm = pick_dm(fil, 5, 100)
            for wi in range(9):
                start, nsamps = ((0, NG), (55, NG - 100))[wi % 2]
                site, p, outs, fn, metas = writer_calls(fil, x, nbits, CG, NG, 300, start, nsamps, dm)[wi]
                case = {"regime": "G many-channels", "site": site, "nbits": nbits, "nchans": CG, "N": NG, "gulp": 300, "start": start, "nsamps": nsamps,
                        "p": p, "seed": seed, "generator": GEN}
                do_call(case, site, outs, fn, metas, readers={0})
            del fil, x
            os.remove(inp)

        lap("F+G")
        # ---- C: many blocks ------------------------------------------------------------------------------------------------------------
        NC, CC = 40000, 16
        for nbits in (8, 4):
            seed = [SEED, 3, nbits]
            inp, x = make_input(f"c{nbits}", nbits, CC, NC, seed)
            fil = FilReader(inp)
            dm = pick_dm(fil, 6, 25)
            for wi in range(9):
                start, nsamps = ((0, NC), (777, NC - 3000))[wi % 2]
                site, p, outs, fn, metas = writer_calls(fil, x, nbits, CC, NC, 61, start, nsamps, dm)[wi]
                case = {"regime": "C many-blocks", "site": site, "nbits": nbits, "nchans": CC, "N": NC, "gulp": 61, "start": start, "nsamps": nsamps,
                        "p": p, "seed": seed, "generator": GEN}
                do_call(case, site, outs, fn, metas, readers={0})
            del fil, x
            os.remove(inp)
        NC2 = 70000
        seed = [SEED, 3, 0]
        inp, x = make_input("c8x2", 8, 2, NC2, seed)
        fil = FilReader(inp)
        for wi in (0, 1, 3):
            start, nsamps = (0, NC2) if wi != 1 else (3, NC2 - 5)
            site, p, outs, fn, metas = writer_calls(fil, x, 8, 2, NC2, 1, start, nsamps, 0.0)[wi]
            case = {"regime": "C many-blocks", "site": site, "nbits": 8, "nchans": 2, "N": NC2, "gulp": 1, "start": start, "nsamps": nsamps,
                    "p": p, "seed": seed, "generator": GEN, "whole_file_read_back": "blocks 1-3 and every 257th (size at every block)"}
            do_call(case, site, outs, fn, metas, thin=257)
        del fil, x
        os.remove(inp)

        lap("C")
        # ---- D: many outputs (several batches of the default batch size) ------------------------------------------------------------
        ND, CD = 20000, 512
        seed = [SEED, 4, 8]
        inp, x = make_input("d8", 8, CD, ND, seed)
        fil = FilReader(inp)
        base = os.path.join(d, "m")
        chans = [c_ for c_ in range(CD) if c_ % 8 != 7][:450]
        for start, nsamps, gulp in ((0, ND, 16384), (1000, 18000, 7000)):
            sel = x[start:start + nsamps]
            case = {"regime": "D many-outputs", "site": "extract_chans", "nbits": 8, "nchans": CD, "N": ND, "gulp": gulp, "start": start, "nsamps": nsamps,
                    "p": "450 channels (all but c%8==7, first 450); default batch_size", "seed": seed, "generator": GEN}
            outs = [f"{base}_chan{c_:04d}.tim" for c_ in chans]
            ret = []
            do_call(case, "extract_chans", outs, lambda: ret.extend(fil.extract_chans(chans, base, gulp=gulp, start=start, nsamps=nsamps, quiet=True)),
                    [dict(per_block=lambda ns: ns * 4, want_n=nsamps, nbits=32, nchans=1, expected=(lambda c_=c_: np_enc(sel[:, c_].astype(np.float32), 32))) for c_ in chans],
                    readers={0, 199, 200, 449})
            if ret and sorted(ret) != sorted(outs):
                R.fail("scale-extract_chans-no-output", "at scale: the list of files returned differs from the outputs requested", dict(case, returned=len(ret)))
            case = dict(case, site="extract_bands", p="256 bands of 2 channels; default batch_size")
            outs = [f"{base}_sub{i:02d}.fil" for i in range(CD // 2)]
            ret = []
            do_call(case, "extract_bands", outs, lambda: ret.extend(fil.extract_bands(0, CD, 2, base, gulp=gulp, start=start, nsamps=nsamps, quiet=True)),
                    [dict(per_block=lambda ns: ns * 2, want_n=nsamps, nbits=8, nchans=2, expected=(lambda i=i: np_enc(sel[:, 2 * i:2 * i + 2], 8))) for i in range(CD // 2)],
                    readers={0, 199, 200, 255})
            if ret and sorted(ret) != sorted(outs):
                R.fail("scale-extract_bands-no-output", "at scale: the list of files returned differs from the outputs requested", dict(case, returned=len(ret)))
        del fil, x
        os.remove(inp)
        lap("D")
        R.extra_cov["scale_seconds_by_regime"] = t_reg
    finally:
        shutil.rmtree(d, ignore_errors=True)
