"""C05 -- SIGPROC headers survive encode/parse; in-place edits touch only their key.

Proof: Props/C05.v over Model/C05_HeaderCodec.v, Model/C05_RaDec.v and Gen/C05Header.v (tables, length-prefix modes of
encode_key, formatting modes of parse_radec, frame functions: regenerated from the source by tools/py2coq/gen_c05.py).
Correspondence: the executable model under vm_compute versus sigproc.encode_header / parse_header / edit_header /
parse_radec / Header.to_sigproc / Header.from_sigproc on the same inputs.
Oracle (search for a failing input): the property restated with `struct` and plain Python:
  (A) bytes of a well-formed header -> parse_header -> encode_header must reproduce the bytes;
  (B) Header -> prep_outfile -> Header.from_sigproc must preserve the physical fields (positions to 0.01 arcsec);
  (C) whole-file comparison around edit_header for valid and invalid (key, value).
"""
from __future__ import annotations

import math
import os
import re
import struct
import warnings
from decimal import Decimal

import vlib

# struct codes of the SIGPROC keys as the *format* defines them (independent of the implementation's table: a change of
# the table shows up as an oracle failure or a correspondence disagreement)
KEYS = {
    "signed": "b", "telescope_id": "I", "ibeam": "I", "nbeams": "I", "refdm": "d", "nifs": "I", "nchans": "I", "foff": "d",
    "fch1": "d", "nbits": "I", "tsamp": "d", "tstart": "d", "src_dej": "d", "src_raj": "d", "za_start": "d", "az_start": "d",
    "source_name": "str", "rawdatafile": "str", "data_type": "I", "machine_id": "I", "barycentric": "I", "pulsarcentric": "I",
}
TELESCOPES = {"Fake": 0, "Arecibo": 1, "Ooty": 2, "Nancay": 3, "Parkes": 4, "Jodrell": 5, "GBT": 6, "GMRT": 7, "Effelsberg": 8,
              "Effelsberg LOFAR": 9, "SRT": 10, "LOFAR": 11, "VLA": 12, "CHIME": 20, "MWA": 30, "MeerKAT": 64}
MACHINES = {"FAKE": 0, "PSPM": 1, "WAPP": 2, "AOFTM": 3, "BPP": 4, "OOTY": 5, "SCAMP": 6, "GMRTFB": 7, "PULSAR2000": 8,
            "PARSPEC": 9, "BPSR": 10, "COBALT": 11, "GMRTNEW": 14, "CHIME": 20, "MWA-VCS": 30, "MWAX-VCS": 31, "MWAX-RTB": 32}
FRAMES = ["topocentric", "barycentric", "pulsarcentric"]
S8 = 10 ** 8
# one-byte characters that a "tidying" reader would drop (C string padding, line ends, other controls) and multi-byte
# characters that str.strip() / normalisation / BOM handling would touch: a SIGPROC string is a counted block of bytes
CTRL = ["\x00", "\t", "\n", "\r", "\x0b", "\x0c", "\x1f", "\x7f"]
ODD_MB = ["\u00a0", "\u2028", "\ufeff", "e\u0301",         # no-break space, line separator, BOM, e + combining acute
          # first and last code point of every UTF-8 length (around the surrogate gap): the model's strict decoder accepts them
          "\u0080", "\u07ff", "\u0800", "\ud7ff", "\ue000", "\uffff", "\U00010000", "\U0010ffff"]
# byte strings that are NOT well-formed UTF-8 (overlong, surrogate, beyond U+10FFFF, stray / missing continuation, Latin-1):
# outside the property (R.assume), but the model decodes strictly as _read_string does, so they go to the correspondence
BAD_UTF8 = [b"PSR\xe9", b"\xc0\x80", b"\xc1\xbf", b"\xe0\x9f\xbf", b"\xed\xa0\x80", b"\xed\xbf\xbf", b"\xf0\x8f\xbf\xbf", b"\xf4\x90\x80\x80",
            b"\xf5\x80\x80\x80", b"\x80", b"ab\xbf", b"\xe4\xb8", b"\xe4\xb8A", b"\xf0\x9f\x9b", b"\xff", b"J0534\xc2"]
# a character of the same UTF-8 length (for edits that keep both the character count and the byte count)
SAME_LEN = {"é": "ü", "ü": "ß", "ß": "é", "Ω": "°", "°": "Ω", "\u00a0": "é", "\u0301": "ü", "–": "中", "中": "–", "\u2028": "中",
            "\ufeff": "–", "\U0001f6f0": "\U0001f680", "\u0080": "é", "\u07ff": "é", "\u0800": "中", "\ud7ff": "中", "\ue000": "中",
            "\uffff": "中", "\U00010000": "\U0001f680", "\U0010ffff": "\U0001f680"}


# ------------------------------------------------------------------------------------------------------------------
# the SIGPROC layout, written independently of the implementation
# ------------------------------------------------------------------------------------------------------------------
def fmt_string(b: bytes) -> bytes:
    return struct.pack("<I", len(b)) + b


def fmt_value(code, v) -> bytes:
    if code == "str":
        return fmt_string(v.encode("utf-8"))
    return struct.pack("<" + code, v)


def fmt_header(entries) -> bytes:
    out = fmt_string(b"HEADER_START")
    for k, v in entries:
        out += fmt_string(k.encode()) + fmt_value(KEYS[k], v)
    return out + fmt_string(b"HEADER_END")


def value_span(entries, key):
    """(offset, length) of the encoded value of `key` inside fmt_header(entries)"""
    off = len(fmt_string(b"HEADER_START"))
    for k, v in entries:
        off += len(fmt_string(k.encode()))
        n = len(fmt_value(KEYS[k], v))
        if k == key:
            return off, n
        off += n
    return None


def max_prefix(b: bytes) -> int:
    """largest string length prefix met while walking the stream as the format prescribes (guards the malformed cases:
    a multi-gigabyte length would make both the implementation and the unary model allocate it)"""
    pos, worst = 0, 0

    def rd_str():
        nonlocal pos, worst
        if pos + 4 > len(b):
            raise EOFError
        n = struct.unpack_from("<I", b, pos)[0]
        worst = max(worst, n)
        pos += 4
        s = b[pos:pos + n]
        pos += n
        return s
    try:
        if rd_str() != b"HEADER_START":
            return worst
        while True:
            k = rd_str()
            if k == b"HEADER_END":
                return worst
            code = KEYS.get(k.decode("utf-8", "replace"))
            if code is None:
                return worst
            if code == "str":
                rd_str()
            else:
                pos += struct.calcsize("<" + code)
    except EOFError:
        return worst


def is_ascii(s):
    return all(ord(c) < 128 for c in s)


def same_value(a, b):
    if isinstance(a, float) or isinstance(b, float):
        try:
            return struct.pack("<d", a) == struct.pack("<d", b)
        except (struct.error, TypeError):
            return False
    return type(a) is type(b) and a == b


# ------------------------------------------------------------------------------------------------------------------
# generators
# ------------------------------------------------------------------------------------------------------------------
class G:
    def __init__(self, rng):
        self.rng = rng

    def finite_double(self):
        r = self.rng
        c = r.random()
        if c < 0.25:
            return r.choice([0.0, -0.0, 1.0, -1.0, 1.7976931348623157e308, -1.7976931348623157e308, 5e-324, 2.2250738585072014e-308,
                             1e-5, 123456.789, -895959.99999999, 235959.99999999, 0.1, 1e15 + 0.5])
        if c < 0.6:
            while True:
                x = struct.unpack("<d", struct.pack("<Q", r.getrandbits(64)))[0]
                if math.isfinite(x):
                    return x
        return r.uniform(-1e6, 1e6)

    def uint(self):
        r = self.rng
        return r.choice([0, 1, 2, 255, 256, 65535, 65536, 2 ** 31 - 1, 2 ** 31, 2 ** 32 - 1, r.randrange(2 ** 32), r.randrange(1000)])

    def ascii_str(self, n=None):
        r = self.rng
        if n is None:
            n = r.choice([0, 1, 2, 5, 11, 16, 40, r.randrange(0, 300)])
        s = [chr(r.choice([32, 45, 46, 47, 95] + list(range(48, 58)) + list(range(65, 91)) + list(range(97, 123)))) for _ in range(n)]
        if n and r.random() < 0.2:
            # a control character (one byte: the length is kept) first, last or anywhere
            s[r.choice([0, n - 1, r.randrange(n)])] = r.choice(CTRL)
        return "".join(s)

    def nonascii_str(self):
        r = self.rng
        pool = ["é", "–", "Ω", "°", "中", "\U0001f6f0", "ü", "ß"] + ODD_MB
        s = list(self.ascii_str(r.randrange(0, 12)))
        for _ in range(r.randrange(1, 4)):
            s.insert(r.randrange(len(s) + 1), r.choice(pool))
        return "".join(s)

    def value(self, code, nonascii=False):
        r = self.rng
        if code == "I":
            return self.uint()
        if code == "b":
            return r.choice([-128, -1, 0, 1, 127, r.randrange(-128, 128)])
        if code == "d":
            return self.finite_double()
        return self.nonascii_str() if nonascii else self.ascii_str()

    def entries(self, nonascii=False, require=("nbits", "nchans")):
        """a well-formed header: random subset and order of the recognised keys (nbits, nchans present and non-zero: needed
        by parse_header to lay out the data)"""
        r = self.rng
        keys = [k for k in KEYS if k not in require and r.random() < r.choice([0.2, 0.5, 0.9])]
        keys += list(require)
        if nonascii and not any(KEYS[k] == "str" for k in keys):
            keys.append(r.choice(["source_name", "rawdatafile"]))
        r.shuffle(keys)
        ents = []
        na_done = False
        for k in keys:
            if k == "nbits":
                v = r.choice([1, 2, 4, 8, 16, 32, 2 ** 32 - 1, 3])
            elif k == "nchans":
                v = r.choice([1, 2, 64, 4096, 2 ** 32 - 1, r.randrange(1, 2 ** 32)])
            elif KEYS[k] == "str" and nonascii and (not na_done or r.random() < 0.5):
                v = self.nonascii_str()
                na_done = True
            else:
                v = self.value(KEYS[k])
            ents.append((k, v))
        return ents

    def same_length_swap(self, s):
        """a different string with the same number of characters and the same UTF-8 length at every position"""
        r = self.rng
        out = []
        for c in s:
            if ord(c) < 128:
                out.append(chr(r.choice(list(range(48, 58)) + list(range(65, 91)))))
            else:
                out.append(SAME_LEN.get(c, c))
        return "".join(out)

    def data(self):
        r = self.rng
        return bytes(r.getrandbits(8) for _ in range(r.choice([0, 1, 7, 64, r.randrange(0, 200)])))


# ------------------------------------------------------------------------------------------------------------------
# model values
# ------------------------------------------------------------------------------------------------------------------
def mval(v):
    if type(v).__module__ == "numpy":
        v = v.item()
    if v is None:
        return "VNone"
    if isinstance(v, bool):
        return f"(VInt {int(v)})"
    if isinstance(v, int):
        return f"(VInt ({v}))"
    if isinstance(v, float):
        return f"(VDbl {vlib.zlist(struct.pack('<d', v))})"
    if isinstance(v, str):
        return f"(VStr {vlib.zlist(v.encode('utf-8'))})"
    raise TypeError(type(v))


def mkey(k):
    return vlib.zlist(k.encode("utf-8"))


def mheader(items):
    return "[" + "; ".join(f"({mkey(k)}, {mval(v)})" for k, v in items) + "]"


def mobytes(b):
    return "None" if b is None else f"(Some {vlib.zlist(b)})"


PRELUDE = """From Coq Require Import ZArith List Bool QArith Qabs.
Require Import SPP.Gen.C05Header SPP.Model.C05_HeaderCodec SPP.Model.C05_RaDec.
Import ListNotations.
Open Scope Z_scope.
Definition rad2deg : Q := RAD2DEG.
Definition qclose (a b : Q) : bool := Qle_bool (Qabs (a - b)) (1 # 1000000000).
Definition value_eqb (a b : value) : bool :=
  match a, b with
  | VInt x, VInt y => x =? y | VDbl x, VDbl y => bytes_eqb x y | VStr x, VStr y => bytes_eqb x y | VNone, VNone => true
  | _, _ => false end.
Fixpoint header_eqb (a b : header) : bool :=
  match a, b with
  | [], [] => true
  | (k, v) :: a', (k', v') :: b' => bytes_eqb k k' && value_eqb v v' && header_eqb a' b'
  | _, _ => false end.
Definition obytes_eqb (a b : option bytes) : bool :=
  match a, b with Some x, Some y => bytes_eqb x y | None, None => true | _, _ => false end.
Definition oparse_eqb (a b : option (header * Z)) : bool :=
  match a, b with Some (h, n), Some (h', n') => header_eqb h h' && (n =? n') | None, None => true | _, _ => false end.
Definition oangle_close (a : option sexa) (b : option Z) : bool :=
  match a, b with Some c, Some x => Z.abs (angle 100000000 c - x) <=? 100 | None, None => true | _, _ => false end.
Inductive case : Type :=
| CEnc (h : header) (out : option bytes)
| CParse (f : bytes) (out : option (header * Z))
| CEdit (f k : bytes) (v : value) (out : option bytes)
| CPack (c : sexa) (p : Z)
| CUnDec (p : Z) (out : option Z)
| CUnRa (p : Z) (out : option Z)
| CFrame (f out : Z)
| CTelId (name : bytes) (id : Z) | CTelName (id : Z) (name : bytes)
| CBeId (name : bytes) (id : Z) | CBeName (id : Z) (name : bytes)
| CPoint (zen az : qangle) (za_disk az_disk zen_back az_back : Q).
Definition ok (c : case) : bool :=
  match c with
  | CEnc h out => obytes_eqb (encode_header h) out
  | CParse f out => oparse_eqb (parse_header f) out
  | CEdit f k v out => obytes_eqb (edit_header f k v) out
  | CPack c p => pack 100000000 c =? p
  | CUnDec p out => oangle_close (unpack_dec 100000000 p) out
  | CUnRa p out => oangle_close (unpack_ra 100000000 p) out
  | CFrame f out => frame_roundtrip f =? out
  | CTelId n i => telescope_to_id n =? i | CTelName i n => bytes_eqb (telescope_of_id i) n
  | CBeId n i => backend_to_id n =? i | CBeName i n => bytes_eqb (backend_of_id i) n
  | CPoint zen az zd ad zb ab =>
      qclose (za_start_written rad2deg zen az) zd && qclose (az_start_written rad2deg zen az) ad
      && qclose (fst (pointing_roundtrip rad2deg zen az)) zb && qclose (snd (pointing_roundtrip rad2deg zen az)) ab
  end.
"""


def qlit(x):
    """exact rational literal of a float / Fraction"""
    from fractions import Fraction
    f = Fraction(x)
    return f"(({f.numerator}) # {f.denominator})"


PRELUDE = PRELUDE.replace("RAD2DEG", qlit(180.0 / math.pi))
UNITS = {"deg": "UDeg", "arcmin": "UArcmin", "arcsec": "UArcsec", "hourangle": "UHour", "rad": "URad"}


def run_cases(R, name, cases, descr):
    """cases: list of (coq term, python description); compares inside Coq, reports indices that differ"""
    bad_total = 0
    for si in range(0, len(cases), 400):
        chunk = cases[si:si + 400]
        txt = PRELUDE + "Definition cases : list case := [\n" + ";\n".join(c for c, _ in chunk) + "\n].\n" + \
            "Definition idx := map fst (filter (fun p => negb (ok (snd p))) (combine (seq 0 (length cases)) cases)).\n" \
            "Eval vm_compute in (length cases, idx).\n"
        rc, out = vlib.coq_run(f"c05_{name}_{si // 400}", txt, timeout=300)
        vals = vlib.parse_eval(out)
        if rc != 0 or not vals:
            R.red.append(f"correspondence: Corr/c05_{name} did not evaluate: " + out[-500:])
            continue
        nums = [int(x) for x in re.findall(r"(\d+)%nat", vals[0])]
        if not nums or nums[0] != len(chunk):
            R.red.append(f"correspondence: Corr/c05_{name}: unexpected output {vals[0][:200]}")
            continue
        R.extra_cov["traces_validated_against_impl"] = R.extra_cov.get("traces_validated_against_impl", 0) + nums[0]
        for bi in nums[1:]:
            bad_total += 1
            if bad_total <= 6:
                R.disagree(f"model and implementation differ ({descr})", chunk[bi][1])
    return bad_total


# ------------------------------------------------------------------------------------------------------------------
def run(R: vlib.Run):
    warnings.filterwarnings("ignore")
    from astropy import units as u
    import numpy as np
    from pathlib import Path
    from astropy.coordinates import Angle, Latitude, Longitude, SkyCoord
    from sigpyproc.header import Header
    from sigpyproc.io import sigproc

    quick = R.tier == "quick"
    rng = R.rng
    g = G(rng)
    R.rule = ("(A) well-formed header bytes built with struct from a random subset and order of the 22 recognised keys (nbits/nchans "
              "always present), values: extreme and random uint32, signed bytes, finite doubles from random bit patterns, ASCII and "
              "multi-byte UTF-8 strings of length 0..300, followed by 0..200 data bytes; (B) Header objects over all telescope and "
              "backend ids, the three frames, a sexagesimal grid of positions (both signs x degrees {0,1,45,89} x minutes {0,30,59} x "
              "seconds {0, 0.01, 30, 59.99, 59.99995, 59.999999996, 1e-5, 1.5e-5}) plus random positions (SkyCoord built in degrees or radians), azimuth/zenith "
              "Angles held in deg, rad, hourangle, arcmin, arcsec (all unit pairs), extreme channel/time values; (C) valid "
              "and invalid (key, value) edits of files from (A).  Strings: one in five ASCII strings carries a control character (NUL, "
              "TAB, LF, CR, VT, FF, US, DEL) first, last or inside; the multi-byte pool includes NBSP, U+2028, BOM and a combining "
              "accent; every one of these characters is also placed at both ends of a source name in (A), (B) and (C).  (B) also "
              "writes time-series headers, the extreme finite fch1/foff values, pointing angles that are negative, beyond a full "
              "turn or minus zero in every unit and Longitude/Latitude instances.  (C) also replaces multi-byte strings by strings of "
              "the same character and byte count (and shorter padded source names), passes the file name as str or Path and "
              "values as numpy scalars, bool, NaN and infinities.  A case is non-trivial when the header has at least three keys; "
              "distinct = distinct (kind, header bytes / field tuple / edit) triples")
    R.trusted += ["Coq 8.16.1 kernel + vm_compute (finite checks on the regenerated tables; witnesses; correspondence)",
                  "tools/py2coq/gen_c05.py: reading of the tables, of encode_key's length prefixes, of parse_radec's formatting and of the "
                  "frame assignments from the Python ast; pins the text of _read_string/parse_header/encode_header/edit_header",
                  "hand model Model/C05_HeaderCodec.v, Model/C05_RaDec.v tied to the implementation by the correspondence run",
                  "struct's encoding of 'I','b','d' on a little-endian machine; str.encode/bytes.decode inverse on valid UTF-8 (which byte strings are valid is modelled: Model valid_utf8, tied to bytes.decode by the correspondence)",
                  "astropy Angle.to_string / SkyCoord string parsing (the sexagesimal fields are the model's input)",
                  "correspondence harness and oracle tools/harness/props/c05.py"]
    R.assume += ["binary64 evaluation of parse_radec's divmods differs from the exact-decimal model by < 1e-6 arcsec (checked on every case)",
                 "doubles are opaque 8-byte blocks in the model; int -> double conversion by struct.pack('d', int) is not modelled",
                 "edit_header pads/truncates source_name by characters: the model counts a character per byte that is not a UTF-8 continuation byte (exact for the valid UTF-8 a Python str encodes to)",
                 "Header -> file: the sampling time satisfies 1e-9 <= tsamp < 1e9 seconds (Header.to_sigproc evaluates every property of "
                 "the Header, and Header.obs_time asks astropy for ceil(|log10 tsamp|) <= 9 decimals: prep_outfile raises ValueError "
                 "outside that range, and for tsamp <= 0) and tstart is an MJD astropy can print as a calendar date",
                 "strings in header bytes are valid UTF-8 (parse_header decodes them strictly: a source name in another 8-bit encoding, "
                 "e.g. Latin-1 b'PSR\\xe9', makes it raise UnicodeDecodeError instead of being re-encoded byte for byte)",
                 "the Header's SkyCoord is in the ICRS frame, as every constructor of the library makes it (the file stores the frame's "
                 "own longitude/latitude without naming the frame and it is read back as ICRS: an FK5 position moves by about 0.03 "
                 "arcsec, an FK4 position by its precession, and a frame without ra/dec such as galactic makes prep_outfile raise)"]
    R.prove("Props/C05.v")
    R.need(["Model/C05_HeaderCodec.vo", "Model/C05_RaDec.vo"])

    scratch = os.path.join(vlib.SCRATCH, f"c05_{os.getpid()}")
    os.makedirs(scratch, exist_ok=True)
    path = os.path.join(scratch, "t.fil")
    corr = []        # (coq case term, description)

    def write(b):
        with open(path, "wb") as f:
            f.write(b)

    def read():
        with open(path, "rb") as f:
            return f.read()

    def table_items(d):
        return [(k, v) for k, v in d.items() if k in sigproc.header_keys]

    seen_fail = set()

    def fail(key, what, case):
        seen_fail.add(key)
        R.fail(key, what, case)

    # ---------------------------------------------------------------------------------------------------------
    # (A) parse -> encode on well-formed header bytes
    # ---------------------------------------------------------------------------------------------------------
    nA = 120 if quick else 3000
    files = []      # (entries, header bytes, data) kept for (C)
    odd_files = []  # the subset whose strings carry a control / odd character at an end: always edited in (C)
    odd = CTRL + ODD_MB + [None]
    for i in range(nA + len(odd)):
        nonascii = (i % 6 == 5)
        if i >= nA:
            # every control / odd character first and last in the source name and inside the raw data file name
            # (last: multi-byte names with an ASCII tail, which (C) can shorten keeping both the character and the byte count)
            c = odd[i - nA]
            nonascii = c is None or not is_ascii(c)
            ents = [e for e in g.entries(require=("nbits", "nchans", "source_name", "rawdatafile")) if KEYS[e[0]] != "str"]
            ents.insert(rng.randrange(len(ents) + 1), ("source_name", c + "J0534+22" + c if c is not None else "éJ0534–22Ω.ab"))
            ents.insert(rng.randrange(len(ents) + 1), ("rawdatafile", "raw" + c + "0001.fil" if c is not None else "中raw\U0001f6f0.fil"))
        else:
            ents = g.entries(nonascii=nonascii)
        hb, data = fmt_header(ents), g.data()
        write(hb + data)
        cls = "string-nonascii" if nonascii else None
        R.case(("A", hb), nontrivial=len(ents) >= 3, regime="reencode_oddchars" if i >= nA else ("reencode_nonascii" if nonascii else "reencode_ascii"),
               sample={"kind": "A", "keys": [k for k, _ in ents][:6], "hdrlen": len(hb)} if i < 2 else None)
        case = {"entries": [(k, v if not isinstance(v, float) else repr(v)) for k, v in ents], "data_len": len(data)}
        try:
            d = sigproc.parse_header(path)
        except Exception as e:  # noqa: BLE001
            fail(cls or "parse-raises", f"parse_header raised {type(e).__name__} on a well-formed header", case)
            corr.append((f"CParse {vlib.zlist(hb + data)} None", {"kind": "parse", **case}))
            continue
        got = table_items(d)
        if [k for k, _ in got] != [k for k, _ in ents] or not all(same_value(a, b) for (_, a), (_, b) in zip(got, ents)) \
                or d.get("hdrlen") != len(hb):
            fail(cls or "parse-values", "parse_header returned other values / header length than the bytes hold", {**case, "got": str(got)[:300]})
        try:
            back = sigproc.encode_header(d)
        except Exception as e:  # noqa: BLE001
            back = None
            fail(cls or "reencode-raises", f"encode_header(parse_header(bytes)) raised {type(e).__name__}", case)
        if back is not None and back != hb:
            fail(cls or "reencode-bytes", "encode_header(parse_header(bytes)) != bytes", {**case, "first_diff": next((j for j in range(min(len(back), len(hb))) if back[j] != hb[j]), min(len(back), len(hb)))})
        files.append((ents, hb, data))
        if i >= nA:
            odd_files.append((ents, hb, data))
        if i < (60 if quick else 300) or i >= nA:
            corr.append((f"CParse {vlib.zlist(hb + data)} (Some ({mheader(got)}, {d['hdrlen']}))", {"kind": "parse", **case}))
            corr.append((f"CEnc {mheader(got)} {mobytes(back)}", {"kind": "encode", **case}))
    # malformed streams: model and implementation must agree on accept/reject (no oracle demand)
    for i in range(30 if quick else 200):
        ents, hb, data = rng.choice(files)
        b = bytearray(hb + data)
        kind = rng.choice(["trunc", "flip", "dup", "unknown", "nolayout"])
        if kind == "trunc":
            b = b[:rng.randrange(0, len(hb))]
        elif kind == "flip":
            b[rng.randrange(0, len(hb))] = rng.getrandbits(8)
        elif kind == "dup":
            k, v = rng.choice(ents)
            b = bytearray(fmt_header(ents + [(k, g.value(KEYS[k]))]) + data)
        elif kind == "unknown":
            b = bytearray(fmt_string(b"HEADER_START") + fmt_string(b"bogus") + bytes(hb[16:]) + data)
        else:
            b = bytearray(fmt_header([e for e in ents if e[0] != rng.choice(["nbits", "nchans"])]) + data)
        if max_prefix(bytes(b)) > 4096:
            continue
        write(bytes(b))
        try:
            d = sigproc.parse_header(path)
            items = table_items(d)
            if not all(isinstance(v, (int, float, str)) for _, v in items):
                continue
            out = f"(Some ({mheader(items)}, {d['hdrlen']}))"
        except Exception:  # noqa: BLE001  (UnicodeDecodeError included: the model's _read_string decodes strictly)
            out = "None"
        R.case(("Am", bytes(b)), nontrivial=True, regime="malformed_" + kind)
        corr.append((f"CParse {vlib.zlist(b)} {out}", {"kind": "parse-malformed", "how": kind, "bytes": bytes(b).hex()[:400]}))
    # strings that are not well-formed UTF-8, as a string value and as a key: model and implementation must agree (both refuse)
    for bi, bad in enumerate(BAD_UTF8):
        ents, hb, data = rng.choice(files)
        mark = "@@" + str(bi) + "@@"
        if bi % 4 == 3:
            b = fmt_header([e for e in ents if KEYS[e[0]] != "str"]).replace(fmt_string(b"nbits"), fmt_string(b"nbi" + bad)) + data
        else:
            sk = "source_name" if bi % 2 == 0 else "rawdatafile"
            b = fmt_header([e for e in ents if e[0] != sk] + [(sk, mark)]).replace(fmt_string(mark.encode()), fmt_string(bad)) + data
        write(b)
        try:
            d = sigproc.parse_header(path)
            out = f"(Some ({mheader(table_items(d))}, {d['hdrlen']}))"
        except Exception:  # noqa: BLE001
            out = "None"
        R.case(("Au", b), nontrivial=True, regime="malformed_utf8")
        corr.append((f"CParse {vlib.zlist(b)} {out}", {"kind": "parse-malformed", "how": "utf8", "string": bad.hex(), "bytes": b.hex()[:400]}))

    # encode_header on dictionaries with ill-typed / out-of-range values (model None <-> implementation raises)
    for i in range(40 if quick else 300):
        ents = list(rng.choice(files)[0])
        j = rng.randrange(len(ents))
        k = ents[j][0]
        code = KEYS[k]
        bad = rng.choice({"I": [-1, 2 ** 32, 1.5, "x", None], "b": [128, -129, 0.5, "x", None], "d": ["x", None, 1.0],
                          "str": [3, 2.5, None, "ok"]}[code])
        ents[j] = (k, bad)
        if rng.random() < 0.3:
            ents.insert(rng.randrange(len(ents) + 1), ("not_a_key", 1))
        try:
            out = sigproc.encode_header(dict(ents))
        except Exception:  # noqa: BLE001
            out = None
        R.case(("E", str(ents)), nontrivial=True, regime="encode_illtyped")
        dd = list(dict(ents).items())
        corr.append((f"CEnc {mheader(dd)} {mobytes(out)}", {"kind": "encode-illtyped", "entries": str(dd)[:300]}))

    # ---------------------------------------------------------------------------------------------------------
    # (B) Header -> prep_outfile -> Header.from_sigproc
    # ---------------------------------------------------------------------------------------------------------
    def mk(**kw):
        d = dict(filename="x.fil", data_type="filterbank", nchans=16, foff=-0.5, fch1=1400.0, nbits=8, tsamp=6.4e-5, tstart=60000.25, nsamples=0)
        d.update(kw)
        return Header(**d)

    def sexa_of(s):
        neg = s.startswith("-")
        a, b, c = s.lstrip("+-").split(":")
        return neg, int(a), int(b), int(Decimal(c) * S8)

    def roundtrip(h, feat):
        """write, read back, compare the fields the property lists"""
        case = {k: (str(v) if not isinstance(v, (int, float, str, bool)) else v) for k, v in
                dict(nchans=h.nchans, foff=h.foff, fch1=h.fch1, nbits=h.nbits, tsamp=h.tsamp, tstart=h.tstart, source=h.source, ra=h.ra, dec=h.dec,
                     azimuth=h.azimuth.deg, zenith=h.zenith.deg, telescope=h.telescope, backend=h.backend, ibeam=h.ibeam, nbeams=h.nbeams,
                     dm=h.dm, frame=h.frame).items()}
        try:
            w = h.prep_outfile(path)
            w.close()
        except Exception as e:  # noqa: BLE001
            fail(feat.get("raise_key", "write-raises"), f"prep_outfile raised {type(e).__name__}: {e}"[:200], case)
            return None
        try:
            q = Header.from_sigproc(path)
        except Exception as e:  # noqa: BLE001
            fail(feat.get("raise_key", "roundtrip-raises"), f"Header.from_sigproc raised {type(e).__name__} on a file written by prep_outfile: {e}"[:240], case)
            return None
        for name in ("nchans", "foff", "fch1", "nbits", "tsamp", "tstart", "ibeam", "nbeams", "dm"):
            if not same_value(getattr(q, name), getattr(h, name)) and getattr(q, name) != getattr(h, name):
                fail("field-" + name, f"{name} not preserved", {**case, "got": getattr(q, name)})
        if q.source != h.source:
            fail("string-nonascii" if not is_ascii(h.source) else "field-source", "source name not preserved", {**case, "got": q.source})
        if q.telescope != h.telescope:
            fail("ids-telescope", "telescope identity not preserved", {**case, "got": q.telescope})
        if q.backend != h.backend:
            fail("ids-backend", "backend identity not preserved", {**case, "got": q.backend})
        if q.frame != h.frame:
            fail("frame-pulsarcentric" if h.frame == "pulsarcentric" else "frame", "reference frame not preserved", {**case, "got": q.frame})
        for name in ("azimuth", "zenith"):
            want = getattr(h, name).to_value(u.deg)
            if not abs(getattr(q, name).to_value(u.deg) - want) <= 1e-9 * max(1.0, abs(want)):
                unit = str(getattr(h, name).unit)
                fail("field-" + name if unit == "deg" else "pointing-angle-units",
                     f"{name} not preserved (Header held it in {unit})",
                     {**case, name + "_unit": unit, name + "_value": float(getattr(h, name).value), "want_deg": want, "got_deg": getattr(q, name).to_value(u.deg)})
        sep = h.coord.separation(q.coord).arcsec
        if not sep <= 0.01:
            neg, d, m, s = sexa_of(h.dec)
            key = "dec-sign-lost" if (neg and d == 0) else "position"
            fail(key, f"sky position moved by {sep:.4f} arcsec", {**case, "got_ra": q.ra, "got_dec": q.dec})
        return q

    def radec_corr(h):
        """model of to_sigproc / parse_radec on this position"""
        sp = h.to_sigproc()
        for which, s, x in (("ra", h.ra, sp["src_raj"]), ("dec", h.dec, sp["src_dej"])):
            neg, d, m, sec = sexa_of(s)
            P = int(Decimal(repr(float(x))) * S8)
            corr.append((f"CPack (mk_sexa {'true' if neg else 'false'} {d} {m} {sec}) ({P})", {"kind": "pack", "which": which, "string": s, "packed": x}))
        try:
            c = sigproc.parse_radec(sp["src_raj"], sp["src_dej"])
            ra_out = f"(Some ({round(Decimal(repr(float(c.ra.hourangle))) * 3600 * S8)}))"
            de_out = f"(Some ({round(Decimal(repr(float(c.dec.deg))) * 3600 * S8)}))"
        except Exception:  # noqa: BLE001
            # the implementation raises for the pair; attribute it to the half whose seconds are in exponent notation
            ra_bad = 0 < sp["src_raj"] < 1e-4 and "." not in repr(sp["src_raj"]).split("e")[0]
            de_bad = 0 < abs(sp["src_dej"]) < 1e-4 and "." not in repr(abs(sp["src_dej"])).split("e")[0]
            if not (ra_bad or de_bad):
                return
            ra_out = "None" if ra_bad else None
            de_out = "None" if de_bad else None
        Pr = int(Decimal(repr(float(sp["src_raj"]))) * S8)
        Pd = int(Decimal(repr(float(sp["src_dej"]))) * S8)
        if ra_out is not None and Pr < 24 * 10 ** 12:      # RA printed as 24:00:00 wraps to 0 in SkyCoord: not compared
            corr.append((f"CUnRa ({Pr}) {ra_out}", {"kind": "unpack-ra", "src_raj": sp["src_raj"]}))
        if de_out is not None:
            corr.append((f"CUnDec ({Pd}) {de_out}", {"kind": "unpack-dec", "src_dej": sp["src_dej"]}))

    nB = 0
    # B1: every telescope, backend, frame (and unknown names, which are outside the property: model only)
    combos = [(t, b, f) for t in TELESCOPES for b in ["FAKE"] for f in ["topocentric"]] + \
             [("Fake", b, "topocentric") for b in MACHINES] + [(rng.choice(list(TELESCOPES)), rng.choice(list(MACHINES)), f) for f in FRAMES for _ in range(3)]
    for t, b, f in combos:
        h = mk(telescope=t, backend=b, frame=f, ibeam=g.uint(), nbeams=g.uint(), dm=abs(g.finite_double()) % 1e4)
        R.case(("B", t, b, f, h.ibeam), nontrivial=True, regime="ids_frames", sample={"kind": "B", "telescope": t, "backend": b, "frame": f} if nB < 1 else None)
        roundtrip(h, {})
        nB += 1
    # B1b: a time-series header (what dedispersed_header makes: the other data type of the format), the extreme finite
    # channelisation values Header.to_sigproc can take, and source names with a control / odd character at both ends
    for kw in (dict(data_type="time series", nchans=1, nbits=32, dm=56.75, frame="barycentric", telescope="Parkes", backend="BPSR"),
               dict(data_type="time series", nchans=1, nbits=8, foff=0.0, fch1=0.0)):
        R.case(("Bt", str(sorted(kw.items()))), nontrivial=True, regime="timeseries_header")
        roundtrip(mk(**kw), {"raise_key": "timeseries-raises"})
    for kw in (dict(fch1=1.7976931348623157e308, foff=-5e-324, dm=1e-300), dict(fch1=-1.7976931348623157e308, foff=1.7976931348623157e308, nchans=4),
               dict(fch1=5e-324, foff=2.2250738585072014e-308, dm=-0.0, tstart=0.0, tsamp=1e-9), dict(tsamp=9.999999e8, tstart=15020.0)):
        R.case(("Bx", str(sorted(kw.items()))), nontrivial=True, regime="extreme_fields")
        roundtrip(mk(**kw), {})
    for c in CTRL + ODD_MB:
        h = mk(source=c + "J0534+22" + c, rawdatafile="raw" + c + "0001.fil")
        R.case(("Bo", c), nontrivial=True, regime="source_oddchars")
        roundtrip(h, {} if is_ascii(c) else {"raise_key": "string-nonascii"})
    for name, idv in TELESCOPES.items():
        corr.append((f"CTelId {mkey(name)} {mk(telescope=name).telescope_id}", {"kind": "telescope_id", "name": name}))
    for name, idv in MACHINES.items():
        corr.append((f"CBeId {mkey(name)} {mk(backend=name).machine_id}", {"kind": "machine_id", "name": name}))
    for name in ["Unknown Dish", "fake", ""]:
        corr.append((f"CTelId {mkey(name)} {mk(telescope=name).telescope_id}", {"kind": "telescope_id", "name": name}))
        corr.append((f"CBeId {mkey(name)} {mk(backend=name).machine_id}", {"kind": "machine_id", "name": name}))
    base = [("nbits", 8), ("nchans", 4), ("tsamp", 1e-3), ("tstart", 60000.0), ("fch1", 1400.0), ("foff", -1.0)]
    for idv in sorted(set(TELESCOPES.values()) | set(MACHINES.values()) | {13, 63, 65, 2 ** 32 - 1}):
        write(fmt_header(base + [("telescope_id", idv), ("machine_id", idv)]))
        q = Header.from_sigproc(path)
        corr.append((f"CTelName {idv} {mkey(q.telescope)}", {"kind": "telescope_name", "id": idv}))
        corr.append((f"CBeName {idv} {mkey(q.backend)}", {"kind": "backend_name", "id": idv}))
    for fi, f in enumerate(FRAMES):
        sp = mk(frame=f).to_sigproc()
        write(fmt_header(base + [("pulsarcentric", sp["pulsarcentric"]), ("barycentric", sp["barycentric"])]))
        corr.append((f"CFrame {fi} {FRAMES.index(Header.from_sigproc(path).frame)}", {"kind": "frame", "frame": f}))

    # B2: positions on a sexagesimal grid
    secs = [0.0, 0.01, 30.0, 59.99, 59.99995, 59.999999996, 1e-5, 1.5e-5]
    grid = []
    for neg in (False, True):
        for d in (0, 1, 45, 89):
            for m in (0, 30, 59):
                for s in secs:
                    grid.append((neg, d, m, s))
    if quick:
        grid = [c for c in grid if c[1] in (0, 89) or c[3] in (0.0, 59.99995)] + rng.sample(grid, 20)
    for neg, d, m, s in grid:
        dec = (-1 if neg else 1) * (d + m / 60 + s / 3600)
        hh, mm = rng.choice([0, 5, 12, 23]), rng.choice([0, 30, 59])
        ss = rng.choice(secs[:6]) if not (d == 0 and m == 0 and s in (1e-5, 1.5e-5)) else 0.0
        ra = 15 * (hh + mm / 60 + ss / 3600)
        h = mk(coord=SkyCoord(ra, dec, unit="deg"))
        tiny = (d == 0 and m == 0 and s == 1e-5)
        R.case(("Bp", neg, d, m, s, hh, mm, ss), nontrivial=True, regime="pos_south_subdegree" if (neg and d == 0) else ("pos_tiny_seconds" if tiny else "pos_grid"),
               sample={"kind": "B", "ra": h.ra, "dec": h.dec} if (neg and d == 0 and m == 30 and s == 0.0) else None)
        roundtrip(h, {"raise_key": "radec-exponent"} if tiny else {})
        radec_corr(h)
    # tiny right-ascension seconds
    for s in (1e-5, 3e-6, 1.5e-5):
        h = mk(coord=SkyCoord(15 * s / 3600, 10.0, unit="deg"))
        R.case(("Bp-ra-tiny", s), nontrivial=True, regime="pos_tiny_seconds")
        sp = h.to_sigproc()
        tiny = 0 < sp["src_raj"] < 1e-4 and "." not in repr(sp["src_raj"]).split("e")[0]
        roundtrip(h, {"raise_key": "radec-exponent"} if tiny else {})
        radec_corr(h)
    # B4: pointing angles held in every angular unit (the SIGPROC keys are degrees whatever the Header's Angle uses)
    pvals = {"deg": [0.0, 33.25, 211.5, 359.875], "rad": [0.0, 0.4, 2.5, 6.25], "hourangle": [0.0, 2.0, 7.5, 23.5],
             "arcmin": [0.0, 900.0, 6000.0, 21599.5], "arcsec": [0.0, 3600.0, 123456.75, 1295999.0]}
    pcases = [(uz, vz, ua, va) for uz in pvals for ua in pvals for vz, va in [(pvals[uz][1], pvals[ua][2]), (pvals[uz][3], pvals[ua][0])]]
    if quick:
        pcases = [c for c in pcases if c[0] == c[2] or c[0] == "deg" or c[2] == "deg"] + rng.sample(pcases, 6)
    # ... and outside the usual ranges: negative, beyond a full turn / beyond the horizon, minus zero (the keys are plain doubles:
    # nothing may wrap, clip or take the absolute value), in every unit and across units
    pneg = {"deg": (-3.0, -10.5), "rad": (-0.0625, -0.25), "hourangle": (-0.25, -0.75), "arcmin": (-180.0, -630.0), "arcsec": (-10800.0, -37800.0)}
    pbig = {"deg": (123.0, 725.5), "rad": (2.125, 12.75), "hourangle": (8.25, 48.5), "arcmin": (7380.0, 43530.0), "arcsec": (442800.0, 2611800.0)}
    wide = [(un, pneg[un][0], un, pneg[un][1]) for un in pvals] + [(un, pbig[un][0], un, pbig[un][1]) for un in pvals] + \
           [("deg", pneg["deg"][0], "rad", pbig["rad"][1]), ("rad", pbig["rad"][0], "deg", pneg["deg"][1]),
            ("hourangle", pneg["hourangle"][0], "arcsec", pbig["arcsec"][1]), ("deg", -0.0, "deg", 0.0), ("rad", 0.0, "rad", -0.0)]
    pcases += wide
    for uz, vz, ua, va in pcases:
        # zenith angles beyond 90 deg are unphysical but legal for the field; keep them inside [0, 90] when the unit allows
        if (uz, vz, ua, va) in wide:
            pass
        elif u.Quantity(vz, uz).to_value(u.deg) > 90:
            vz = float(u.Quantity(45.0, u.deg).to_value(uz)) if uz != "deg" else 45.0
            vz = round(vz * 8) / 8
        h = mk(azimuth=Angle(va, unit=ua), zenith=Angle(vz, unit=uz))
        R.case(("Bu", uz, repr(vz), ua, repr(va)), nontrivial=True,
               regime="pointing_out_of_range" if (uz, vz, ua, va) in wide else ("pointing_units_deg" if (uz == ua == "deg") else "pointing_units_other"),
               sample={"kind": "B", "zenith": f"{vz} {uz}", "azimuth": f"{va} {ua}"} if (uz, ua) == ("rad", "hourangle") else None)
        q = roundtrip(h, {})
        if q is not None:
            raw = sigproc.parse_header(path)
            corr.append((f"CPoint ({qlit(vz)}, {UNITS[uz]}) ({qlit(va)}, {UNITS[ua]}) {qlit(float(raw['za_start']))} {qlit(float(raw['az_start']))} "
                         f"{qlit(float(q.zenith.to_value(u.deg)))} {qlit(float(q.azimuth.to_value(u.deg)))}",
                         {"kind": "pointing", "zenith": f"{vz} {uz}", "azimuth": f"{va} {ua}"}))
    # the Angle subclasses with a range of their own (they pass the Header's validator): stored as plain degrees
    for ua, va, uz, vz in (("deg", 211.5, "deg", 33.25), ("hourangle", 23.5, "rad", -0.5), ("rad", 6.25, "arcmin", 5399.5)):
        h = mk(azimuth=Longitude(va, unit=ua), zenith=Latitude(vz, unit=uz))
        R.case(("Bl", ua, va, uz, vz), nontrivial=True, regime="pointing_longitude_latitude")
        roundtrip(h, {})
    # B3: random headers
    for i in range(60 if quick else 4000):
        dec = rng.choice([rng.uniform(-90, 90), rng.uniform(-1, 0), rng.uniform(-1, 1), round(rng.uniform(-90, 90), 2)])
        ra = rng.choice([rng.uniform(0, 360), round(rng.uniform(0, 360), 3), 359.9999999])
        nonascii = (i % 10 == 9)
        # Header.to_sigproc evaluates every property of the header (chan_freqs allocates nchans floats, obs_time needs a
        # sampling time in [1e-9, 1e9) s -- see R.assume -- and an MJD astropy can represent): (B) stays inside that physical range, the extreme
        # uint32 / double values are exercised at the codec level in (A)
        def phys():
            x = g.finite_double()
            return x if abs(x) < 1e30 else rng.uniform(-1e6, 1e6)
        h = mk(nchans=rng.choice([1, 2, 1024, 65536, rng.randrange(1, 65537)]), foff=phys(), fch1=phys(),
               nbits=rng.choice([1, 2, 4, 8, 16, 32]), tsamp=10 ** rng.uniform(-9, 1), tstart=rng.choice([0.0, 40000 + rng.random() * 30000, 60000.0]),
               nifs=rng.choice([1, 2, 4]),
               coord=SkyCoord(ra, dec, unit="deg") if i % 4 else SkyCoord(math.radians(ra), math.radians(dec), unit="rad"),
               azimuth=Angle(rng.uniform(0, 360), unit=u.deg).to(rng.choice(list(UNITS))), zenith=Angle(rng.uniform(0, 90), unit=u.deg).to(rng.choice(list(UNITS))),
               telescope=rng.choice(list(TELESCOPES)), backend=rng.choice(list(MACHINES)), source=g.nonascii_str() if nonascii else g.ascii_str(),
               frame=rng.choice(FRAMES), ibeam=g.uint(), nbeams=g.uint(), dm=phys(), rawdatafile=g.ascii_str())
        R.case(("Br", i, h.ra, h.dec, h.source), nontrivial=True, regime="random_nonascii" if nonascii else "random_header")
        roundtrip(h, {"raise_key": "string-nonascii"} if nonascii else {})
        if i % 3 == 0:
            radec_corr(h)

    # ---------------------------------------------------------------------------------------------------------
    # (C) edit_header: whole-file comparison
    # ---------------------------------------------------------------------------------------------------------
    def edits_for(ents):
        have = dict(ents)
        out = []
        for k in rng.sample(list(have), min(len(have), 3)):
            code = KEYS[k]
            if code == "str":
                old = have[k]
                if is_ascii(old):
                    out += [(k, g.ascii_str(len(old))), (k, g.ascii_str(len(old) + 1)), (k, g.ascii_str(max(0, len(old) - 1)))]
                else:
                    out += [(k, g.ascii_str(len(old.encode())))]
            else:
                out += [(k, g.value(code))]
            out += [(k, rng.choice({"I": [-1, 2 ** 32, 1.5, "7"], "b": [128, -129, "1"], "d": ["1.0", 3], "str": [5, 1.5]}[code])), (k, None)]
        missing = [k for k in KEYS if k not in have]
        if missing:
            k = rng.choice(missing)
            out.append((k, g.value(KEYS[k])))
        out.append((rng.choice(["bogus", "hdrlen", "nsamples", "HEADER_END", ""]), 1))
        for k, v in ents:
            if KEYS[k] == "str" and is_ascii(v) and len(v) >= 3 and rng.random() < 0.5:
                out.append((k, "é" + g.ascii_str(len(v) - 2)))       # same byte length, one two-byte character
        for k, v in ents:
            if KEYS[k] == "str" and not is_ascii(v):
                # a multi-byte value replaced by one with the same number of characters AND of bytes: a valid edit of either
                # string key; for source_name also a shorter name whose blank padding restores both counts (only ASCII
                # characters dropped from the end)
                sw = g.same_length_swap(v)
                out.append((k, sw))
                tail = len(v) - len(v.rstrip("".join(chr(i) for i in range(128))))
                if k == "source_name" and tail and not is_ascii(sw[:len(v) - tail]):
                    out.append((k, sw[:len(v) - rng.randrange(1, tail + 1)]))
        # the same valid values as other numeric types (numpy scalars, bool), and the non-finite doubles
        for k, v in rng.sample(ents, min(len(ents), 2)):
            code = KEYS[k]
            if code == "I":
                out += [(k, np.uint32(g.uint())), (k, rng.choice([np.int64(g.uint()), True, np.uint8(200)]))]
            elif code == "b":
                out += [(k, np.int8(rng.randrange(-128, 128))), (k, rng.choice([True, False, np.int64(-128)]))]
            elif code == "d":
                out += [(k, np.float64(g.finite_double())), (k, rng.choice([np.float32(1.5), np.float32(-3.0e38), float("nan"), float("inf"), float("-inf")]))]
        return out

    nC = 0
    for ents, hb, data in (files if not quick else rng.sample(files, min(len(files), 60)) + [f for f in odd_files]):
        if not all(is_ascii(v) for _, v in ents if isinstance(v, str)) and rng.random() < 0.5 and (ents, hb, data) not in odd_files:
            continue
        for k, v in edits_for(ents):
            before = hb + data
            write(before)
            na = (isinstance(v, str) and not is_ascii(v)) or not all(is_ascii(x) for _, x in ents if isinstance(x, str))
            as_path = rng.random() < 0.3        # the file name as pathlib.Path (the signature takes both)
            case = {"entries": [(a, b if not isinstance(b, float) else repr(b)) for a, b in ents], "data_len": len(data), "key": k,
                    "value": v if not (isinstance(v, float) or type(v).__module__ == "numpy") else repr(v), "filename_as": "Path" if as_path else "str"}
            try:
                sigproc.edit_header(Path(path) if as_path else path, k, v)
                raised = None
            except Exception as e:  # noqa: BLE001
                raised = e
            after = read()
            nC += 1
            R.case(("C", hb, k, repr(v)), nontrivial=len(ents) >= 3, regime="edit_raises" if raised is not None else "edit_returns",
                   sample={"kind": "C", "key": k, "value": repr(v)[:30], "raised": type(raised).__name__ if raised else None} if nC <= 2 else None)
            if raised is not None:
                if after != before:
                    fail("edit-raise-modified", f"edit_header raised {type(raised).__name__} but the file changed", case)
            else:
                span = value_span(ents, k)
                cls = "string-nonascii" if na else None
                if len(after) != len(before) or after[len(hb):] != data:
                    fail(cls or "edit-ok-data", "edit_header returned but the header length or the data bytes changed", case)
                elif span is None:
                    fail(cls or "edit-ok-key-absent", "edit_header returned although the key is not in the file", case)
                else:
                    o, n = span
                    if after[:o] != before[:o] or after[o + n:] != before[o + n:]:
                        fail(cls or "edit-ok-otherbytes", "edit_header changed bytes outside the value of the edited key", case)
                    # the value now stored is the requested one (source_name: padded / truncated to the old length)
                    old = dict(ents)[k]
                    want = [v]
                    if KEYS[k] == "str" and isinstance(v, str):
                        want.append((v[:len(old)] + " " * (len(old) - len(v))))
                    if KEYS[k] == "d" and isinstance(v, int):
                        want = [float(v)]
                    try:
                        ok = any(after[o:o + n] == fmt_value(KEYS[k], w) for w in want)
                    except Exception:  # noqa: BLE001
                        ok = False
                    if not ok:
                        fail(cls or "edit-ok-value", "edit_header returned but the stored value is not the requested one", case)
            # (source names with multi-byte characters included: the model pads / truncates by characters as Python does)
            modelled = not (KEYS.get(k) == "d" and isinstance(v, int) and not isinstance(v, bool))
            if modelled and len(corr) < 4000 and (nC % (1 if quick else 4) == 0):
                corr.append((f"CEdit {vlib.zlist(before)} {mkey(k)} {mval(v)} {mobytes(None if raised is not None else after)}", {"kind": "edit", **case}))

    # ---------------------------------------------------------------------------------------------------------
    # modes of the current source, as the generator read them
    # ---------------------------------------------------------------------------------------------------------
    rc, out = vlib.coq_run("c05_modes", PRELUDE + "Eval vm_compute in (keylen_chars, vallen_chars, dec_sign_numeric, ra_sec_repr, dec_sec_repr, frames_ok, pointing_ok).\n")
    vals = vlib.parse_eval(out)
    modes = None
    if rc == 0 and vals:
        bl = re.findall(r"true|false", vals[0])
        if len(bl) == 7:
            modes = dict(zip(["keylen_chars", "vallen_chars", "dec_sign_numeric", "ra_sec_repr", "dec_sec_repr", "frames_ok", "pointing_ok"], [b == "true" for b in bl]))
    if modes is None:
        R.red.append("correspondence: could not evaluate the modes of Gen/C05Header.v: " + out[-300:])
    else:
        R.extra_cov["source_modes"] = modes
        full = not modes["vallen_chars"] and not modes["dec_sign_numeric"] and not modes["ra_sec_repr"] and not modes["dec_sec_repr"] \
            and modes["frames_ok"] and modes["pointing_ok"]
        R.notes.append("theorems of Props/C05.v reduce to their " + ("FULL-STRENGTH branches for this tree" if full else
                       "partial + refuted branches for this tree: " + ", ".join(k for k, v in modes.items() if v != (k in ("frames_ok", "pointing_ok")) and k != "keylen_chars")))
        predicted = {"string-nonascii": modes["vallen_chars"], "dec-sign-lost": modes["dec_sign_numeric"],
                     "radec-exponent": modes["ra_sec_repr"] or modes["dec_sec_repr"], "frame-pulsarcentric": not modes["frames_ok"]}
        if not modes["pointing_ok"] and not ({"pointing-angle-units", "field-azimuth", "field-zenith"} & seen_fail):
            R.red.append("the model of the current source predicts a pointing-angle defect but the oracle did not reproduce it")
        for key, pred in predicted.items():
            if pred and key not in seen_fail:
                R.red.append(f"the model of the current source predicts the defect '{key}' but the oracle did not reproduce it")

    # ---------------------------------------------------------------------------------------------------------
    # correspondence
    # ---------------------------------------------------------------------------------------------------------
    groups = {}
    for c, dsc in corr:
        groups.setdefault(dsc["kind"].split("-")[0], []).append((c, dsc))
    for name, cs in groups.items():
        run_cases(R, name.replace("_", ""), cs, name)
    R.extra_cov["correspondence_cases"] = len(corr)
    try:
        os.remove(path)
        os.rmdir(scratch)
    except OSError:
        pass
    return R


# ------------------------------------------------------------------------------------------------------------------
# at-scale search
# ------------------------------------------------------------------------------------------------------------------
_SCALE_MB = ["é", "Ω", "中", "\U0001f6f0"]        # 2, 2, 3 and 4 bytes in UTF-8
_SCALE_POW = (1 << 8, 1 << 16, 1 << 18, 1 << 20, 1 << 22, 1 << 24)


def _scale_text(nprng, nbytes, multibyte=False, lead=0):
    """a str whose UTF-8 encoding has exactly `nbytes` bytes: printable ASCII (no blanks) drawn from the numpy stream; with
    `multibyte`, multi-byte characters are laid over it (the byte count stays, the character count drops) so that one of them
    straddles every power-of-two byte offset of _SCALE_POW counted from the start of the string and counted from the start of
    the file (`lead` = file offset of the first byte of the string), plus the first bytes, the last bytes and 40 random places"""
    import numpy as np
    b = bytearray(nprng.integers(33, 127, nbytes, dtype=np.uint8).tobytes())
    if multibyte and nbytes >= 8:
        spots = [B - 1 for B in _SCALE_POW] + [B - lead - 1 for B in _SCALE_POW] + [0, nbytes - 4]
        spots += [int(x) for x in nprng.integers(0, nbytes - 4, 40)]
        used = []
        for i, o in enumerate(spots):
            enc = _SCALE_MB[(i + 3) % 4].encode()
            if o < 0 or o + len(enc) > nbytes or any(abs(o - a) < 4 for a in used):
                continue
            b[o:o + len(enc)] = enc
            used.append(o)
    return b.decode("utf-8")


def _scale_entries(nprng, spec):
    """header entries from a spec: a list of (key, value) where a value ("text", nbytes, multibyte) stands for _scale_text placed
    at the file offset it will have inside fmt_header"""
    off = len(fmt_string(b"HEADER_START"))
    ents = []
    for k, v in spec:
        off += len(fmt_string(k.encode()))
        if isinstance(v, tuple):
            v = _scale_text(nprng, v[1], v[2], lead=off + 4)
        ents.append((k, v))
        off += len(fmt_value(KEYS[k], v))
    return ents


def _scale_first_diff(a: bytes, b: bytes):
    import numpy as np
    n = min(len(a), len(b))
    x, y = np.frombuffer(a, dtype=np.uint8, count=n), np.frombuffer(b, dtype=np.uint8, count=n)
    ne = np.flatnonzero(x != y)
    return int(ne[0]) if ne.size else (n if len(a) != len(b) else None)


def _scale_diff(path, head, total, marks):
    """None when the file is byte-identical to `head` followed by zeros up to `total` bytes and overlaid with `marks`
    ({absolute offset: bytes}); otherwise a short description of the first difference.  Multi-gigabyte sparse files are compared
    exactly without reading their holes: the explicit regions (head, marks) are read, then every data extent the file system
    reports (SEEK_DATA / SEEK_HOLE); a hole reads as zeros by definition, which is what the image holds there."""
    import errno
    size = os.path.getsize(path)
    if size != total:
        return f"file length {size}, expected {total}"
    CH = 1 << 24

    def expected(a, e):
        buf = bytearray(e - a)
        if a < len(head):
            seg = head[a:min(e, len(head))]
            buf[:len(seg)] = seg
        for o, m in marks.items():
            lo, hi = max(a, o), min(e, o + len(m))
            if lo < hi:
                buf[lo - a:hi - a] = m[lo - o:hi - o]
        return bytes(buf)

    with open(path, "rb") as f:
        def cmp_range(a, e):
            while a < e:
                n = min(CH, e - a)
                f.seek(a)
                got, want = f.read(n), expected(a, a + n)
                if got != want:
                    k = _scale_first_diff(got, want)
                    return f"first differing byte at file offset {a + (k or 0)}"
                a += n
            return None
        r = cmp_range(0, min(len(head), total))
        for o, m in sorted(marks.items()):
            r = r or cmp_range(o, min(o + len(m), total))
        if r:
            return r
        off = len(head)
        fd = f.fileno()
        while off < total:
            try:
                a = os.lseek(fd, off, os.SEEK_DATA)
            except OSError as ex:
                if ex.errno == errno.ENXIO:        # no data beyond `off`
                    break
                a = off                  # extents not supported here: read everything
                e = total
            else:
                e = min(os.lseek(fd, a, os.SEEK_HOLE), total)
            r = cmp_range(a, e)
            if r:
                return r
            off = max(e, off + 1)
    return None


def scale(R: vlib.Run):
    """at-scale search (run when something no longer checks, and in the thorough tier).  Same three demands as run(), on inputs
    that are large in every dimension a header has:
      (A) parse_header -> encode_header on headers whose strings have 255..2**24+1 bytes (ASCII and multi-byte UTF-8 with characters
          straddling the power-of-two offsets), i.e. headers of up to 20 MiB with keys before and after the long value, followed by
          data sections of 2**24+3 bytes and (sparse) of 2**31 and 2**32 bytes +- a few;
      (B) Header -> prep_outfile -> Header.from_sigproc with 2**16-1 .. 2**24+1 channels, beam indices and sample counts around
          2**16, 2**24, 2**31, 2**32, source names of 2**16-1 .. 2**24+1 bytes, a data section beyond 2**32 bytes, hundreds of
          positions (dense near the poles, the equator and 24h) and pointing angles in every unit, and 150 generations of
          write -> parse -> write;
      (C) edit_header on those large headers / large files (whole-file comparison, sparse files through their data extents) and a
          history of 4000 successive valid and invalid edits of one file against an independently maintained byte image."""
    import gc
    import random
    import shutil
    import numpy as np
    from astropy import units as u
    from astropy.coordinates import Angle, SkyCoord
    from sigpyproc.header import Header
    from sigpyproc.io import sigproc
    warnings.filterwarnings("ignore")

    seed = R.seed + 505
    d = os.path.join(vlib.SCRATCH, f"c05s_{os.getpid()}")
    os.makedirs(d, exist_ok=True)
    path = os.path.join(d, "s.fil")

    def gen(name, idx):
        return f"props/c05.py scale(): {name}, numpy.random.default_rng([{seed}, {idx}])"

    def short(v):
        if isinstance(v, str) and len(v) > 40:
            return f"<str of {len(v)} chars / {len(v.encode())} bytes: {v[:12]!r}...>"
        return repr(v) if isinstance(v, float) else v

    def describe(ents):
        return [(k, short(v)) for k, v in ents]

    def table_items(dd):
        return [(k, v) for k, v in dd.items() if k in sigproc.header_keys]

    # ---- a file image: entries, header bytes, explicit data bytes, total length, marks ---------------------------------
    def image(ents, tail=b"", total=None, marks=None):
        hb = fmt_header(ents)
        return {"ents": list(ents), "hb": hb, "tail": tail, "total": len(hb) + len(tail) if total is None else total, "marks": dict(marks or {})}

    def fresh(F):
        with open(path, "wb") as f:
            f.write(F["hb"])
            f.write(F["tail"])
            if F["total"] > len(F["hb"]) + len(F["tail"]):
                f.truncate(F["total"])
                for o, m in F["marks"].items():
                    f.seek(o)
                    f.write(m)

    def sparse_image(ents, datalen, nprng):
        """header + `datalen` bytes of zeros carrying a few random marks (first / last data bytes, around every power-of-two file
        offset): the file occupies a few blocks on disk"""
        hb = fmt_header(ents)
        total = len(hb) + datalen
        marks = {}
        for o in [len(hb), total - 5] + [B - 2 for B in (1 << 16, 1 << 22, 1 << 24, 1 << 31, 1 << 32) if len(hb) + 8 < B < total - 16]:
            marks[o] = bytes(int(x) for x in nprng.integers(1, 256, 5))
        return image(ents, b"", total, marks)

    def sparse_ok():
        """does the scratch file system keep a truncated file sparse and report its extents?"""
        try:
            with open(path, "wb") as f:
                f.truncate((1 << 32) + 11)
                f.seek(1 << 31)
                f.write(b"x")
            st = os.stat(path)
            fd = os.open(path, os.O_RDONLY)
            try:
                a = os.lseek(fd, 0, os.SEEK_DATA)
                e = os.lseek(fd, a, os.SEEK_HOLE)
            finally:
                os.close(fd)
            return st.st_blocks * 512 < (1 << 24) and a > 0 and e - a < (1 << 24)
        except (OSError, AttributeError):
            return False
        finally:
            try:
                os.remove(path)
            except OSError:
                pass

    # ---- (A) at scale ---------------------------------------------------------------------------------------------------
    def check_parse(F, case):
        """bytes of a well-formed header -> parse_header -> encode_header reproduces the bytes (file already written)"""
        ents, hb = F["ents"], F["hb"]
        R.tick(case)
        try:
            dd = sigproc.parse_header(path)
        except Exception as e:  # noqa: BLE001
            R.fail("scale-parse-raises", f"parse_header raised {type(e).__name__} on a well-formed header at scale: {str(e)[:100]}", case)
            return
        got = table_items(dd)
        if [k for k, _ in got] != [k for k, _ in ents] or not all(same_value(a, b) for (_, a), (_, b) in zip(got, ents)) \
                or dd.get("hdrlen") != len(hb):
            badk = [k for (k, a), (_, b) in zip(got, ents) if not same_value(a, b)]
            R.fail("scale-parse-values", "parse_header at scale returned other values / header length than the bytes hold",
                   {**case, "keys_differing": badk[:5], "hdrlen_got": dd.get("hdrlen"), "hdrlen_want": len(hb)})
        R.tick(case)
        try:
            back = sigproc.encode_header(dd)
        except Exception as e:  # noqa: BLE001
            R.fail("scale-reencode-raises", f"encode_header(parse_header(bytes)) at scale raised {type(e).__name__}: {str(e)[:100]}", case)
            return
        if back != hb:
            R.fail("scale-reencode-bytes", "encode_header(parse_header(bytes)) != bytes at scale",
                   {**case, "len_got": len(back), "len_want": len(hb), "first_diff": _scale_first_diff(back, hb)})

    # ---- (C) at scale ---------------------------------------------------------------------------------------------------
    def check_edit(F, k, v, case):
        """one edit_header call on the file holding image F; on success the image is advanced, otherwise the file is rewritten"""
        ents, hb, tail, total, marks = F["ents"], F["hb"], F["tail"], F["total"], F["marks"]
        case = {**case, "key": k, "value": short(v)}
        R.tick(case)
        try:
            sigproc.edit_header(path, k, v)
            raised = None
        except Exception as e:  # noqa: BLE001
            raised = type(e).__name__       # not the exception: its traceback would keep the implementation's frames (and their 16 MiB strings) alive
        if raised is not None:
            df = _scale_diff(path, hb + tail, total, marks)
            if df is not None:
                R.fail("scale-edit-raise-modified", f"edit_header at scale raised {raised} but the file changed: {df}", case)
                fresh(F)
            return "raised"
        span = value_span(ents, k)
        if span is None:
            R.fail("scale-edit-ok-key-absent", "edit_header at scale returned although the key is not in the file", case)
            fresh(F)
            return "bad"
        o, n = span
        old = dict(ents)[k]
        want = [v]
        if KEYS[k] == "str" and isinstance(v, str):
            want.append(v[:len(old)] + " " * (len(old) - len(v)))
        if KEYS[k] == "d" and isinstance(v, int):
            want = [float(v)]
        for w in want:
            try:
                enc = fmt_value(KEYS[k], w)
            except Exception:  # noqa: BLE001
                continue
            if len(enc) != n:
                continue
            new_hb = hb[:o] + enc + hb[o + n:]
            if _scale_diff(path, new_hb + tail, total, marks) is None:
                F["hb"] = new_hb
                F["ents"] = [(a, (w if a == k else b)) for a, b in ents]
                return "ok"
        # classify as run() does
        size = os.path.getsize(path)
        with open(path, "rb") as f:
            ah = f.read(len(hb))
        if size != total or len(ah) != len(hb):
            R.fail("scale-edit-ok-data", f"edit_header at scale returned but the file length changed ({total} -> {size})", case)
        elif ah[:o] != hb[:o] or ah[o + n:] != hb[o + n:]:
            k1 = _scale_first_diff(ah[:o], hb[:o])
            k2 = _scale_first_diff(ah[o + n:], hb[o + n:])
            R.fail("scale-edit-ok-otherbytes", "edit_header at scale changed header bytes outside the value of the edited key "
                   f"(value at {o}..{o + n}, first foreign byte changed at {k1 if k1 is not None else o + n + k2})", case)
        else:
            df = _scale_diff(path, ah + tail, total, marks)
            if df is not None:
                R.fail("scale-edit-ok-data", f"edit_header at scale returned but the data bytes changed: {df}", case)
            else:
                R.fail("scale-edit-ok-value", "edit_header at scale returned but the stored value is not the requested one", case)
        fresh(F)
        return "bad"

    # ---- (B) at scale ---------------------------------------------------------------------------------------------------
    def mk(**kw):
        dd = dict(filename="x.fil", data_type="filterbank", nchans=16, foff=-0.5, fch1=1400.0, nbits=8, tsamp=6.4e-5, tstart=60000.25, nsamples=0)
        dd.update(kw)
        return Header(**dd)

    def roundtrip(h, case, after_write=None):
        """write, read back, compare the fields the property lists (same demands and tolerances as run())"""
        R.tick(case)
        try:
            w = h.prep_outfile(path)
            w.close()
            if after_write is not None:
                after_write()
        except Exception as e:  # noqa: BLE001
            R.fail("scale-write-raises", f"prep_outfile at scale raised {type(e).__name__}: {e}"[:200], case)
            return None
        R.tick(case)
        try:
            q = Header.from_sigproc(path)
        except Exception as e:  # noqa: BLE001
            R.fail("scale-roundtrip-raises", f"Header.from_sigproc raised {type(e).__name__} on a file written by prep_outfile at scale: {e}"[:240], case)
            return None
        for name in ("nchans", "foff", "fch1", "nbits", "tsamp", "tstart", "ibeam", "nbeams", "dm"):
            if not same_value(getattr(q, name), getattr(h, name)) and getattr(q, name) != getattr(h, name):
                R.fail("scale-field-" + name, f"{name} not preserved at scale", {**case, "want": getattr(h, name), "got": getattr(q, name)})
        if q.source != h.source:
            R.fail("scale-field-source", "source name not preserved at scale",
                   {**case, "got": short(q.source), "first_diff_byte": _scale_first_diff(q.source.encode("utf-8", "replace"), h.source.encode())})
        if q.telescope != h.telescope:
            R.fail("scale-ids-telescope", "telescope identity not preserved at scale", {**case, "got": q.telescope})
        if q.backend != h.backend:
            R.fail("scale-ids-backend", "backend identity not preserved at scale", {**case, "got": q.backend})
        if q.frame != h.frame:
            R.fail("scale-frame", "reference frame not preserved at scale", {**case, "got": q.frame})
        for name in ("azimuth", "zenith"):
            want = getattr(h, name).to_value(u.deg)
            if not abs(getattr(q, name).to_value(u.deg) - want) <= 1e-9 * max(1.0, abs(want)):
                R.fail("scale-field-" + name, f"{name} not preserved at scale (Header held it in {getattr(h, name).unit})",
                       {**case, "want_deg": want, "got_deg": getattr(q, name).to_value(u.deg)})
        sep = h.coord.separation(q.coord).arcsec
        if not sep <= 0.01:
            R.fail("scale-position", f"sky position moved by {sep:.4f} arcsec at scale", {**case, "ra": h.ra, "dec": h.dec, "got_ra": q.ra, "got_dec": q.dec})
        return q

    try:
        can_sparse = sparse_ok()
        if not can_sparse:
            R.notes.append("at-scale search: the scratch file system does not keep truncated files sparse / report extents; "
                           "the cases with data sections of 2**31 and 2**32 bytes were skipped")
        BIGU = [65535, 65536, 65537, (1 << 24) + 1, (1 << 31) - 1, 1 << 31, (1 << 32) - 1]

        # ===== (A)+(C): long strings =====================================================================================
        lengths = [255, 256, 257, 65535, 65536, 65537, (1 << 18) + 1, (1 << 20) - 1, 1 << 20, (1 << 20) + 1,
                   (1 << 22) - 1, 1 << 22, (1 << 22) + 1, (1 << 24) - 1, 1 << 24, (1 << 24) + 1]
        tableA = []
        for i, L in enumerate(lengths):
            key = "source_name" if i % 2 == 0 else "rawdatafile"
            if L < (1 << 24) - 1:
                tableA += [(key, L, False, 11), (key, L, True, 11)]
            else:
                tableA.append((key, L, L != (1 << 24) - 1, 11))
        tableA.append(("rawdatafile", (1 << 24) + 1, False, 70001))        # both strings long
        tableA.append(("source_name", (1 << 22) + 1, True, (1 << 22) + 3))
        for idx, (key, L, mb, L2) in enumerate(tableA):
            nprng = np.random.default_rng([seed, idx])
            other = "rawdatafile" if key == "source_name" else "source_name"
            spec = [("telescope_id", int(nprng.choice(BIGU))), ("machine_id", 10), (key, ("text", L, mb)),
                    ("nchans", int(nprng.choice(BIGU))), ("fch1", 1400.0 + float(nprng.random())), (other, ("text", L2, mb and L2 > 11)),
                    ("nbits", int(nprng.choice([1, 2, 4, 8, 16, 32]))), ("foff", -0.5), ("tsamp", 6.4e-5), ("tstart", 60000.0 + float(nprng.random())),
                    ("ibeam", int(nprng.choice(BIGU))), ("src_raj", 123456.789), ("src_dej", -3015.5)]
            ents = _scale_entries(nprng, spec)
            data = nprng.integers(0, 256, 131, dtype=np.uint8).tobytes()
            F = image(ents, data)
            fresh(F)
            base = {"what": "long header strings", "long_key": key, "nbytes": L, "multibyte": mb, "other_string_nbytes": L2, "hdrlen": len(F["hb"]),
                    "data_len": len(data), "entries": describe(ents), "data": gen("long-string table row " + str(idx), idx)}
            R.case(("scale", "A-str", key, L, mb, L2), regime="scale")
            check_parse(F, base)
            # edits of this file: numeric keys before / after the long value, the long value itself, ill-typed and absent keys
            oldO = dict(ents)[other]
            edits = [("nbits", 16), ("telescope_id", (1 << 32) - 1), ("ibeam", -1),
                     (key, _scale_text(nprng, L, False)), ("source_name", _scale_text(nprng, len(dict(ents)["source_name"]) + 1, False)),
                     ("rawdatafile", _scale_text(nprng, len(dict(ents)["rawdatafile"].encode()) + 1, False))]
            if L < (1 << 24) - 1:
                edits += [("source_name", _scale_text(nprng, max(0, len(dict(ents)["source_name"]) // 2), False)), ("refdm", 1.5), ("tstart", "x"),
                          (other, _scale_text(nprng, len(oldO.encode()), False)), (key, _scale_text(nprng, L, True)), ("tstart", 59000.5)]
            for j, (k, v) in enumerate(edits):
                R.case(("scale", "C-str", key, L, mb, L2, j), regime="scale")
                check_edit(F, k, v, {**base, "what": "edit of a file with long header strings", "edit_no": j,
                                     "edits_before": [(a, short(b)) for a, b in edits[:j]]})
            del F, ents, oldO, edits
            gc.collect()

        # ===== (A)+(C): large data sections ==============================================================================
        def full_spec(nprng, nbits, nchans):
            return [("telescope_id", 64), ("machine_id", 32), ("data_type", 1), ("rawdatafile", ("text", 300, False)), ("source_name", ("text", 40, False)),
                    ("barycentric", 0), ("pulsarcentric", 1), ("az_start", 359.875), ("za_start", 89.5), ("src_raj", 235959.99999999), ("src_dej", -895959.99999999),
                    ("tstart", 99999.99999999999), ("tsamp", 1e-9), ("nbits", nbits), ("signed", -128), ("fch1", 1.7976931348623157e308), ("foff", -5e-324),
                    ("nchans", nchans), ("nifs", (1 << 32) - 1), ("refdm", 9999.999999999998), ("ibeam", (1 << 32) - 1), ("nbeams", 1 << 31)]
        idx0 = 100
        nprng = np.random.default_rng([seed, idx0])
        ents = _scale_entries(nprng, full_spec(nprng, 8, 1))
        H = len(fmt_header(ents))
        bigs = [("dense", (1 << 24) + 3, 8, 1)]
        if can_sparse:
            bigs += [("sparse", (1 << 31) - H, 8, 1), ("sparse", (1 << 31) + 5, 32, 65537), ("sparse", (1 << 32) - H, 1, 1), ("sparse", (1 << 32) + 9, 2, 3)]
        for bi, (kind, datalen, nbits, nchans) in enumerate(bigs):
            idx = idx0 + bi
            nprng = np.random.default_rng([seed, idx])
            ents = _scale_entries(nprng, full_spec(nprng, nbits, nchans))
            if kind == "dense":
                F = image(ents, nprng.integers(0, 256, datalen, dtype=np.uint8).tobytes())
            else:
                F = sparse_image(ents, datalen, nprng)
            fresh(F)
            base = {"what": "large data section", "kind": kind, "hdrlen": len(F["hb"]), "data_len": datalen, "file_len": F["total"],
                    "marks_at": sorted(F["marks"]), "entries": describe(ents), "data": gen(f"large-data table row {bi}", idx)}
            R.case(("scale", "A-data", kind, datalen), regime="scale")
            check_parse(F, base)
            edits = [("nchans", 77), ("nbits", -1), ("source_name", _scale_text(nprng, 17, False)), ("source_name", _scale_text(nprng, 77, False)),
                     ("rawdatafile", _scale_text(nprng, 299, False)), ("rawdatafile", _scale_text(nprng, 300, False)), ("bogus", 1),
                     ("refdm", 0.25), ("signed", 127), ("signed", 128), ("fch1", "1400"), ("tstart", 60000)]
            for j, (k, v) in enumerate(edits):
                R.case(("scale", "C-data", kind, datalen, j), regime="scale")
                check_edit(F, k, v, {**base, "what": "edit of a file with a large data section", "edit_no": j,
                                     "edits_before": [(a, short(b)) for a, b in edits[:j]]})
            del F

        # ===== (C): a long history of edits of one file ===================================================================
        idx = 200
        prng = random.Random(seed * 1000 + idx)
        g = G(prng)
        nprng = np.random.default_rng([seed, idx])
        order = list(KEYS)
        prng.shuffle(order)
        ents = []
        for k in order:
            if k == "nbits":
                v = 8
            elif k == "nchans":
                v = 4
            elif KEYS[k] == "str":
                v = g.ascii_str(prng.choice([16, 40]))
            else:
                v = g.value(KEYS[k])
            ents.append((k, v))
        F = image(ents, bytes(prng.getrandbits(8) for _ in range(64)))
        fresh(F)
        nsteps, outcome = 4000, {"ok": 0, "raised": 0, "bad": 0}
        base = {"what": "history of successive edits of one file", "data": f"props/c05.py scale(): history, random.Random({seed * 1000 + idx}), all {nsteps} steps "
                "are regenerated by replaying the generator", "entries_at_start": describe(ents)}
        recent = []
        for step in range(nsteps):
            k = prng.choice(order)
            code = KEYS[k]
            c = prng.random()
            if c < 0.7:
                if k in ("nbits", "nchans"):
                    v = prng.choice([1, 2, 4, 8, 16, 32, 65536, (1 << 32) - 1, prng.randrange(1, 1 << 32)])    # zero would make the file unparseable
                elif code == "str":
                    n0 = len(dict(F["ents"])[k])
                    v = g.ascii_str(n0 if k != "source_name" else prng.choice([n0, n0, n0 + prng.randrange(1, 9), max(0, n0 - prng.randrange(1, 9))]))
                else:
                    v = g.value(code)
            elif c < 0.9:
                v = prng.choice({"I": [-1, 2 ** 32, 1.5, "7"], "b": [128, -129, "1"], "d": ["1.0", 3], "str": [5, 1.5]}[code] + [None])
                if code == "str" and prng.random() < 0.5:
                    v = g.ascii_str(len(dict(F["ents"])[k]) + prng.choice([-1, 1]) if k != "source_name" else 0)
            else:
                k, v = prng.choice(["bogus", "hdrlen", "nsamples", "HEADER_END", ""]), 1
            R.case(("scale", "C-history", step), regime="scale")
            res = check_edit(F, k, v, {**base, "step": step, "previous_edits": list(recent)})
            outcome[res] += 1
            recent = (recent + [(k, short(v), res)])[-6:]
            if outcome["bad"] >= 5:
                break
        if outcome["bad"] == 0:
            R.case(("scale", "A-after-history"), regime="scale")
            check_parse(F, {**base, "what": "parse -> encode of the file after the history of edits", "steps": nsteps, "outcomes": dict(outcome)})
        R.extra_cov["scale_edit_history"] = dict(outcome)

        # ===== (B): Header -> file -> Header at scale =====================================================================
        idx = 300
        nprng = np.random.default_rng([seed, idx])
        TEL, MAC, UN = list(TELESCOPES), list(MACHINES), list(UNITS)

        def pick(seq):
            return seq[int(nprng.integers(len(seq)))]
        # B1: channel counts, beam indices, sample counts, epochs
        for nch in (65535, 65536, 65537, (1 << 18) + 1, 1 << 20, (1 << 22) + 1, (1 << 24) + 1):
            kw = dict(nchans=nch, nbits=pick([1, 2, 4, 8, 16, 32]), ibeam=pick(BIGU), nbeams=pick(BIGU), nsamples=pick([0, (1 << 31) + 7, 1 << 40]),
                      foff=-400.0 / nch, fch1=800.0, tsamp=pick([1e-9, 6.4e-5, 10.0]), tstart=pick([0.0, 99999.99999999999, 60000.123456789012]),
                      dm=pick([0.0, 9999.999999999998, 1e-300]), telescope=pick(TEL), backend=pick(MAC), frame=pick(FRAMES))
            case = {"what": "Header round trip, many channels", **kw, "data": gen("channel-count table", idx)}
            R.case(("scale", "B-nchans", nch), regime="scale")
            roundtrip(mk(**kw), case)
        # B2: long source names (and raw data file names, which move the offsets of the later keys)
        for j, (L, mb, L2) in enumerate([(65535, False, 0), (65536, True, 70000), (65537, False, 0), ((1 << 20) + 1, True, 0), ((1 << 22) + 1, False, (1 << 20) + 1),
                                         ((1 << 22) + 1, True, 0), ((1 << 24) + 1, True, 0), ((1 << 24) + 1, False, 65537)]):
            nprng2 = np.random.default_rng([seed, idx + 1 + j])
            src, raw = _scale_text(nprng2, L, mb, lead=300), _scale_text(nprng2, L2, False)
            case = {"what": "Header round trip, long source name", "source_nbytes": L, "multibyte": mb, "rawdatafile_nbytes": L2,
                    "data": gen("_scale_text(nprng, L, mb, lead=300) then _scale_text(nprng, L2)", idx + 1 + j)}
            R.case(("scale", "B-source", L, mb, L2), regime="scale")
            roundtrip(mk(source=src, rawdatafile=raw, ibeam=pick(BIGU), nbeams=pick(BIGU)), case)
            del src, raw
        # B3: a data section beyond 2**31 / 2**32 bytes behind the written header
        if can_sparse:
            for extra in ((1 << 31) + 5, (1 << 32) + 9):
                def grow(extra=extra):
                    with open(path, "r+b") as f:
                        f.truncate(os.path.getsize(path) + extra)
                kw = dict(nchans=3, nbits=2, ibeam=65536, nbeams=(1 << 32) - 1, frame="pulsarcentric", telescope="MeerKAT", backend="MWAX-RTB",
                          coord=SkyCoord(359.99, -0.25, unit="deg"), azimuth=Angle(6.25, unit="rad"), zenith=Angle(5399.5, unit="arcmin"), dm=1234.5678)
                case = {"what": "Header round trip, file extended by a sparse data section", "data_len": extra,
                        **{k: str(v) for k, v in kw.items()}, "data": "props/c05.py scale(): B3"}
                R.case(("scale", "B-bigdata", extra), regime="scale")
                roundtrip(mk(**kw), case, after_write=grow)
        # B4: hundreds of positions and pointing angles (dense near the poles, the equator, 24h; every unit)
        idx = 400
        nprng = np.random.default_rng([seed, idx])
        npos = 500
        for i in range(npos):
            c = nprng.random()
            if c < 0.25:
                dec = float(nprng.uniform(-90, 90))
            elif c < 0.45:
                dec = -float(10 ** nprng.uniform(-9, 0))                      # southern, less than a degree
            elif c < 0.6:
                dec = float(pick([-1, 1])) * (90 - float(10 ** nprng.uniform(-9, 0)))   # near a pole
            elif c < 0.8:                                                  # seconds / minutes about to carry
                dec = float(pick([-1, 1])) * (int(nprng.integers(0, 90)) + pick([0, 30, 59]) / 60 + (60 - float(10 ** nprng.uniform(-9, -1))) / 3600)
            else:
                dec = round(float(nprng.uniform(-90, 90)), int(nprng.integers(0, 4)))
            c = nprng.random()
            if c < 0.5:
                ra = float(nprng.uniform(0, 360))
            elif c < 0.7:
                ra = 360 - float(10 ** nprng.uniform(-10, 0))
            elif c < 0.85:
                ra = 15 * (int(nprng.integers(0, 24)) + pick([0, 30, 59]) / 60 + (60 - float(10 ** nprng.uniform(-9, -1))) / 3600)
            else:
                ra = float(10 ** nprng.uniform(-10, 0))
            dec = max(-90.0, min(90.0, dec))
            uz, ua = pick(UN), pick(UN)
            zen = Angle(float(nprng.uniform(0, 90)), unit=u.deg).to(uz)
            az = Angle(float(pick([nprng.uniform(0, 360), 360 - 10 ** nprng.uniform(-9, 0), 10 ** nprng.uniform(-9, 0)])), unit=u.deg).to(ua)
            coord = SkyCoord(ra, dec, unit="deg") if i % 4 else SkyCoord(math.radians(ra), math.radians(dec), unit="rad")
            h = mk(coord=coord, azimuth=az, zenith=zen, frame=pick(FRAMES), telescope=pick(TEL), backend=pick(MAC), ibeam=pick(BIGU), nbeams=pick(BIGU))
            case = {"what": "Header round trip, position / pointing sweep", "i": i, "ra_deg": ra, "dec_deg": dec, "built_in": "deg" if i % 4 else "rad",
                    "zenith": f"{zen.value!r} {uz}", "azimuth": f"{az.value!r} {ua}", "data": gen(f"position sweep, draw number {i} of {npos}", idx)}
            R.case(("scale", "B-pos", i), regime="scale")
            q = roundtrip(h, case)
            if q is not None and i % 4 == 0:
                # the same composition without the file: to_sigproc -> parse_radec
                R.tick(case)
                try:
                    sp = h.to_sigproc()
                    c2 = sigproc.parse_radec(sp["src_raj"], sp["src_dej"])
                    sep = h.coord.separation(c2).arcsec
                    if not sep <= 0.01:
                        R.fail("scale-position", f"parse_radec(to_sigproc()) moved the sky position by {sep:.4f} arcsec", {**case, "src_raj": sp["src_raj"], "src_dej": sp["src_dej"]})
                except Exception as e:  # noqa: BLE001
                    R.fail("scale-roundtrip-raises", f"to_sigproc / parse_radec raised {type(e).__name__}: {e}"[:200], case)
        # B5: generations: write -> parse -> write -> ... (each generation must preserve the fields of the one before)
        idx = 500
        nprng = np.random.default_rng([seed, idx])
        h = mk(nchans=4096, foff=-0.0732421875, fch1=1510.123456789, nbits=2, tsamp=7.65625e-05, tstart=58123.456789012345, nifs=1,
               coord=SkyCoord(float(nprng.uniform(0, 360)), -float(nprng.uniform(0, 1)), unit="deg"), azimuth=Angle(float(nprng.uniform(0, 6.28)), unit="rad"),
               zenith=Angle(float(nprng.uniform(0, 5400)), unit="arcmin"), telescope="Effelsberg LOFAR", backend="PULSAR2000", source=_scale_text(nprng, 300, True),
               frame="pulsarcentric", ibeam=(1 << 32) - 1, nbeams=65536, dm=float(nprng.uniform(0, 3000)), rawdatafile=_scale_text(nprng, 70000, False))
        first = h
        for gen_no in range(150):
            case = {"what": "generations of write -> parse", "generation": gen_no, "data": gen("B5 header; every generation is the parse of the one before", idx)}
            R.case(("scale", "B-generation", gen_no), regime="scale")
            q = roundtrip(h, case)
            if q is None:
                break
            h = q
        else:
            if h.source != first.source or h.frame != first.frame or h.telescope != first.telescope or h.backend != first.backend \
                    or any(getattr(h, n) != getattr(first, n) for n in ("nchans", "foff", "fch1", "nbits", "tsamp", "tstart", "ibeam", "nbeams", "dm")):
                R.fail("scale-generation-drift", "after 150 generations of write -> parse the exactly-preserved fields (channelisation, times, beams, DM, names, frame) are not the original ones",
                       {"what": "generations of write -> parse", "generations": 150, "data": gen("B5 header", idx)})
    finally:
        shutil.rmtree(d, ignore_errors=True)
