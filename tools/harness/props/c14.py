"""C14 -- time-domain filters and decimators equal their definitions.

Proof: Props/C14.v over Gen/Kernels.v (the two compiled mean kernels) and Gen/C14_stats.v (pad sizes / slice of
running_filter, kernel-call argument order, NumPy crop/reshape/axes, call sites, detrend_1d over Q), all regenerated
from the source on every run.
Correspondence: the executable model (Model/C14_filters.v composed with the generated definitions) under vm_compute
versus the implementation on the same inputs; the two modelling assumptions (NumPy symmetric pad = index map `sym`,
bottleneck moving window = aggregate of the trailing w entries) are checked on the same sweep.
Oracle: the property restated with NumPy index arithmetic / exact fractions, evaluated against the implementation."""
import re
from fractions import Fraction

import numpy as np

import vlib

DTYPES = [("float32", np.float32), ("float64", np.float64), ("uint8", np.uint8)]
METHODS = ("mean", "median")


# ------------------------------------------------------------------------------------------------
# the property in plain NumPy
# ------------------------------------------------------------------------------------------------

def sym_idx(n, k):
    m = np.mod(k, 2 * n)
    return np.where(m < n, m, 2 * n - 1 - m)


def spec_running(x, w, method):
    """window of width w centred on each sample (offsets -(w//2) .. w-1-(w//2)), series reflected symmetrically"""
    n = len(x)
    idx = sym_idx(n, np.arange(n)[:, None] - w // 2 + np.arange(w)[None, :])
    win = x.astype(np.float64)[idx]
    return win.mean(axis=1) if method == "mean" else np.median(win, axis=1)


def spec_ds1(x, f, method):
    n = len(x)
    op = np.mean if method == "mean" else np.median
    return np.array([op(x[i * f:(i + 1) * f].astype(np.float64)) for i in range(n // f)], dtype=np.float64)


def spec_ds2(x, f1, f2, method):
    d1, d2 = x.shape
    op = np.mean if method == "mean" else np.median
    out = np.empty((d1 // f1, d2 // f2), dtype=np.float64)
    for i in range(d1 // f1):
        for j in range(d2 // f2):
            out[i, j] = op(x[i * f1:(i + 1) * f1, j * f2:(j + 1) * f2].astype(np.float64))
    return out


def spec_detrend_exact(vals):
    """least-squares residual of a straight-line fit, exact rationals"""
    m = len(vals)
    if m == 1:
        return [Fraction(0)]
    y = [Fraction(v.item() if hasattr(v, "item") else v) for v in vals]      # exact for whole numbers and for binary fractions alike
    sx = Fraction(m * (m - 1), 2)
    sxx = Fraction(m * (m - 1) * (2 * m - 1), 6)
    sy = sum(y)
    sxy = sum(i * v for i, v in enumerate(y))
    slope = (m * sxy - sx * sy) / (m * sxx - sx * sx)
    icpt = (sy - slope * sx) / m
    return [v - (slope * i + icpt) for i, v in enumerate(y)]


def tol_for(out):
    return (1e-5, 1e-4) if out.dtype == np.float32 else (1e-12, 1e-9)


def agrees(out, exp, in_dtype=None):
    """values equal the definition up to the rounding of the output dtype; for an integer input dtype the value may
    also be the definition converted to that dtype at the very end (the mean kernels store into array.dtype)"""
    out = np.asarray(out)
    exp = np.asarray(exp, dtype=np.float64)
    if out.shape != exp.shape:
        return False
    if out.dtype.kind == "f":
        rt, at = tol_for(out)
        return bool(np.allclose(out.astype(np.float64), exp, rtol=rt, atol=at))
    if in_dtype is not None and out.dtype == np.dtype(in_dtype):
        return bool(np.array_equal(out, exp.astype(in_dtype)))
    return False


# the APIs that STORE a group mean into an array of the input's dtype (the compiled mean kernels: `result = np.empty(.., dtype=array.dtype)`);
# only for these, and only for the mean, may an integer input give "the definition converted to that dtype at the very end".  Everything
# else (np.mean / np.median paths: downsample_2d, FilterbankBlock.downsample, every median) has to return the floating mean / median.
INT_STORE_APIS = frozenset({"downsample_1d", "downsample_2d_flat", "kernels.downsample_1d_mean", "kernels.downsample_1d_mean_parallel",
                            "kernels.downsample_2d_mean_flat", "kernels.downsample_2d_mean_parallel", "TimeSeries.downsample"})


def store_dtype(api, method, dt):
    """the `in_dtype` argument of `agrees` / `_scale_diff` for this call: the input dtype where the API stores into it, else None"""
    return dt if (api in INT_STORE_APIS and method == "mean") else None


def L(a):
    return [x.item() if hasattr(x, "item") else x for x in np.asarray(a).ravel().tolist()]


# ------------------------------------------------------------------------------------------------

def run(R: vlib.Run):
    from sigpyproc.block import FilterbankBlock
    from sigpyproc.core import kernels, stats
    from sigpyproc.header import Header
    from sigpyproc.timeseries import TimeSeries
    import bottleneck as bn

    # (a) every API of the property is a query: whatever array it is given must be bit-identical afterwards.  The sweeps below
    # go through these guards (which also restore the array, so that each sweep case stays a statement about ONE call);
    # the histories of section 6 use the raw modules, so that a modification persists and shows in the later results.
    stats_raw, kernels_raw = stats, kernels

    def same_bits(a, b):
        return a.dtype == b.dtype and a.shape == b.shape and a.tobytes() == b.tobytes()

    def report_mutation(api, before, after, how):
        R.fail(f"input-mutated-{api}", f"{api} modified the array it was given (a filter / decimator must leave its input bit-identical)",
               {"api": api, "call": how, "dtype": str(before.dtype), "shape": list(before.shape),
                "input_before": L(before)[:400], "input_after": L(after)[:400]})

    class Guard:
        def __init__(self, mod, prefix):
            self._mod, self._prefix = mod, prefix

        def __getattr__(self, name):
            fn = getattr(self._mod, name)
            api = f"{self._prefix}{name}"

            def g(*args, **kw):
                arrs = [a for a in args if isinstance(a, np.ndarray)]
                before = [a.copy() for a in arrs]
                try:
                    return fn(*args, **kw)
                finally:
                    for a, b in zip(arrs, before):
                        if not same_bits(a, b):
                            report_mutation(api, b, a.copy(), f"{api}(" + ", ".join(repr(x) for x in args if not isinstance(x, np.ndarray)) + ")")
                            a[...] = b
            return g

    stats, kernels = Guard(stats_raw, ""), Guard(kernels_raw, "kernels.")

    def guarded_method(api, obj, how, call):
        """call() uses obj (TimeSeries / FilterbankBlock): obj.data must be bit-identical afterwards"""
        before = obj.data.copy()
        try:
            return call()
        finally:
            if not same_bits(obj.data, before):
                report_mutation(api, before, obj.data.copy(), how)
                obj.data[...] = before

    quick = R.tier == "quick"
    R.rule = ("running filter: every length 1..N x every width 1..3n+1 x {mean, median} x {float32, float64, uint8} (exhaustive over "
              "the shape lattice, integer-valued random content so that the definition is exact); decimators: every length 1..N x "
              "every factor 1..n, every shape up to D x D x every factor pair, both methods, three dtypes, 1-D / 2-D / flat / kernels / "
              "parallel kernels; every call is followed by a bit-identity check of the array it was given; histories of 2-5 calls on ONE "
              "array / TimeSeries / block (all ordered pairs for n = 5, 8, 13, then random) are compared with the definition on the original data; detrend: lengths 1..N, three dtypes, plus lengths around 2^16 and beyond the int64 limit of the closed "
              "form; TimeSeries.deredden/downsample and FilterbankBlock.downsample on non-square shapes; every API again on strided / reversed / "
              "Fortran-ordered / transposed / read-only arrays, on signed binary fractions (k/8) in the floating dtypes, with windows of 5n .. 64n+1 and "
              "1526 bins for n <= 8, deredden windows a quarter bin off w bins for three sampling times and with fast=True below 202 bins, one "
              "float32 pedestal block with groups of 8192.  An integer result is accepted only from the APIs that store the mean into the "
              "input's dtype (the compiled kernels and their wrappers), never from the NumPy paths or a median.  A case is non-trivial if "
              "the input has >= 2 samples; distinct = distinct (function, shape, parameters, dtype, method)")
    R.trusted += [
        "Coq 8.16.1 kernel + vm_compute (correspondence, witnesses, examples)",
        "tools/py2coq translator (Gen/Kernels.v) and its plug-in tools/py2coq/gen_c14.py (Gen/C14_stats.v): Python ast -> Gallina; assumed numba "
        "semantics: prange runs each iteration once, int64 + - * wrap, float64 accumulator sums integer-valued data exactly, np.empty is arbitrary",
        "hand model Model/C14_filters.v: np.pad(mode='symmetric') as the index map sym (validated here for every pad incl. pad > length; proved equal, for "
        "every pad pair, to Model/C14_nppad.v, a hand transcription of NumPy's chunk-by-chunk _set_reflect_both loop that is itself run against np.pad), "
        "C-order reshape + reduction over axes (1,3) as index arithmetic, composition pad -> moving window -> slice",
        "bottleneck move_mean/move_median are a Section variable specified as 'aggregate of the trailing w entries' (validated here on the same sweep)",
        "NumPy median/mean as the aggregate (parameter `agg`); float32/float64 rounding (theorems are over exact integers / rationals)",
        "correspondence harness and oracle tools/harness/props/c14.py",
    ]
    R.assume += ["numba compiles the kernels according to their Python text",
                 "sample values are integers with exactly representable sums (the generators guarantee it)",
                 "TimeSeries.deredden converts seconds to bins with round(window / tsamp); windows within a quarter of a bin of a whole number "
                 "of bins are exercised (three sampling times), exact half-bin windows (Python's round-half-even) are not",
                 "decimation factors are Python ints: the decimators refuse NumPy integer scalars (np.int64(3)) with ValueError "
                 "(isinstance(factor, int)); the generators draw every factor from range() / randrange()",
                 "TimeSeries.deredden(fast=True) is held to the definition only below 2 * min_points = 202 bins, where running_filter_fast "
                 "does not decimate (ds_factor == 1); its approximate regime above that width is outside the property",
                 "float32 group means of non-integer data are held to rtol 1e-5 on the NumPy paths (np.mean accumulates a float32 block in "
                 "float32: 2e-6 measured on a 1000 +- 10 pedestal with 4096-sample groups) and to 1e-6 on the compiled kernels (float64 accumulator)"]
    proved = R.prove("Props/C14.v")

    rng = R.rng
    nprng = np.random.default_rng(rng.randrange(2 ** 32))
    NMAX = 40 if quick else 72
    DMAX = 7 if quick else 11

    def rand_int_array(shape, dt, kind=None):
        kind = kind or rng.choice(["uniform", "uniform", "high", "ramp"] + (["big", "big"] if dt is np.float64 else []))
        n = int(np.prod(shape))
        if kind == "big":           # integers that a float32 accumulator cannot hold; float64 sums stay exact
            a = (1 << 30) + nprng.integers(0, 1000, n)
        elif kind == "high":          # sums overflow uint8 immediately; float32 sums stay exact
            a = nprng.integers(200, 256, n)
        elif kind == "ramp":
            a = (np.arange(n) * rng.randrange(1, 5) + rng.randrange(0, 20)) % 256
        elif kind == "dyadic":        # signed binary fractions k / 8 (floating dtypes only, never drawn by default): sums stay exact
            a = nprng.integers(-2048, 2048, n) / 8.0
        else:
            a = nprng.integers(0, 256, n)
        return a.reshape(shape).astype(dt)

    corr_rf, corr_ds, corr_det = [], [], []     # correspondence cases collected on the way

    # ---- 1. running filter ---------------------------------------------------------------------
    assumption_bad = 0
    for n in range(1, NMAX + 1):
        for dname, dt in DTYPES:
            x = rand_int_array((n,), dt)
            for w in range(1, 3 * n + 2):
                pl, pr = w // 2, (w // 2 if w % 2 else w // 2 - 1)
                # modelling assumptions, checked against NumPy and bottleneck themselves
                padded_model = x[sym_idx(n, np.arange(-pl, n + pr))]
                try:
                    padded_np = np.pad(x, (pl, pr), "symmetric")
                    if not np.array_equal(padded_np, padded_model):
                        assumption_bad += 1
                        if assumption_bad <= 3:
                            R.disagree("assumption: np.pad(mode='symmetric') differs from the index map sym",
                                       {"x": L(x), "pad": [pl, pr], "numpy": L(padded_np), "model": L(padded_model)})
                except Exception as e:  # noqa: BLE001
                    R.disagree(f"assumption: np.pad raised {type(e).__name__}", {"x": L(x), "pad": [pl, pr]})
                for method in METHODS:
                    mv = (bn.move_mean if method == "mean" else bn.move_median)(padded_model, w)
                    winm = np.lib.stride_tricks.sliding_window_view(padded_model.astype(np.float64), w)
                    ref = winm.mean(axis=1) if method == "mean" else np.median(winm, axis=1)
                    if not agrees(mv[w - 1:], ref):
                        assumption_bad += 1
                        if assumption_bad <= 3:
                            R.disagree(f"assumption: bottleneck move_{method} is not the aggregate of the trailing w entries",
                                       {"a": L(padded_model), "w": w, "bn": L(mv[w - 1:]), "expected": L(ref)})
                    parity = "even" if w % 2 == 0 else "odd"
                    wide = "wide" if w > n else "narrow"
                    R.case(("rf", n, w, dname, method), nontrivial=n >= 2, regime=f"running_filter/{parity}/{wide}",
                           sample={"fn": "running_filter", "x": L(x), "w": w, "method": method, "dtype": dname} if (n, w, dname) == (5, 8, "uint8") else None)
                    exp = spec_running(x, w, method)
                    case = {"x": L(x), "dtype": dname, "window": w, "method": method, "expected": L(exp)}
                    try:
                        out = stats.running_filter(x, w, method)
                    except Exception as e:  # noqa: BLE001
                        R.fail(f"running_filter-{method}-{parity}-{wide}", f"running_filter raised {type(e).__name__}: {e}", case)
                        continue
                    if out.shape != (n,):
                        R.fail(f"running_filter-length-{parity}-{wide}", "output length differs from the input length", dict(case, got=L(out)))
                    elif not agrees(out, exp):
                        R.fail(f"running_filter-{method}-{parity}-{wide}",
                               "running filter differs from the aggregate of the centred, symmetrically reflected window", dict(case, got=L(out)))
                    if n <= 9 and dname == "float64" and (w <= 12 or w in (2 * n, 2 * n + 1, 3 * n, 3 * n + 1)):
                        scale = w if method == "mean" else 2
                        corr_rf.append((L(x.astype(np.int64)), w, method == "median", [int(round(float(v) * scale)) for v in out]))

    # ---- 2. decimation of a series ----------------------------------------------------------------
    for n in range(1, NMAX + 1):
        for dname, dt in DTYPES:
            x = rand_int_array((n,), dt)
            for f in range(1, n + 1):
                for method in METHODS:
                    R.case(("ds1", n, f, dname, method), nontrivial=n >= 2, regime=f"downsample_1d/{method}",
                           sample={"fn": "downsample_1d", "x": L(x), "factor": f, "method": method, "dtype": dname} if (n, f, dname) == (7, 3, "uint8") else None)
                    exp = spec_ds1(x, f, method)
                    kindk = "int" if dt is np.uint8 else "float"
                    case = {"x": L(x), "dtype": dname, "factor": f, "method": method, "expected": L(exp)}
                    try:
                        out = stats.downsample_1d(x, f, method)
                    except Exception as e:  # noqa: BLE001
                        R.fail(f"downsample_1d-{method}-{kindk}", f"downsample_1d raised {type(e).__name__}: {e}", case)
                        continue
                    if not agrees(out, exp, store_dtype("downsample_1d", method, dt)):
                        R.fail(f"downsample_1d-{method}-{kindk}", "entry i is not the mean/median of x[i f : (i+1) f] (length floor(n/f))", dict(case, got=L(out)))
                    if n <= 12 and (dname != "float32"):
                        if method == "mean":
                            vals = [int(v) for v in out] if dt is np.uint8 else [int(round(float(v) * f)) for v in out]
                        else:
                            vals = [int(round(float(v) * 2)) for v in out]
                        corr_ds.append(("d1", method == "median", dt is np.uint8, L(x.astype(np.int64)), [f], vals))
                # the kernel and its parallel twin directly
                if dt is not np.uint8 or True:
                    for kname in ("downsample_1d_mean", "downsample_1d_mean_parallel"):
                        if kname.endswith("parallel") and (n % 3 or f % 2):
                            continue
                        out = getattr(kernels, kname)(x, f)
                        R.case(("k1", kname, n, f, dname), nontrivial=n >= 2, regime=f"kernel/{kname}")
                        if not agrees(out, spec_ds1(x, f, "mean"), dt):
                            R.fail(f"kernel-{kname}", "kernel differs from the group mean", {"x": L(x), "dtype": dname, "factor": f, "got": L(out)})

    # group sizes whose reciprocal is not exact enough: an exactly divisible sum times (1 / f) falls one ulp short, and a
    # store into an integer array then truncates it to the integer below (means that are whole numbers must come out whole)
    for f in (49, 98, 103, 107) if quick else (49, 98, 103, 107, 161, 187, 196, 197, 206, 214, 237, 239, 249, 253):
        for n in (f, 2 * f + 5):
            for dname, dt in DTYPES:
                for kind in ("const", "ramp4", "uniform"):
                    if kind == "const":
                        x = np.full(n, rng.randrange(1, 256)).astype(dt)
                    elif kind == "ramp4":
                        x = ((13 + 4 * np.arange(n)) % 256).astype(dt)
                    else:
                        x = rand_int_array((n,), dt, kind="uniform")
                    kindk = "int" if dt is np.uint8 else "float"
                    for method in METHODS:
                        R.case(("ds1r", n, f, dname, method, kind), regime=f"downsample_1d/{method}/reciprocal-sensitive")
                        exp = spec_ds1(x, f, method)
                        out = stats.downsample_1d(x, f, method)
                        if not agrees(out, exp, store_dtype("downsample_1d", method, dt)):
                            R.fail(f"downsample_1d-{method}-{kindk}", "entry i is not the mean/median of x[i f : (i+1) f] (group size whose reciprocal is inexact)",
                                   {"x": L(x), "dtype": dname, "factor": f, "method": method, "expected": L(exp), "got": L(out)})
                        if method == "mean" and n == f and dname != "float32":
                            vals = [int(v) for v in out] if dt is np.uint8 else [int(round(float(v) * f)) for v in out]
                            corr_ds.append(("d1", False, dt is np.uint8, L(x.astype(np.int64)), [f], vals))
                    for kname in ("downsample_1d_mean", "downsample_1d_mean_parallel"):
                        out = getattr(kernels, kname)(x, f)
                        R.case(("k1r", kname, n, f, dname, kind), regime=f"kernel/{kname}")
                        if not agrees(out, spec_ds1(x, f, "mean"), dt):
                            R.fail(f"kernel-{kname}", "kernel differs from the group mean (group size whose reciprocal is inexact)",
                                   {"x": L(x), "dtype": dname, "factor": f, "got": L(out)})
    for (d1, d2, f1, f2) in [(7, 7, 7, 7), (8, 15, 7, 7), (1, 49, 1, 49), (49, 2, 49, 1), (14, 8, 14, 7), (2, 103, 1, 103)]:
        for dname, dt in DTYPES:
            for kind in ("const", "uniform"):
                x = (np.full((d1, d2), rng.randrange(1, 256)) if kind == "const" else rand_int_array((d1, d2), dt, kind="uniform")).astype(dt)
                kindk = "int" if dt is np.uint8 else "float"
                exp = spec_ds2(x, f1, f2, "mean")
                case = {"x": L(x), "shape": [d1, d2], "dtype": dname, "factors": [f1, f2], "method": "mean", "expected": L(exp)}
                R.case(("ds2r", d1, d2, f1, f2, dname, kind), regime="downsample_2d_flat/mean/reciprocal-sensitive")
                outf = stats.downsample_2d_flat(x.ravel(), f1, f2, d1, d2, "mean")
                if not agrees(outf, exp.ravel(), dt):
                    R.fail(f"downsample_2d_flat-mean-{kindk}", "flat entry k is not the mean of its group (group size whose reciprocal is inexact)", dict(case, got=L(outf)))
                out2 = stats.downsample_2d(x, (f1, f2), "mean")
                if not agrees(out2, exp, store_dtype("downsample_2d", "mean", dt)):
                    R.fail(f"downsample_2d-mean-{kindk}", "entry (i, j) is not the mean of its group (group size whose reciprocal is inexact)", dict(case, got=L(out2)))
                outp = kernels.downsample_2d_mean_parallel(x.ravel(), f1, f2, d1, d2)
                if not agrees(outp, exp.ravel(), dt):
                    R.fail("kernel-downsample_2d_mean_parallel", "parallel kernel differs from the group mean (group size whose reciprocal is inexact)", dict(case, got=L(outp)))
                if dname != "float32":
                    vf = [int(v) for v in outf] if dt is np.uint8 else [int(round(float(v) * f1 * f2)) for v in outf]
                    corr_ds.append(("d2f", False, dt is np.uint8, L(x.astype(np.int64)), [d1, d2, f1, f2], vf))

    # ---- 3. decimation of a block -----------------------------------------------------------------
    for d1 in range(1, DMAX + 1):
        for d2 in range(1, DMAX + 1):
            for dname, dt in DTYPES:
                x = rand_int_array((d1, d2), dt)
                for f1 in range(1, d1 + 1):
                    for f2 in range(1, d2 + 1):
                        for method in METHODS:
                            exp = spec_ds2(x, f1, f2, method)
                            kindk = "int" if dt is np.uint8 else "float"
                            case = {"x": L(x), "shape": [d1, d2], "dtype": dname, "factors": [f1, f2], "method": method, "expected": L(exp)}
                            R.case(("ds2", d1, d2, f1, f2, dname, method), nontrivial=d1 * d2 >= 2, regime=f"downsample_2d/{method}",
                                   sample=dict(case, fn="downsample_2d") if (d1, d2, f1, f2, dname, method) == (3, 5, 2, 2, "uint8", "mean") else None)
                            try:
                                out = stats.downsample_2d(x, (f1, f2), method)
                                if not agrees(out, exp, store_dtype("downsample_2d", method, dt)):
                                    R.fail(f"downsample_2d-{method}-{kindk}", "entry (i, j) is not the aggregate of rows i f1.. and columns j f2..", dict(case, got=L(out), got_shape=list(out.shape)))
                            except Exception as e:  # noqa: BLE001
                                R.fail(f"downsample_2d-{method}-{kindk}", f"downsample_2d raised {type(e).__name__}: {e}", case)
                                out = None
                            R.case(("ds2f", d1, d2, f1, f2, dname, method), nontrivial=d1 * d2 >= 2, regime=f"downsample_2d_flat/{method}")
                            try:
                                outf = stats.downsample_2d_flat(x.ravel(), f1, f2, d1, d2, method)
                                if not agrees(outf, exp.ravel(), store_dtype("downsample_2d_flat", method, dt)):
                                    R.fail(f"downsample_2d_flat-{method}-{kindk}", "flat entry k is not the aggregate of group (k // nd2, k % nd2)", dict(case, got=L(outf)))
                            except Exception as e:  # noqa: BLE001
                                R.fail(f"downsample_2d_flat-{method}-{kindk}", f"downsample_2d_flat raised {type(e).__name__}: {e}", case)
                                outf = None
                            if d1 <= 5 and d2 <= 5 and dname != "float32" and out is not None and outf is not None:
                                sc = (f1 * f2) if method == "mean" else 2
                                v2 = [int(round(float(v) * sc)) for v in out.ravel()]
                                if method == "mean" and dt is np.uint8:
                                    vf = [int(v) for v in outf]
                                else:
                                    vf = [int(round(float(v) * sc)) for v in outf]
                                corr_ds.append(("d2", method == "median", False, L(x.astype(np.int64)), [d1, d2, f1, f2], v2))
                                corr_ds.append(("d2f", method == "median", dt is np.uint8, L(x.astype(np.int64)), [d1, d2, f1, f2], vf))
                        if (f1 + f2) % 2 == 0:
                            outp = kernels.downsample_2d_mean_parallel(x.ravel(), f1, f2, d1, d2)
                            R.case(("k2p", d1, d2, f1, f2, dname), nontrivial=d1 * d2 >= 2, regime="kernel/downsample_2d_mean_parallel")
                            if not agrees(outp, spec_ds2(x, f1, f2, "mean").ravel(), dt):
                                R.fail("kernel-downsample_2d_mean_parallel", "parallel kernel differs from the group mean",
                                       {"x": L(x), "shape": [d1, d2], "dtype": dname, "factors": [f1, f2], "got": L(outp)})

    # a few larger non-square shapes (row / column roles), random factors
    for _ in range(12 if quick else 60):
        d1, d2 = rng.randrange(2, 40), rng.randrange(2, 90)
        f1, f2 = rng.randrange(1, d1 + 1), rng.randrange(1, d2 + 1)
        dname, dt = rng.choice(DTYPES)
        x = rand_int_array((d1, d2), dt)
        for method in METHODS:
            exp = spec_ds2(x, f1, f2, method)
            kindk = "int" if dt is np.uint8 else "float"
            R.case(("ds2L", d1, d2, f1, f2, dname, method), regime=f"downsample_2d/{method}/large")
            case = {"seed": R.seed, "shape": [d1, d2], "dtype": dname, "factors": [f1, f2], "method": method, "x": L(x)}
            if not agrees(stats.downsample_2d(x, (f1, f2), method), exp, store_dtype("downsample_2d", method, dt)):
                R.fail(f"downsample_2d-{method}-{kindk}", "entry (i, j) is not the aggregate of its group (large shape)", case)
            if not agrees(stats.downsample_2d_flat(x.ravel(), f1, f2, d1, d2, method), exp.ravel(), store_dtype("downsample_2d_flat", method, dt)):
                R.fail(f"downsample_2d_flat-{method}-{kindk}", "flat entry is not the aggregate of its group (large shape)", case)

    # ---- 4. detrend --------------------------------------------------------------------------------
    def check_detrend(vals, dname, dt, key, what):
        x = np.asarray(vals).astype(dt)
        m = len(x)
        R.case(("det", m, dname, key, tuple(L(x)[:8])), nontrivial=m >= 2, regime=f"detrend/{dname}",
               sample={"fn": "detrend_1d", "x": L(x), "dtype": dname} if (m, dname) == (3, "float64") else None)
        case = {"x": L(x) if m <= 64 else f"{what}", "dtype": dname, "length": m}
        try:
            out = kernels.detrend_1d(x)
        except Exception as e:  # noqa: BLE001
            R.fail(key, f"detrend_1d raised {type(e).__name__}: {str(e)[:200]}", case)
            return None
        if out.shape != (m,):
            R.fail(key, "detrend_1d output length differs", dict(case, got_shape=list(out.shape)))
            return None
        if m <= 64:
            exp = np.array([float(v) for v in spec_detrend_exact(L(x))])
        else:
            i = np.arange(m, dtype=np.float64)
            xf = x.astype(np.float64)
            sl, ic = np.polyfit(i - i.mean(), xf, 1)
            exp = xf - (sl * (i - i.mean()) + ic)
        scale = max(1.0, float(np.abs(x.astype(np.float64)).max()))
        tol = (2e-5 if out.dtype == np.float32 else 1e-9) * scale * (1 if m <= 64 else 50)
        o = out.astype(np.float64)
        err = float(np.abs(o - exp).max())
        s0 = abs(float(o.sum())) / m
        s1 = abs(float((np.arange(m) * o).sum())) / (m * max(m - 1, 1))
        if err > tol or s0 > tol or s1 > tol:
            R.fail(key, "detrend_1d is not the least-squares residual (normal equations sum r = 0, sum i r = 0 violated)",
                   dict(case, got=L(out) if m <= 64 else L(out[:6]), expected=L(exp) if m <= 64 else L(exp[:6]),
                        max_abs_error=err, mean_residual=s0, mean_first_moment=s1, out_dtype=str(out.dtype)))
        return out

    for m in range(1, NMAX + 1):
        for dname, dt in DTYPES:
            vals = rand_int_array((m,), np.int64, kind=rng.choice(["uniform", "ramp"]))
            vals = vals % 200
            key = "detrend_1d-integer-dtype" if dt is np.uint8 else "detrend_1d-float"
            out = check_detrend(vals, dname, dt, key, "small")
            if out is not None and m <= 12:
                corr_det.append((dname, L(vals), out))
    for m in (255, 256, 257, 300, 65535, 65537):
        vals = (np.arange(m) * 3 + nprng.integers(0, 50, m)) % 251
        for dname, dt in DTYPES:
            check_detrend(vals, dname, dt, "detrend_1d-integer-dtype" if dt is np.uint8 else "detrend_1d-float", f"(3 i + noise) mod 251, length {m}")
    # lengths on both sides of the largest m for which m (m-1) (2m-1) fits int64 (1664511), and well beyond
    for m in (1664511, 1664512, 2097152 + 5) + (() if quick else (5000011,)):
        i = np.arange(m)
        vals = 0.5 * i + 3.0 + (i % 7)
        check_detrend(vals, "float64", np.float64, "detrend_1d-large-length", f"0.5 i + 3 + (i mod 7), length {m}")

    # ---- 5. TimeSeries / FilterbankBlock ---------------------------------------------------------------
    tsamp = 0.00032768   # w * tsamp / tsamp is not always exactly w in floating point: the conversion to bins must round

    def ts_of(x):
        h = Header(filename="c14.tim", data_type="time series", nchans=1, foff=-1.0, fch1=1500.0, nbits=32, tsamp=tsamp,
                   tstart=60000.0, nsamples=len(x))
        return TimeSeries(x, h)

    for n in list(range(1, 14)) + [rng.randrange(14, NMAX + 1) for _ in range(4)]:
        x = rand_int_array((n,), np.float32)
        ts = ts_of(x)
        for w in sorted(set(list(range(1, min(3 * n + 2, 16))) + [2 * n, 2 * n + 1, 3 * n + 1])):
            for method in METHODS:
                R.case(("dered", n, w, method), nontrivial=n >= 2, regime="deredden")
                exp = x.astype(np.float64) - spec_running(x, w, method)
                try:
                    out = guarded_method("TimeSeries.deredden", ts, f"deredden({method!r}, window={w} bins)", lambda: ts.deredden(method, window=w * tsamp).data)
                    if not agrees(out, exp):
                        R.fail(f"deredden-{method}", "de-reddened series is not the input minus its running filter",
                               {"x": L(x), "window_bins": w, "method": method, "got": L(out), "expected": L(exp)})
                except Exception as e:  # noqa: BLE001
                    R.fail(f"deredden-{method}", f"deredden raised {type(e).__name__}: {e}", {"x": L(x), "window_bins": w, "method": method})
        for f in range(1, n + 1):
            for method in METHODS:
                R.case(("tsds", n, f, method), nontrivial=n >= 2, regime="TimeSeries.downsample")
                try:
                    out = guarded_method("TimeSeries.downsample", ts, f"downsample({f}, {method!r})", lambda: ts.downsample(f, method).data)
                    if not agrees(out, spec_ds1(x, f, method)):
                        R.fail(f"timeseries-downsample-{method}", "TimeSeries.downsample is not the group aggregate",
                               {"x": L(x), "factor": f, "method": method, "got": L(out)})
                    if n <= 13:          # correspondence with the call-site model (ts_downsample_*_model): f * mean resp. 2 * median, exact integers
                        sc = f if method == "mean" else 2
                        corr_ds.append(("ts", method == "median", False, L(x.astype(np.int64)), [f], [int(round(float(v) * sc)) for v in np.asarray(out)]))
                except Exception as e:  # noqa: BLE001
                    R.fail(f"timeseries-downsample-{method}", f"TimeSeries.downsample raised {type(e).__name__}: {e}", {"x": L(x), "factor": f})
    for nchans, nsamps in [(1, 1), (1, 5), (4, 1), (3, 7), (6, 4), (5, 9)] + [(rng.randrange(2, 12), rng.randrange(2, 30)) for _ in range(3)]:
        x = rand_int_array((nchans, nsamps), np.float32)
        hb = Header(filename="c14.fil", data_type="filterbank", nchans=nchans, foff=-1.0, fch1=1500.0, nbits=32, tsamp=tsamp,
                    tstart=60000.0, nsamples=nsamps)
        blk = FilterbankBlock(x, hb)
        for ff in range(1, nchans + 1):
            for tf in range(1, nsamps + 1):
                for method in METHODS:
                    R.case(("blk", nchans, nsamps, ff, tf, method), nontrivial=nchans * nsamps >= 2, regime="FilterbankBlock.downsample")
                    try:
                        out = guarded_method("FilterbankBlock.downsample", blk, f"downsample({ff}, {tf}, {method!r})", lambda: blk.downsample(ff, tf, method).data)
                        if not agrees(out, spec_ds2(x, ff, tf, method)):
                            R.fail(f"block-downsample-{method}", "FilterbankBlock.downsample is not the aggregate over ffactor channels x tfactor samples",
                                   {"x": L(x), "shape": [nchans, nsamps], "ffactor": ff, "tfactor": tf, "method": method, "got": L(out), "got_shape": list(out.shape)})
                    except Exception as e:  # noqa: BLE001
                        R.fail(f"block-downsample-{method}", f"FilterbankBlock.downsample raised {type(e).__name__}: {e}",
                               {"shape": [nchans, nsamps], "ffactor": ff, "tfactor": tf, "method": method})
                    if nchans <= 4 and nsamps <= 7 and method == "mean" and (ff, tf) != (1, 1):
                        corr_ds.append(("blk", False, False, L(x.astype(np.int64)), [nchans, nsamps, ff, tf],
                                        [int(round(float(v) * ff * tf)) for v in np.asarray(out).ravel()]))
    # ---- 5b. regimes of the quantifier that the lattice sweeps above do not reach (same definitions, own failure keys) ------------
    import time as _time
    _t5b = _time.time()
    # memory layouts (a block read from a file is a TRANSPOSED view, its rows are strided, a memmap is read-only), signed binary
    # fractions in the floating dtypes, windows many times longer than the series, the seconds -> bins conversion of deredden away
    # from whole bins and its `fast` flag below the width where running_filter_fast starts to decimate, one pedestal block whose
    # group sums do not fit a float32 accumulator.
    def hdr_of(nchans, nsamps, data_type, ts_=tsamp):
        return Header(filename="c14.fil" if data_type == "filterbank" else "c14.tim", data_type=data_type, nchans=nchans, foff=-1.0,
                      fch1=1500.0, nbits=32, tsamp=ts_, tstart=60000.0, nsamples=nsamps)

    def detrend_agrees(out, vals):
        out = np.asarray(out)
        exp = np.array([float(v) for v in spec_detrend_exact(vals)])
        scale_ = max(1.0, max(abs(float(v)) for v in vals))
        return out.dtype.kind == "f" and out.shape == exp.shape and bool(
            np.allclose(out.astype(np.float64), exp, rtol=0, atol=(2e-5 if out.dtype == np.float32 else 1e-9) * scale_)), exp

    def expect(key, ckey, regime, what, case, call, exp, in_dtype=None, rtol=None):
        """one implementation call of a new regime: an exception, a wrong shape / result kind or a wrong value is a finding"""
        R.case(ckey, regime=regime)
        try:
            out = np.asarray(call())
        except Exception as e:  # noqa: BLE001
            R.fail(key, f"raised {type(e).__name__}: {str(e)[:200]} -- {what}", case)
            return None
        if rtol is None:
            okv = agrees(out, exp, in_dtype)
        else:
            e64 = np.asarray(exp, dtype=np.float64)
            okv = out.dtype.kind == "f" and out.shape == e64.shape and bool(np.allclose(out.astype(np.float64), e64, rtol=rtol, atol=0))
        if not okv:
            R.fail(key, what, dict(case, got=L(out)[:400], got_dtype=str(out.dtype), got_shape=list(out.shape), expected=L(exp)[:400]))
        return out

    # (i) memory layouts: the definition is a statement about the LOGICAL content of the array, whatever its strides / flags
    def variants_1d(n, dt):
        yield "strided", rand_int_array((2 * n + 1,), dt, kind="uniform")[1::2]            # e.g. one channel of a block as read from a file
        yield "reversed", rand_int_array((n,), dt, kind="uniform")[::-1]
        ro = rand_int_array((n,), dt, kind="uniform")
        ro.setflags(write=False)                                                            # np.frombuffer / read-only memmap
        yield "readonly", ro

    def variants_2d(d1, d2, dt):
        yield "fortran", np.asfortranarray(rand_int_array((d1, d2), dt, kind="uniform"))
        yield "transposed", rand_int_array((d2, d1), dt, kind="uniform").T                  # what FilReader.read_block hands to FilterbankBlock
        yield "strided", rand_int_array((2 * d1, 3 * d2), dt, kind="uniform")[::2, 1::3]
        yield "reversed", rand_int_array((d1, d2), dt, kind="uniform")[::-1, ::-1]
        ro = rand_int_array((d1, d2), dt, kind="uniform")
        ro.setflags(write=False)
        yield "readonly", ro

    for n in (1, 2, 7, 12, 33):
        for dname, dt in DTYPES:
            for lay, v in variants_1d(n, dt):
                c = np.ascontiguousarray(v)
                base = {"layout": lay, "x": L(c), "dtype": dname, "strides": list(v.strides), "writeable": bool(v.flags.writeable)}
                for f in sorted({1, 2, 3, max(1, n // 2), n} & set(range(1, n + 1))):
                    for method in METHODS:
                        expect("layout-downsample_1d", ("lay", "ds1", lay, n, f, dname, method), f"layout/{lay}",
                               "downsample_1d of a non-contiguous / read-only series is not the group aggregate of its elements",
                               dict(base, factor=f, method=method), lambda: stats.downsample_1d(v, f, method), spec_ds1(c, f, method),
                               store_dtype("downsample_1d", method, dt))
                    for kname in ("downsample_1d_mean", "downsample_1d_mean_parallel"):
                        expect(f"layout-kernel-{kname}", ("lay", kname, lay, n, f, dname), f"layout/{lay}",
                               "mean kernel on a non-contiguous / read-only series differs from the group mean",
                               dict(base, factor=f), lambda: getattr(kernels, kname)(v, f), spec_ds1(c, f, "mean"), dt)
                for w in sorted({1, 2, 3, n + 1, 2 * n + 1}):
                    for method in METHODS:
                        out = expect("layout-running_filter", ("lay", "rf", lay, n, w, dname, method), f"layout/{lay}",
                                     "running_filter of a non-contiguous / read-only series is not the aggregate of the centred, reflected window",
                                     dict(base, window=w, method=method), lambda: stats.running_filter(v, w, method), spec_running(c, w, method))
                        if out is not None and out.shape != (n,):
                            R.fail("layout-running_filter", "output length differs from the input length", dict(base, window=w, method=method, got_shape=list(out.shape)))
                R.case(("lay", "det", lay, n, dname), regime=f"layout/{lay}")
                try:
                    okv, exp = detrend_agrees(kernels.detrend_1d(v), L(c))
                    if not okv:
                        R.fail("layout-detrend_1d", "detrend_1d of a non-contiguous / read-only series is not its least-squares residual", dict(base, expected=L(exp)))
                except Exception as e:  # noqa: BLE001
                    R.fail("layout-detrend_1d", f"detrend_1d raised {type(e).__name__}: {str(e)[:200]}", base)
                if dt is np.float32:
                    ts = TimeSeries(v, hdr_of(1, n, "time series"))
                    base_ts = dict(base, data_is_the_callers_memory=bool(np.shares_memory(ts.data, v)))
                    for f in sorted({2, 3, n} & set(range(1, n + 1))):
                        for method in METHODS:
                            expect("layout-TimeSeries.downsample", ("lay", "tsds", lay, n, f, method), f"layout/{lay}",
                                   "TimeSeries.downsample of a series held as a view is not the group aggregate", dict(base_ts, factor=f, method=method),
                                   lambda: guarded_method("TimeSeries.downsample", ts, f"downsample({f}, {method!r})", lambda: ts.downsample(f, method).data),
                                   spec_ds1(c, f, method))
                    for w in (2, 3, n + 1):
                        for method in METHODS:
                            expect("layout-TimeSeries.deredden", ("lay", "dered", lay, n, w, method), f"layout/{lay}",
                                   "deredden of a series held as a view is not the input minus its running filter", dict(base_ts, window_bins=w, method=method),
                                   lambda: guarded_method("TimeSeries.deredden", ts, f"deredden({method!r}, window={w} bins)", lambda: ts.deredden(method, window=w * tsamp).data),
                                   c.astype(np.float64) - spec_running(c, w, method))
    for (d1, d2) in [(1, 1), (3, 7), (6, 4), (2, 13)]:
        pairs = [(f1, f2) for f1 in range(1, d1 + 1) for f2 in range(1, d2 + 1)]
        if len(pairs) > 12:
            pairs = sorted(set([(1, 1), (d1, d2), (1, d2), (d1, 1), (2, 3), (2, 2)] + rng.sample(pairs, 6)))
        for dname, dt in DTYPES:
            for lay, v in variants_2d(d1, d2, dt):
                c = np.ascontiguousarray(v)
                base = {"layout": lay, "x": L(c), "shape": [d1, d2], "dtype": dname, "strides": list(v.strides), "writeable": bool(v.flags.writeable)}
                blk = FilterbankBlock(v, hdr_of(d1, d2, "filterbank")) if dt is np.float32 else None
                for (f1, f2) in pairs:
                    for method in METHODS:
                        exp = spec_ds2(c, f1, f2, method)
                        expect("layout-downsample_2d", ("lay", "ds2", lay, d1, d2, f1, f2, dname, method), f"layout/{lay}",
                               "downsample_2d of a Fortran-ordered / transposed / strided / read-only block: entry (i, j) is not the aggregate of rows i f1.. and columns j f2..",
                               dict(base, factors=[f1, f2], method=method), lambda: stats.downsample_2d(v, (f1, f2), method), exp, store_dtype("downsample_2d", method, dt))
                        if blk is not None:
                            expect("layout-FilterbankBlock.downsample", ("lay", "blk", lay, d1, d2, f1, f2, method), f"layout/{lay}",
                                   "FilterbankBlock.downsample of a block held as a transposed / strided view (as read from a file) is not the group aggregate",
                                   dict(base, ffactor=f1, tfactor=f2, method=method, data_is_the_callers_memory=bool(np.shares_memory(blk.data, v))),
                                   lambda: guarded_method("FilterbankBlock.downsample", blk, f"downsample({f1}, {f2}, {method!r})", lambda: blk.downsample(f1, f2, method).data), exp)
        # the flattened block handed over as a strided / reversed / read-only 1-D array
        for dname, dt in DTYPES:
            for lay, v in variants_1d(d1 * d2, dt):
                c = np.ascontiguousarray(v)
                base = {"layout": lay, "x": L(c), "shape": [d1, d2], "dtype": dname, "strides": list(v.strides), "writeable": bool(v.flags.writeable)}
                for (f1, f2) in pairs:
                    for method in METHODS:
                        expect("layout-downsample_2d_flat", ("lay", "ds2f", lay, d1, d2, f1, f2, dname, method), f"layout/{lay}",
                               "downsample_2d_flat of a non-contiguous / read-only flat block: entry k is not the aggregate of group (k // nd2, k % nd2)",
                               dict(base, factors=[f1, f2], method=method), lambda: stats.downsample_2d_flat(v, f1, f2, d1, d2, method),
                               spec_ds2(c.reshape(d1, d2), f1, f2, method).ravel(), store_dtype("downsample_2d_flat", method, dt))
                    expect("layout-kernel-downsample_2d_mean_parallel", ("lay", "k2p", lay, d1, d2, f1, f2, dname), f"layout/{lay}",
                           "parallel kernel on a non-contiguous / read-only flat block differs from the group mean", dict(base, factors=[f1, f2]),
                           lambda: kernels.downsample_2d_mean_parallel(v, f1, f2, d1, d2), spec_ds2(c.reshape(d1, d2), f1, f2, "mean").ravel(), dt)

    # (ii) signed binary fractions (k / 8, -256 <= value < 256) in the floating dtypes: every sum is still exact, but any step that
    # rounds, truncates or takes the magnitude of a SAMPLE now shows
    FLOATS = [d for d in DTYPES if d[0] != "uint8"]
    for n in list(range(1, 17)) + [rng.randrange(17, NMAX + 1) for _ in range(4)]:
        for dname, dt in FLOATS:
            x = rand_int_array((n,), dt, kind="dyadic")
            base = {"x": L(x), "dtype": dname, "values": "signed multiples of 1/8"}
            for w in sorted({1, 2, 3, 4, n, n + 1, 2 * n, 2 * n + 1, 3 * n + 1}):
                for method in METHODS:
                    out = expect(f"fractional-running_filter-{method}", ("frac", "rf", n, w, dname, method), "fractional/running_filter",
                                 "running filter of signed fractional samples differs from the aggregate of the centred, symmetrically reflected window",
                                 dict(base, window=w, method=method), lambda: stats.running_filter(x, w, method), spec_running(x, w, method))
                    if out is not None and out.shape != (n,):
                        R.fail(f"fractional-running_filter-{method}", "output length differs from the input length", dict(base, window=w, method=method, got_shape=list(out.shape)))
            for f in range(1, n + 1):
                for method in METHODS:
                    expect(f"fractional-downsample_1d-{method}", ("frac", "ds1", n, f, dname, method), "fractional/downsample_1d",
                           "entry i is not the mean/median of x[i f : (i+1) f] (signed fractional samples)", dict(base, factor=f, method=method),
                           lambda: stats.downsample_1d(x, f, method), spec_ds1(x, f, method))
                if f in (1, 2, 3, n):
                    for kname in ("downsample_1d_mean", "downsample_1d_mean_parallel"):
                        expect(f"fractional-kernel-{kname}", ("frac", kname, n, f, dname), "fractional/kernel", "kernel differs from the group mean (signed fractional samples)",
                               dict(base, factor=f), lambda: getattr(kernels, kname)(x, f), spec_ds1(x, f, "mean"))
            R.case(("frac", "det", n, dname), nontrivial=n >= 2, regime="fractional/detrend")
            try:
                okv, exp = detrend_agrees(kernels.detrend_1d(x), L(x))
                if not okv:
                    R.fail("fractional-detrend_1d", "detrend_1d of signed fractional samples is not the least-squares residual", dict(base, expected=L(exp)))
            except Exception as e:  # noqa: BLE001
                R.fail("fractional-detrend_1d", f"detrend_1d raised {type(e).__name__}: {str(e)[:200]}", base)
            if dt is np.float32 and n <= 12:
                ts = ts_of(x)
                for w in sorted({1, 2, 5, n + 1, 2 * n + 1}):
                    for method in METHODS:
                        expect(f"fractional-deredden-{method}", ("frac", "dered", n, w, method), "fractional/deredden",
                               "de-reddened series is not the input minus its running filter (signed fractional samples)", dict(base, window_bins=w, method=method),
                               lambda: guarded_method("TimeSeries.deredden", ts, f"deredden({method!r}, window={w} bins)", lambda: ts.deredden(method, window=w * tsamp).data),
                               x.astype(np.float64) - spec_running(x, w, method))
                for f in range(2, n + 1):
                    for method in METHODS:
                        expect(f"fractional-timeseries-downsample-{method}", ("frac", "tsds", n, f, method), "fractional/TimeSeries.downsample",
                               "TimeSeries.downsample is not the group aggregate (signed fractional samples)", dict(base, factor=f, method=method),
                               lambda: guarded_method("TimeSeries.downsample", ts, f"downsample({f}, {method!r})", lambda: ts.downsample(f, method).data), spec_ds1(x, f, method))
    for (d1, d2) in [(1, 1), (2, 3), (3, 5), (5, 4), (4, 7)]:
        for dname, dt in FLOATS:
            x = rand_int_array((d1, d2), dt, kind="dyadic")
            base = {"x": L(x), "shape": [d1, d2], "dtype": dname, "values": "signed multiples of 1/8"}
            blk = FilterbankBlock(x, hdr_of(d1, d2, "filterbank")) if dt is np.float32 else None
            for f1 in range(1, d1 + 1):
                for f2 in range(1, d2 + 1):
                    for method in METHODS:
                        exp = spec_ds2(x, f1, f2, method)
                        case = dict(base, factors=[f1, f2], method=method)
                        expect(f"fractional-downsample_2d-{method}", ("frac", "ds2", d1, d2, f1, f2, dname, method), "fractional/downsample_2d",
                               "entry (i, j) is not the aggregate of its group (signed fractional samples)", case, lambda: stats.downsample_2d(x, (f1, f2), method), exp)
                        expect(f"fractional-downsample_2d_flat-{method}", ("frac", "ds2f", d1, d2, f1, f2, dname, method), "fractional/downsample_2d_flat",
                               "flat entry k is not the aggregate of its group (signed fractional samples)", case,
                               lambda: stats.downsample_2d_flat(x.ravel(), f1, f2, d1, d2, method), exp.ravel())
                        if blk is not None:
                            expect(f"fractional-block-downsample-{method}", ("frac", "blk", d1, d2, f1, f2, method), "fractional/FilterbankBlock.downsample",
                                   "FilterbankBlock.downsample is not the group aggregate (signed fractional samples)", case,
                                   lambda: guarded_method("FilterbankBlock.downsample", blk, f"downsample({f1}, {f2}, {method!r})", lambda: blk.downsample(f1, f2, method).data), exp)
                    expect("fractional-kernel-downsample_2d_mean_parallel", ("frac", "k2p", d1, d2, f1, f2, dname), "fractional/kernel",
                           "parallel kernel differs from the group mean (signed fractional samples)", dict(base, factors=[f1, f2]),
                           lambda: kernels.downsample_2d_mean_parallel(x.ravel(), f1, f2, d1, d2), spec_ds2(x, f1, f2, "mean").ravel())

    # (iii) windows many times longer than the series (the default deredden window of 0.5 s is 1526 bins at this tsamp: every series
    # shorter than ~500 samples is filtered with w > 3 n + 1); np.pad then reflects the series over and over
    for n in range(1, 9):
        for dname, dt in DTYPES:
            x = rand_int_array((n,), dt, kind="dyadic" if (dt is not np.uint8 and n % 2) else None)
            ts = ts_of(x) if dt is np.float32 else None
            for w in sorted({5 * n, 7 * n + 2, 64 * n + 1, 1526}):
                pl, pr = w // 2, (w // 2 if w % 2 else w // 2 - 1)
                padded_model = x[sym_idx(n, np.arange(-pl, n + pr))]
                try:
                    if not np.array_equal(np.pad(x, (pl, pr), "symmetric"), padded_model):
                        assumption_bad += 1
                        R.disagree("assumption: np.pad(mode='symmetric') differs from the index map sym (pad many times the length)", {"x": L(x), "pad": [pl, pr]})
                except Exception as e:  # noqa: BLE001
                    R.disagree(f"assumption: np.pad raised {type(e).__name__}", {"x": L(x), "pad": [pl, pr]})
                for method in METHODS:
                    case = {"x": L(x), "dtype": dname, "window": w, "method": method}
                    out = expect(f"wide-window-running_filter-{method}", ("wide", "rf", n, w, dname, method), "running_filter/very-wide",
                                 "running filter with a window many times longer than the series differs from the aggregate of the centred, repeatedly reflected window",
                                 case, lambda: stats.running_filter(x, w, method), spec_running(x, w, method))
                    if out is not None and out.shape != (n,):
                        R.fail(f"wide-window-running_filter-{method}", "output length differs from the input length", dict(case, got_shape=list(out.shape)))
                    if ts is not None:
                        expect(f"wide-window-deredden-{method}", ("wide", "dered", n, w, method), "deredden/very-wide",
                               "de-reddened series is not the input minus its running filter (window many times longer than the series)", dict(case, window_bins=w),
                               lambda: guarded_method("TimeSeries.deredden", ts, f"deredden({method!r}, window={w} bins)", lambda: ts.deredden(method, window=w * tsamp).data),
                               x.astype(np.float64) - spec_running(x, w, method))

    # (iv) deredden: a window given in seconds within a quarter of a bin of w bins is a window of w bins (for three sampling times);
    # with fast=True and fewer than 2 * min_points = 202 bins running_filter_fast does not decimate, so the result is the same series
    for ts_ in (tsamp, 6.4e-5, 1e-3):
        for n in (6, 23):
            x = rand_int_array((n,), np.float32, kind=rng.choice(["uniform", "dyadic"]))
            ts = TimeSeries(x, hdr_of(1, n, "time series", ts_))
            for w in (1, 2, 3, 7, 10, 100, 101, 201):
                for method in METHODS:
                    exp = x.astype(np.float64) - spec_running(x, w, method)
                    for delta in (-0.25, 0.0, 0.25):
                        window = (w + delta) * ts_
                        case = {"x": L(x), "tsamp": ts_, "window_seconds": window, "window_bins_stated": w + delta, "window_bins_expected": w, "method": method}
                        expect(f"deredden-window-rounding-{method}", ("dered-round", ts_, n, w, delta, method), "deredden/seconds-to-bins",
                               "deredden with a window within a quarter bin of w bins is not the input minus the running filter of width w", case,
                               lambda: guarded_method("TimeSeries.deredden", ts, f"deredden({method!r}, window={window!r})", lambda: ts.deredden(method, window=window).data), exp)
                        if delta == 0.0 or w in (2, 101, 201):
                            expect(f"deredden-fast-{method}", ("dered-fast", ts_, n, w, delta, method), "deredden/fast-below-202-bins",
                                   "deredden(fast=True) with fewer than 202 bins (no decimation inside running_filter_fast) is not the input minus its running filter",
                                   dict(case, fast=True),
                                   lambda: guarded_method("TimeSeries.deredden", ts, f"deredden({method!r}, window={window!r}, fast=True)",
                                                          lambda: ts.deredden(method, window=window, fast=True).data), exp)

    # (v) a pedestal: float32 samples 1000 + k / 8 in groups of 8192, whose sums need 26 bits.  The compiled kernels accumulate in
    # float64 and round once (<= 1 ulp of float32: demanded to 1e-6); the NumPy paths are held to the usual float32 tolerance
    xp = (1000.0 + nprng.integers(-2048, 2048, 4096 * 8) / 8.0).astype(np.float32).reshape(4096, 8)
    for (f1, f2) in [(4096, 2), (1024, 8), (3, 8)]:
        exp = spec_ds2(xp, f1, f2, "mean")
        case = {"x": "float32 1000 + k/8, k = default_rng stream of this run", "seed": R.seed, "shape": [4096, 8], "factors": [f1, f2], "first_samples": L(xp.ravel()[:8])}
        expect("pedestal-downsample_2d", ("ped", "ds2", f1, f2), "pedestal", "downsample_2d of a float32 block with a pedestal is not the group mean", case,
               lambda: stats.downsample_2d(xp, (f1, f2), "mean"), exp)
        expect("pedestal-block-downsample", ("ped", "blk", f1, f2), "pedestal", "FilterbankBlock.downsample of a float32 block with a pedestal is not the group mean", case,
               lambda: FilterbankBlock(xp, hdr_of(4096, 8, "filterbank")).downsample(f1, f2, "mean").data, exp)
        expect("pedestal-kernel-accumulator", ("ped", "ds2f", f1, f2), "pedestal", "downsample_2d_flat (float64 accumulator, one rounding) is further than 1e-6 from the group mean", case,
               lambda: stats.downsample_2d_flat(xp.ravel(), f1, f2, 4096, 8, "mean"), exp.ravel(), rtol=1e-6)
        expect("pedestal-kernel-accumulator", ("ped", "k2p", f1, f2), "pedestal", "downsample_2d_mean_parallel (float64 accumulator, one rounding) is further than 1e-6 from the group mean", case,
               lambda: kernels.downsample_2d_mean_parallel(xp.ravel(), f1, f2, 4096, 8), exp.ravel(), rtol=1e-6)
    for f in (8192, 4099):
        case = {"x": "the same block flattened", "seed": R.seed, "length": 32768, "factor": f}
        for kname, call in (("downsample_1d", lambda: stats.downsample_1d(xp.ravel(), f, "mean")), ("downsample_1d_mean_parallel", lambda: kernels.downsample_1d_mean_parallel(xp.ravel(), f)),
                            ("TimeSeries.downsample", lambda: TimeSeries(xp.ravel(), hdr_of(1, 32768, "time series")).downsample(f, "mean").data)):
            expect("pedestal-kernel-accumulator", ("ped", kname, f), "pedestal", f"{kname} (float64 accumulator, one rounding) is further than 1e-6 from the group mean", case,
                   call, spec_ds1(xp.ravel(), f, "mean"), rtol=1e-6)

    R.extra_cov["regime_sweep_seconds"] = round(_time.time() - _t5b, 1)

    # ---- 6. histories on ONE object: every result must be the definition applied to the ORIGINAL data -------------------------
    def step_1d(x, x0, op):
        """run one operation on the (possibly already modified) array x; return (api, got, expected-from-x0, in dtype)"""
        kind = op[0]
        if kind == "ds1":
            _, f, method = op
            return "downsample_1d", stats_raw.downsample_1d(x, f, method), spec_ds1(x0, f, method), store_dtype("downsample_1d", method, x0.dtype.type)
        if kind == "k1":
            _, f = op
            return "kernels.downsample_1d_mean", kernels_raw.downsample_1d_mean(x, f), spec_ds1(x0, f, "mean"), x0.dtype.type
        if kind == "rf":
            _, w, method = op
            return "running_filter", stats_raw.running_filter(x, w, method), spec_running(x0, w, method), None
        _, = op
        out = kernels_raw.detrend_1d(x)
        exp = np.array([float(v) for v in spec_detrend_exact(L(x0))])
        return "detrend_1d", out, exp, None

    def run_history(x, ops, regime):
        x0 = x.copy()
        done = []
        for op in ops:
            R.case(("hist", regime, x0.dtype.name, len(x0), tuple(done), op), regime=regime)
            try:
                api, got, exp, indt = step_1d(x, x0, op)
            except Exception as e:  # noqa: BLE001
                R.fail(f"history-{op[0]}", f"raised {type(e).__name__} after earlier calls on the same array: {e}",
                       {"x": L(x0), "dtype": x0.dtype.name, "earlier_calls": done, "call": list(op)})
                return
            okv = agrees(got, exp, indt) if api != "detrend_1d" else (np.asarray(got).shape == exp.shape and bool(
                np.allclose(np.asarray(got, dtype=np.float64), exp, rtol=0, atol=(2e-5 if np.asarray(got).dtype == np.float32 else 1e-9) * 256)))
            if not okv:
                R.fail(f"history-{api}", f"{api} on an array that earlier calls were applied to is not the definition on the original data",
                       {"x": L(x0), "dtype": x0.dtype.name, "earlier_calls": [list(d) for d in done], "call": list(op),
                        "got": L(got), "expected": L(exp), "array_now": L(x), "array_changed": not same_bits(x, x0)})
                return
            done.append(op)

    for n in (5, 8, 13):
        for dname, dt in DTYPES:
            firsts = [("ds1", f, m) for f in range(1, n + 1) for m in METHODS] + [("rf", w, m) for w in (2, 3, n + 1) for m in METHODS]
            seconds = [("ds1", f, m) for f in range(1, n + 1) for m in METHODS] + [("k1", n // 2 + 1), ("rf", 4, "median"), ("det",)]
            for a in firsts:
                for b in seconds:
                    if a != b:
                        run_history(rand_int_array((n,), dt, kind="uniform"), [a, b], "history/pairs")
    for _ in range(60 if quick else 400):
        dname, dt = rng.choice(DTYPES)
        n = rng.randrange(2, NMAX + 1)
        ops = []
        for _k in range(rng.randrange(3, 6)):
            c = rng.choice(["ds1", "ds1", "ds1", "k1", "rf", "det"])
            ops.append({"ds1": ("ds1", rng.randrange(1, n + 1), rng.choice(METHODS)), "k1": ("k1", rng.randrange(1, n + 1)),
                        "rf": ("rf", rng.randrange(1, 3 * n + 2), rng.choice(METHODS)), "det": ("det",)}[c])
        run_history(rand_int_array((n,), dt, kind="uniform"), ops, "history/random")
    # the same TimeSeries decimated / de-reddened several times
    for _ in range(25 if quick else 120):
        n = rng.randrange(2, NMAX + 1)
        x0 = rand_int_array((n,), np.float32, kind="uniform")
        ts = ts_of(x0.copy())
        done = []
        for _k in range(4):
            if rng.random() < 0.7:
                f, method = rng.randrange(1, n + 1), rng.choice(METHODS)
                op, api = ["downsample", f, method], "TimeSeries.downsample"
                got, exp = ts.downsample(f, method).data, spec_ds1(x0, f, method)
            else:
                w, method = rng.randrange(1, 2 * n + 2), rng.choice(METHODS)
                op, api = ["deredden", w, method], "TimeSeries.deredden"
                got, exp = ts.deredden(method, window=w * tsamp).data, x0.astype(np.float64) - spec_running(x0, w, method)
            R.case(("hist-ts", n, tuple(map(tuple, done)), tuple(op)), regime="history/TimeSeries")
            if not agrees(got, exp):
                R.fail(f"history-{api}", f"{api} of a TimeSeries that was decimated / de-reddened before is not the definition on its original data",
                       {"x": L(x0), "earlier_calls": done, "call": op, "got": L(got), "expected": L(exp), "data_now": L(ts.data),
                        "data_changed": not same_bits(ts.data, x0)})
                break
            done.append(op)
    # the same block / the same 2-D array decimated several times
    for _ in range(20 if quick else 100):
        d1, d2 = rng.randrange(1, 9), rng.randrange(2, 14)
        dname, dt = rng.choice(DTYPES)
        x0 = rand_int_array((d1, d2), dt, kind="uniform")
        x = x0.copy()
        xb = x0.astype(np.float32)
        blk = FilterbankBlock(xb.copy(), Header(filename="c14.fil", data_type="filterbank", nchans=d1, foff=-1.0, fch1=1500.0, nbits=32,
                                                tsamp=tsamp, tstart=60000.0, nsamples=d2))
        done = []
        for _k in range(4):
            f1, f2, method = rng.randrange(1, d1 + 1), rng.randrange(1, d2 + 1), rng.choice(METHODS)
            which = rng.choice(["downsample_2d", "downsample_2d_flat", "FilterbankBlock.downsample"])
            exp = spec_ds2(x0, f1, f2, method)
            if which == "downsample_2d":
                got, okv = stats_raw.downsample_2d(x, (f1, f2), method), None
            elif which == "downsample_2d_flat":
                got, exp = stats_raw.downsample_2d_flat(x.reshape(-1), f1, f2, d1, d2, method), exp.ravel()
            else:
                got = blk.downsample(f1, f2, method).data
            R.case(("hist-2d", d1, d2, dname, tuple(map(tuple, done)), which, f1, f2, method), regime="history/2-D")
            if not agrees(got, exp, store_dtype(which, method, dt)):
                R.fail(f"history-{which}", f"{which} on data that was decimated before is not the definition on the original data",
                       {"x": L(x0), "shape": [d1, d2], "dtype": dname, "earlier_calls": done, "call": [which, f1, f2, method],
                        "got": L(got), "expected": L(exp), "array_changed": not (same_bits(x, x0) and same_bits(blk.data, xb))})
                break
            done.append([which, f1, f2, method])

    R.extra_cov["assumption_checks_failed"] = assumption_bad

    # ---- 7. correspondence: executable model under vm_compute versus the implementation ---------------------------------
    if not proved and not R.need(["Model/C14_filters.vo", "Model/C14_pinned.vo"]):
        return R        # the models themselves no longer build (translator refused / Gen changed shape): reported above
    import gen_c14
    gtxt, gerrs = gen_c14.gen_c14(vlib.REPO)
    uses_cast = "detrend_1d_uses_input_dtype_cast : bool := true" in gtxt
    HEAD = ("From Coq Require Import ZArith QArith Qabs List Bool.\n"
            "Require Import SPP.Base.Rt SPP.Gen.Kernels SPP.Gen.C14_stats SPP.Model.C14_filters SPP.Model.C14_nppad SPP.Model.C14_pinned.\n"
            "Import ListNotations.\nOpen Scope Z_scope.\n")
    TAIL = ("Definition idx := map fst (filter (fun p => negb (ok (snd p))) (combine (seq 0 (length cases)) cases)).\n"
            "Eval vm_compute in (length cases, idx).\n")

    def bb(v):
        return "true" if v else "false"

    def run_shards(name, cases, render, okdef, per=400):
        rng.shuffle(cases)
        cases = cases[: (per * 3 if quick else per * 10)]
        total = 0
        for si in range(0, len(cases), per):
            sh = cases[si:si + per]
            txt = HEAD + okdef + "Definition cases := [\n" + ";\n".join(render(c) for c in sh) + "\n].\n" + TAIL
            rc, out = vlib.coq_run(f"c14_{name}_{si // per}", txt, timeout=400)
            vals = vlib.parse_eval(out)
            if rc != 0 or not vals:
                R.red.append(f"correspondence: Corr/c14_{name} did not evaluate: " + out[-500:])
                continue
            nums = [int(v) for v in re.findall(r"(\d+)%nat", vals[0])]
            total += nums[0] if nums else 0
            for bi in nums[1:][:5]:
                R.disagree(f"model and implementation differ ({name})", {"case": repr(sh[bi])[:1500]})
        R.extra_cov["traces_validated_against_impl"] = R.extra_cov.get("traces_validated_against_impl", 0) + total
        return total

    ok_rf = ("Definition ok (c : list Z * Z * bool * list Z) : bool :=\n"
             "  let '(x, w, med, out) := c in let n := Z.of_nat (length x) in\n"
             "  let agg := if med then med2 else sumZ in\n"
             "  list_eqb (to_list (running_filter_len n w) (running_filter_model (move_trailing agg) (of_list x) n w)) out.\n")
    run_shards("rf", corr_rf, lambda c: f"({vlib.zlist(c[0])}, {c[1]}, {bb(c[2])}, {vlib.zlist(c[3])})", ok_rf)

    ok_ds = ("Definition junk : arr := fun _ => -7.\n"
             "Definition nthz (l : list Z) (k : nat) := nth k l 0.\n"
             "Definition ok (c : Z * bool * bool * list Z * list Z * list Z) : bool :=\n"
             "  let '(kind, med, u8, x, p, out) := c in\n"
             "  let dc := if u8 then divcast_u8 else divcast_num in\n"
             "  let agg := if med then med2 else sumZ in\n"
             "  let nout := Z.of_nat (length out) in\n"
             "  if kind =? 1 then  (* downsample_1d *)\n"
             "    let n := Z.of_nat (length x) in let f := nthz p 0 in\n"
             "    if med then (ds1_median_len n f =? nout) && list_eqb (to_list nout (ds1_median_model agg (of_list x) n f)) out\n"
             "    else negb (ds1_rejects n f) && list_eqb (to_list (nout + 2) (ds1_mean_call dc n junk (of_list x) f)) (out ++ [-7; -7])\n"
             "  else let d1 := nthz p 0 in let d2 := nthz p 1 in let f1 := nthz p 2 in let f2 := nthz p 3 in\n"
             "  if kind =? 2 then  (* downsample_2d *)\n"
             "    let '(s0, _, s2, _) := ds2_shape d1 d2 f1 f2 in\n"
             "    (s0 * s2 =? nout) && list_eqb (map (fun k => ds2_model agg (of_list x) d1 d2 f1 f2 (k / s2) (k mod s2)) (zrange nout)) out\n"
             "  else if kind =? 3 then  (* downsample_2d_flat *)\n"
             "    if med then list_eqb (to_list nout (ds2f_median_model agg (of_list x) f1 f2 d1 d2)) out\n"
             "    else negb (ds2f_rejects (Z.of_nat (length x)) f1 f2 d1 d2) && list_eqb (to_list (nout + 2) (ds2f_mean_call dc junk (of_list x) f1 f2 d1 d2)) (out ++ [-7; -7])\n"
             "  else if kind =? 5 then  (* TimeSeries.downsample, (factor): call-site model incl. the factor-1 shortcut and the refusal test *)\n"
             "    let n := Z.of_nat (length x) in let f := nthz p 0 in\n"
             "    negb (ts_downsample_rejects n f) && (ts_downsample_len n f =? nout) &&\n"
             "    (if med then let m := to_list nout (ts_downsample_median_model agg (of_list x) n f) in   (* out = 2 * median; the shortcut returns the samples *)\n"
             "                 list_eqb (if ts_downsample_returns_self f then map (Z.mul 2) m else m) out\n"
             "     else list_eqb (to_list nout (ts_downsample_mean_model dc n junk (of_list x) f)) out &&\n"
             "          (if f =? 1 then true else list_eqb (to_list 2 (fun k => ts_downsample_mean_model dc n junk (of_list x) f (nout + k))) [-7; -7]))\n"
             "  else  (* FilterbankBlock.downsample, (nchans, nsamps, ffactor, tfactor) *)\n"
             "    let '(g1, g2) := block_downsample_factors f1 f2 in let '(s0, _, s2, _) := ds2_shape d1 d2 g1 g2 in   (* the shape the call site asks for *)\n"
             "    (s0 * s2 =? nout) && list_eqb (map (fun k => block_downsample_model sumZ (of_list x) d1 d2 f1 f2 (k / s2) (k mod s2)) (zrange nout)) out.\n")
    kinds = {"d1": 1, "d2": 2, "d2f": 3, "blk": 4, "ts": 5}
    run_shards("ds", corr_ds, lambda c: f"({kinds[c[0]]}, {bb(c[1])}, {bb(c[2])}, {vlib.zlist(c[3])}, {vlib.zlist(c[4])}, {vlib.zlist(c[5])})", ok_ds)

    # NumPy's own chunk-by-chunk symmetric padding (Model/C14_nppad.v, the subject of C14_numpy_symmetric_pad_every_length) against np.pad:
    # every pad pair of a small lattice (0 .. 7 n + 3 on either side, asymmetric too) and the pads of windows many times the length
    corr_pad = []
    for n in range(1, 7):
        x = [int(v) for v in (np.arange(n) * 7 + 3 + nprng.integers(0, 3, n))]
        lat = sorted({0, 1, 2, n - 1, n, n + 1, 2 * n, 2 * n + 1, 3 * n + 2, 7 * n + 3})
        for pl in lat:
            for pr in lat:
                corr_pad.append((x, pl, pr, [int(v) for v in np.pad(np.array(x), (pl, pr), "symmetric")]))
    corr_pad = rng.sample(corr_pad, 300 if quick else len(corr_pad))
    for n, w in [(2, 1526), (3, 193), (5, 37), (8, 1526), (1, 40), (7, 449)]:
        x = [int(v) for v in nprng.integers(0, 256, n)]
        pl, pr = w // 2, (w // 2 if w % 2 else w // 2 - 1)
        corr_pad.append((x, pl, pr, [int(v) for v in np.pad(np.array(x), (pl, pr), "symmetric")]))
    ok_pad = ("Definition ok (c : list Z * Z * Z * list Z) : bool :=\n"
              "  let '(x, pl, pr, out) := c in let n := Z.of_nat (length x) in\n"
              "  let '(P, lp, rp) := np_pad_symmetric (fun _ => -7) (of_list x) n pl pr in\n"
              "  (lp =? 0) && (rp =? 0) && (Z.of_nat (length out) =? pad_len n pl pr) && list_eqb (to_list (pad_len n pl pr) P) out\n"
              "  && list_eqb (to_list (pad_len n pl pr) (pad_sym (of_list x) n pl)) out.\n")
    run_shards("pad", corr_pad, lambda c: f"({vlib.zlist(c[0])}, {c[1]}, {c[2]}, {vlib.zlist(c[3])})", ok_pad, per=160)

    def q(v):
        fr = Fraction(float(v))
        return f"({fr.numerator} # {fr.denominator})"
    cast_arg = {True: "cast_u8 ", False: "(fun q => q) "}
    ok_det = ("Open Scope Q_scope.\n"
              "Definition close (u8 : bool) (a b : Q) : bool :=\n"
              "  if u8 then let d := Qabs (a - b) in Qle_bool d 1 || Qle_bool 255 d else Qle_bool (Qabs (a - b)) (1 # 1000).\n"
              "Definition ok (c : bool * list Z * list Q) : bool :=\n"
              "  let '(u8, x, out) := c in let m := Z.of_nat (length x) in\n"
              "  let r := detrend_1d_run " + ("(if u8 then cast_u8 else (fun q => q)) " if uses_cast else "") + "m (fun k => inject_Z (nth (Z.to_nat k) x 0%Z)) in\n"
              "  forallb (fun k => close " + ("u8" if uses_cast else "false") + " (r k) (nth (Z.to_nat k) out 0)) (zrange m).\n"
              "Close Scope Q_scope.\n")
    run_shards("det", corr_det, lambda c: f"({bb(c[0] == 'uint8')}, {vlib.zlist(c[1])}, [" + "; ".join(q(v) for v in c[2]) + "]%Q)", ok_det, per=200)
    R.extra_cov["correspondence_cases"] = len(corr_rf) + len(corr_ds) + len(corr_det) + len(corr_pad)
    R.extra_cov["detrend_model_has_input_dtype_cast"] = uses_cast
    return R


# ------------------------------------------------------------------------------------------------
# at-scale search (README: "Source pins, the at-scale search and the hang watchdog")
# ------------------------------------------------------------------------------------------------

SCALE_NBASE = 4096 * 4097          # 2**24 + 4096 samples: the longest input of the search
_SCALE_BASE = {}


def scale_input(seed, kind, n, dtype, cap=255):
    """Generator of EVERY at-scale input (replay: `props.c14.scale_input(**case["input"])`, reshaped to case["shape"] for a block).
    The first n entries of one fixed stream u of SCALE_NBASE uniform bytes, mapped to integer values so that the definitions are exact:
    uniform: 0..cap (cap <= 255) | high: the top fifth of 0..cap (uint8: 204..255) | ramp: ((3 i + 7) mod 251) mod (cap + 1), position
    dependent with an odd period | wide: multiples of cap // 255 up to cap (float dtypes, cap > 255) | big: 2**30 + u (float64: a float32
    accumulator cannot hold it) | huge: finfo(dtype).max / 4 * (0.5 + u / 512), positive values next to the top of a float dtype |
    dyadic: (u - 128) / 8, signed binary fractions in [-16, 16) (float dtypes; every sum of up to 2**24 of them is exact in float64).
    A case with a "layout" entry applies that view to the generated array (`scale_layout`): the stream is then as long as the view needs."""
    seed, n, cap = int(seed), int(n), int(cap)
    u = _SCALE_BASE.get(seed)
    if u is None:
        _SCALE_BASE.clear()
        u = _SCALE_BASE[seed] = np.random.default_rng([seed, 1414]).integers(0, 256, SCALE_NBASE, dtype=np.uint8)
    if not 1 <= n <= SCALE_NBASE:
        raise ValueError("scale_input: n out of range")
    u = u[:n]
    dt = np.dtype(dtype)
    lo = min(cap, 255)
    if kind == "uniform":
        a = u if lo == 255 else u % np.uint8(lo + 1)
    elif kind == "high":
        a = np.uint8(lo) - u % np.uint8(lo // 5 + 1)
    elif kind == "ramp":
        a = ((3 * np.arange(n, dtype=np.int64) + 7) % 251) % (lo + 1)
    elif kind == "wide":
        a = u.astype(np.int64) * max(cap // 255, 1)
    elif kind == "big":
        a = u.astype(np.int64) + (1 << 30)
    elif kind == "huge":
        a = (0.5 + u.astype(np.float64) / 512.0) * (float(np.finfo(dt).max) / 4.0)
    elif kind == "dyadic":
        a = (u.astype(np.float64) - 128.0) / 8.0
    else:
        raise ValueError(f"scale_input: unknown kind {kind}")
    return np.ascontiguousarray(a.astype(dt))


def scale_layout(a, layout, shape=None):
    """the memory layouts of the at-scale search, applied to the array `scale_input` returned (replay: scale_layout(scale_input(**case["input"]),
    case["layout"], case.get("shape"))).  1-D (shape None): C | strided = a[1::2] (the stream has 2 n + 1 samples) | reversed = a[::-1] |
    readonly.  2-D (shape (d1, d2)): C = a.reshape(d1, d2) | transposed = a.reshape(d2, d1).T (what FilReader.read_block hands to
    FilterbankBlock: Fortran-contiguous) | strided = a.reshape(d1, 2 d2)[:, ::2] (the stream has 2 d1 d2 samples)"""
    if shape is None:
        if layout == "strided":
            return a[1::2]
        if layout == "reversed":
            return a[::-1]
        if layout == "readonly":
            a.setflags(write=False)
        return a
    d1, d2 = shape
    if layout == "transposed":
        return a.reshape(d2, d1).T
    if layout == "strided":
        return a.reshape(d1, 2 * d2)[:, ::2]
    return a.reshape(d1, d2)


def _scale_diff(out, exp, in_dtype=None, small_dtype=None):
    """None if `out` equals the definition `exp` (float64) under the rule of the small-scope oracle (`agrees`: rounding of the output dtype,
    or the definition converted to an integer input dtype at the very end) AND its dtype is the dtype the same call returns for a small
    input; otherwise a small dict that locates the difference"""
    out = np.asarray(out)
    exp = np.asarray(exp, dtype=np.float64)
    if out.shape != exp.shape:
        return {"problem": "shape of the result", "got_shape": list(out.shape), "expected_shape": list(exp.shape)}
    if small_dtype is not None and out.dtype != small_dtype:
        ne = np.flatnonzero(out.reshape(-1).astype(np.float64) != exp.reshape(-1))        # a value that shows it, if any
        k = int(ne[len(ne) // 2]) if len(ne) else exp.size // 2
        return {"problem": "the result's dtype (and with it the rounding of every value) depends on the size of the input",
                "got_dtype": str(out.dtype), "dtype_of_the_same_call_on_a_small_input": str(small_dtype),
                "example_index": int(k), "got": out.ravel()[k].item(), "definition": float(exp.ravel()[k])}
    if out.dtype.kind != "f" and not (in_dtype is not None and out.dtype == np.dtype(in_dtype)):
        return {"problem": "dtype of the result", "got_dtype": str(out.dtype)}
    rt, at = tol_for(out)
    fo, fe = out.reshape(-1), exp.reshape(-1)
    nbad, first, last = 0, None, None
    for a in range(0, fo.size, 1 << 21):          # in pieces: no float64 copies of a 2**24-sample result
        o, e = fo[a:a + (1 << 21)], fe[a:a + (1 << 21)]
        bad = ~np.isclose(o.astype(np.float64), e, rtol=rt, atol=at) if out.dtype.kind == "f" else o != e.astype(in_dtype)
        if bad.any():
            k = np.flatnonzero(bad)
            nbad += int(k.size)
            first = a + int(k[0]) if first is None else first
            last = a + int(k[-1])
    if not nbad:
        return None
    return {"n_bad": nbad, "n_out": int(out.size), "first_bad_index": first, "last_bad_index": last,
            "got": fo[first].item(), "definition": float(fe[first]), "out_dtype": str(out.dtype)}


def _scale_median_rows(g):
    """median of every row by sorting (independent of np.median's partition path); integer-valued rows, so the result is exact"""
    f = g.shape[1]
    s = np.sort(g, axis=1)
    return (s[:, (f - 1) // 2].astype(np.float64) + s[:, f // 2].astype(np.float64)) / 2.0


def _scale_search(R: vlib.Run):
    """at-scale search (run when something no longer checks and no small failing input was found, in the thorough tier, and with
    VERIF_SCALE=1): every API of the property on inputs around 2**16, 2**18, 2**20, 2**22 and 2**24 samples (at the power of two and just
    above it), windows / factors / row counts above 65536, windows wider than the data, groups as long as the data, blocks of 2**20 ..
    2**24 samples of every shape role, values at the top of the dtype, and long histories on one large object -- compared with the same
    definitions as `run` (float64 / int64 NumPy), under the same tolerances.  Besides the values, the dtype of a result must be the one
    the same call returns for a small input: a size-gated code path must not change what a group mean is rounded to."""
    import gc
    import os
    import time
    from sigpyproc.block import FilterbankBlock
    from sigpyproc.core import kernels, stats
    from sigpyproc.header import Header
    from sigpyproc.timeseries import TimeSeries

    seed = R.seed + 1414
    pos_rng = np.random.default_rng([seed, 7])
    tsamp = 0.00032768
    P16, P18, P20, P22, P24 = (1 << k for k in (16, 18, 20, 22, 24))
    DT = dict(DTYPES)
    GEN = ("props/c14.py: scale_layout(scale_input(**case['input']), case.get('layout', 'C'), case.get('shape')) (without a layout: reshape to "
           "case['shape'] if present); the search is scale()")
    F24 = (1 << 24) - 1            # integer-valued float32 sums are exact up to here
    timing = {}
    t_all = time.time()

    def inp(kind, n, dname, cap=255):
        return {"seed": seed, "kind": kind, "n": int(n), "dtype": dname, "cap": int(cap)}

    def make(i):
        return scale_input(**i)

    def attempt(key, case, fn):
        """one implementation call: named for the hang watchdog, an exception is a finding"""
        R.tick(case)
        try:
            return fn()
        except Exception as e:  # noqa: BLE001
            R.fail(f"scale-{key}", f"raised {type(e).__name__} at scale: {str(e)[:160]}", case)
            return None

    def verdict(key, what, case, out, exp, in_dtype=None, small_dtype=None):
        d = _scale_diff(out, exp, in_dtype, small_dtype)
        if d is not None:
            R.fail(f"scale-{key}", what, dict(case, **d))

    def untouched(x, x0, api, case):
        """(a) of `run`: a filter / decimator leaves the array it was given bit-identical"""
        xb, x0b = np.ascontiguousarray(x).reshape(-1).view(np.uint8), np.ascontiguousarray(x0).reshape(-1).view(np.uint8)   # no copy of a contiguous array
        if not np.array_equal(xb, x0b):
            R.fail(f"scale-input-mutated-{api}", f"{api} modified the large array it was given (a filter / decimator must leave its input bit-identical)",
                   dict(case, first_changed_byte=int(np.flatnonzero(xb != x0b)[0])))
            x[...] = x0

    def header(nchans, nsamps, data_type):
        return Header(filename="c14s.fil" if nchans > 1 else "c14s.tim", data_type=data_type, nchans=nchans, foff=-1.0, fch1=1500.0,
                      nbits=32, tsamp=tsamp, tstart=60000.0, nsamples=nsamps)

    # the dtype every API returns for a SMALL input of each dtype / method: the convention a result at scale has to follow
    small = {}
    s1 = np.array([3, 1, 4, 1, 5, 9, 2, 6, 5, 3, 5, 8])
    s2 = (np.arange(24) * 7 % 23).reshape(4, 6)

    def small_dtype(api, dname, method):
        k = (api, dname, method)
        if k not in small:
            dt = DT[dname]
            a1, a2 = s1.astype(dt), s2.astype(dt)
            calls = {
                "downsample_1d": lambda: stats.downsample_1d(a1, 3, method),
                "kernels.downsample_1d_mean": lambda: kernels.downsample_1d_mean(a1, 3),
                "kernels.downsample_1d_mean_parallel": lambda: kernels.downsample_1d_mean_parallel(a1, 3),
                "downsample_2d": lambda: stats.downsample_2d(a2, (2, 3), method),
                "downsample_2d_flat": lambda: stats.downsample_2d_flat(a2.ravel(), 2, 3, 4, 6, method),
                "kernels.downsample_2d_mean_parallel": lambda: kernels.downsample_2d_mean_parallel(a2.ravel(), 2, 3, 4, 6),
                "running_filter": lambda: stats.running_filter(a1, 3, method),
                "detrend_1d": lambda: kernels.detrend_1d(a1),
                "TimeSeries.downsample": lambda: TimeSeries(a1, header(1, 12, "time series")).downsample(3, method).data,
                "TimeSeries.deredden": lambda: TimeSeries(a1, header(1, 12, "time series")).deredden(method, window=3 * tsamp).data,
                "FilterbankBlock.downsample": lambda: FilterbankBlock(a2, header(4, 6, "filterbank")).downsample(2, 3, method).data,
            }
            R.tick({"api": api, "dtype": dname, "method": method, "input": "small probe of the result dtype"})
            try:
                small[k] = np.asarray(calls[api]()).dtype
            except Exception:  # noqa: BLE001
                small[k] = None          # the small scope reports that
        return small[k]

    # ---- A. running filter / deredden -------------------------------------------------------------------------------
    def padded(x, w):
        n, pl = len(x), w // 2
        pr = w - 1 - pl
        return np.concatenate((x[sym_idx(n, np.arange(-pl, 0))], x, x[sym_idx(n, np.arange(n, n + pr))]))

    def rf_positions(n, w):
        """where the median is compared with the definition: everywhere if affordable, otherwise both ends, the neighbourhood of every
        power of two and of multiples of 2**16 / 16384, and random positions (the mean is compared everywhere)"""
        budget = min(int(2.4e7 // w), 6000)
        if n <= int(2.4e7 // w):
            return np.arange(n)
        budget = max(budget, 40)
        edge = max(6, budget // 5)
        marks = np.array([P16, P18, P20, P22, P24, w, w // 2, n - w, n // 2])
        mult = pos_rng.permutation(np.arange(1, n // P16 + 1))[: budget // 8] * P16
        cand = np.concatenate((np.arange(edge), np.arange(n - edge, n), marks - 1, marks, marks + 1, mult - 1, mult, pos_rng.integers(0, n, budget)))
        cand = cand[(cand >= 0) & (cand < n)]
        _, first = np.unique(cand, return_index=True)
        return np.sort(cand[np.sort(first)][:budget])

    def rf_case(n, w, dname, kind, cap=255, methods=METHODS, deredden=None, layout="C"):
        t0 = time.time()
        i = inp(kind, 2 * n + 1 if layout == "strided" else n, dname, cap)
        x = scale_layout(make(i), layout)
        x0 = x.copy()
        p = padded(x0, w)
        q = 8 if kind == "dyadic" else 1          # binary fractions k / 8: the exact moving sum is taken over the integers k
        c = np.zeros(len(p) + 1, dtype=np.int64)
        np.cumsum((p.astype(np.float64) * q).astype(np.int64) if q != 1 else p.astype(np.int64), out=c[1:])
        exp_mean = (c[w:] - c[:-w]) / float(w * q)
        del c
        P = rf_positions(n, w)
        for method in methods:
            case = {"api": "running_filter", "input": i, "window": w, "method": method, "generator": GEN}
            if layout != "C":
                case["layout"] = layout
            R.case(("scale", "rf", n, w, dname, kind, cap, method, layout), regime="scale")
            out = attempt(f"running_filter-{method}", case, lambda: stats.running_filter(x, w, method))
            untouched(x, x0, "running_filter", case)
            if out is None:
                continue
            sd = small_dtype("running_filter", dname, method)
            what = "running filter at scale differs from the aggregate of the centred, symmetrically reflected window"
            if np.asarray(out).shape != (n,):
                R.fail(f"scale-running_filter-{method}", "output length differs from the input length at scale", dict(case, got_shape=list(np.asarray(out).shape)))
                continue
            if method == "mean":
                verdict(f"running_filter-{method}", what, case, out, exp_mean, None, sd)
                exp_full = exp_mean
            else:
                win = np.lib.stride_tricks.sliding_window_view(p, w)
                exp_p = np.empty(len(P), dtype=np.float64)
                step = max(1, int(1.2e7 // w))
                for a in range(0, len(P), step):
                    exp_p[a:a + step] = np.median(win[P[a:a + step]].astype(np.float64), axis=1)
                d = _scale_diff(np.asarray(out)[P], exp_p, None, sd)
                if d is not None:
                    for k_ in ("first_bad_index", "last_bad_index", "example_index"):
                        if k_ in d:
                            d[k_] = int(P[d[k_]])
                    R.fail(f"scale-running_filter-{method}", what, dict(case, positions_compared=int(len(P)), **d))
                exp_full = None
            if deredden and (deredden == "both" or method == deredden) and dname == "float32" and round(w * tsamp / tsamp) == w:
                dcase = {"api": "TimeSeries.deredden", "input": i, "window_bins": w, "tsamp": tsamp, "method": method, "generator": GEN}
                if layout != "C":
                    dcase["layout"] = layout
                R.case(("scale", "dered", n, w, kind, cap, method, layout), regime="scale")
                ts = TimeSeries(x, header(1, n, "time series"))
                got = attempt(f"deredden-{method}", dcase, lambda: ts.deredden(method, window=w * tsamp).data)
                untouched(x, x0, "TimeSeries.deredden", dcase)
                if got is not None:
                    sdd = small_dtype("TimeSeries.deredden", dname, method)
                    whatd = "de-reddened series at scale is not the input minus its running filter"
                    if np.asarray(got).shape != (n,):
                        R.fail(f"scale-deredden-{method}", "de-reddened series has another length than the input at scale", dict(dcase, got_shape=list(np.asarray(got).shape)))
                    elif exp_full is not None:
                        verdict(f"deredden-{method}", whatd, dcase, got, x0.astype(np.float64) - exp_full, None, sdd)
                    else:
                        d = _scale_diff(np.asarray(got)[P], x0.astype(np.float64)[P] - exp_p, None, sdd)
                        if d is not None:
                            for k_ in ("first_bad_index", "last_bad_index", "example_index"):
                                if k_ in d:
                                    d[k_] = int(P[d[k_]])
                            R.fail(f"scale-deredden-{method}", whatd, dict(dcase, positions_compared=int(len(P)), **d))
                del ts
        timing[f"rf {n} {w} {dname}"] = round(time.time() - t0, 2)

    BOTH = "both"
    rf_table = [
        # float32: integer values with w * max < 2**24, so that a float32 moving sum is exact (deredden: values <= 255 only, as in `run`)
        (P16 - 1, 2, "float32", "wide", F24 // 2, METHODS, None), (P16 + 1, P16, "float32", "uniform", 255, METHODS, BOTH),
        (P16 + 1, 3 * (P16 + 1) + 1, "float32", "uniform", F24 // (3 * (P16 + 1) + 1), METHODS, BOTH),
        (P18 + 1, 16385, "float32", "high", 255, METHODS, BOTH), (P20 - 1, 3, "float32", "wide", F24 // 3, METHODS, None),
        (P20 + 1, P16 + 1, "float32", "ramp", 255, METHODS, BOTH), (P22 + 3, 16384, "float32", "uniform", 255, METHODS, "median"),
        (P24 + 5, 5, "float32", "wide", F24 // 5, METHODS, None), (P24 + 5, 70001, "float32", "uniform", F24 // 70001, METHODS, "mean"),
        # float64
        (P16, 101, "float64", "big", 255, METHODS, None), (P16 + 1, P16 + 1, "float64", "uniform", 255, METHODS, None),
        (P16, 2 * P16, "float64", "big", 255, METHODS, None), (P18 + 1, 2 * (P18 + 1) + 1, "float64", "ramp", 255, METHODS, None),
        (P20, 1000, "float64", "high", 255, METHODS, None), (P20 + 1, P20 + 2, "float64", "uniform", 255, METHODS, None),
        (P22 + 3, 4, "float64", "big", 255, METHODS, None), (SCALE_NBASE, 16384, "float64", "uniform", 255, ("mean",), None),
        # uint8: bottleneck has no compiled loop for 8-bit input (its NumPy fallback costs a Python call per sample), so only around 2**16
        (P16 + 1, 101, "uint8", "uniform", 255, METHODS, None), (P16, 2, "uint8", "high", 255, METHODS, None),
    ]
    for n, w, dname, kind, cap, methods, dered in rf_table:
        rf_case(n, w, dname, kind, cap, methods=methods, deredden=dered)
        gc.collect()
    # signed binary fractions; a series held as a strided / reversed / read-only view (a row of a block as read from a file, a memmap)
    rf_case(P16 + 1, 101, "float64", "dyadic")
    rf_case(P18 + 1, 16385, "float32", "dyadic", deredden=BOTH)
    rf_case(P18 + 1, 101, "float32", "uniform", deredden=BOTH, layout="strided")
    rf_case(P20 + 1, 4, "float64", "big", layout="reversed")
    rf_case(P16 + 1, P16 + 2, "float32", "dyadic", deredden="mean", layout="readonly")
    gc.collect()
    timing["A"] = round(time.time() - t_all, 1)

    # ---- B. decimation of a series -------------------------------------------------------------------------------------
    def ds1_case(n, dname, kind, factors, median_factors, cap=255, layout="C"):
        t0 = time.time()
        dt = DT[dname]
        i = inp(kind, 2 * n + 1 if layout == "strided" else n, dname, cap)
        x = scale_layout(make(i), layout)
        x0 = x.copy()
        ts = TimeSeries(x, header(1, n, "time series")) if dname == "float32" else None
        for f in factors:
            m = n // f
            g = x0[:m * f].reshape(m, f)
            for method in ("mean", "median"):
                if method == "median" and f not in median_factors:
                    continue
                if kind == "huge" and method == "median":
                    continue
                if method == "mean":
                    exp = g.sum(axis=1, dtype=np.int64 if dt is np.uint8 else np.float64) / float(f)
                else:
                    exp = _scale_median_rows(g)
                apis = [("downsample_1d", lambda: stats.downsample_1d(x, f, method))]
                if method == "mean":
                    apis += [("kernels.downsample_1d_mean", lambda: kernels.downsample_1d_mean(x, f)),
                             ("kernels.downsample_1d_mean_parallel", lambda: kernels.downsample_1d_mean_parallel(x, f))]
                if ts is not None and f != 1:
                    apis += [("TimeSeries.downsample", lambda: ts.downsample(f, method).data)]
                for api, fn in apis:
                    case = {"api": api, "input": i, "factor": f, "method": method, "generator": GEN}
                    if layout != "C":
                        case["layout"] = layout
                    R.case(("scale", api, n, f, dname, kind, method, layout), regime="scale")
                    key = {"downsample_1d": f"downsample_1d-{method}", "TimeSeries.downsample": f"timeseries-downsample-{method}"}.get(api, "kernel-" + api.split(".")[-1])
                    out = attempt(key, case, fn)
                    untouched(x, x0, api, case)
                    if out is not None:
                        verdict(key, f"entry i of {api} at scale is not the {method} of x[i f : (i+1) f] (length floor(n/f))", case, out, exp,
                                store_dtype(api, method, dt), small_dtype(api, dname, method))
                del exp
            del g
        timing[f"ds1 {n} {dname}"] = round(time.time() - t0, 2)

    ds1_table = [
        (P16 - 1, "uint8", "high", (1, 2, 49, 255, 256, P16 - 1), (2, 255, P16 - 1)),
        (P16, "float32", "uniform", (2, 256, 257, P16 // 2, P16), (256, P16)),
        (P16 + 1, "float64", "big", (3, 49, P16, P16 + 1), (3, P16)),
        (P16 + 1, "uint8", "uniform", (1, 3, 103, P16, P16 + 1), (103, P16 + 1)),
        (P18 + 1, "float32", "huge", (2, 103, P16 + 1, P18 + 1), ()),
        (P18 + 1, "uint8", "ramp", (7, P16 + 1, (P18 + 1) // 2, P18 + 1), (7, P18 + 1)),
        (P20, "uint8", "uniform", (2, 49, P16, P20 // 2, P20), (49, P20)),
        (P20 + 1, "uint8", "high", (3, 1000, P16 + 1, (P20 + 1) // 3, P20 + 1), (1000, P16 + 1)),
        (P20 + 1, "float32", "ramp", (2, 7, P16 + 1, P20 + 1), (7, P20 + 1)),
        (P20 + 1, "float64", "big", (5, 65536, P20), (5,)),
        (P22, "uint8", "ramp", (4, 49, P16 + 1, P22), (4,)),
        (P22 + 1, "uint8", "high", (2, 107, (1 << 21) + 1, P22 + 1), (107, P22 + 1)),
        (P22 + 1, "float32", "uniform", (3, P16 + 1, P22 + 1), (P16 + 1,)),
        (P22 + 1, "float64", "huge", (2, 196, P22 + 1), ()),
        (P24, "uint8", "uniform", (2, 256, P16 + 1, P24), (256,)),
        (P24 + 1, "uint8", "high", (3, 49, (1 << 23) + 1, P24 + 1), (3, P24 + 1)),
        (P24 + 1, "float32", "uniform", (2, P16 + 1, P24 + 1), (P16 + 1,)),
        (P24 + 1, "float64", "big", (7, P20 + 1), (7,)),
        (SCALE_NBASE, "float32", "huge", (4097, 5), ()),
    ]
    for n, dname, kind, factors, medf in ds1_table:
        ds1_case(n, dname, kind, factors, medf)
        gc.collect()
    ds1_case(P16 + 1, "float32", "dyadic", (7, 256, P16 + 1), (7,))
    ds1_case(P20 + 1, "float64", "dyadic", (3, P16 + 1), (3,))
    ds1_case(P20 + 1, "float32", "uniform", (3, P16 + 1, P20 + 1), (3,), layout="strided")
    ds1_case(P22 + 1, "uint8", "high", (2, 107, P22 + 1), (107,), layout="reversed")
    ds1_case(P20 + 1, "float64", "big", (5, P16), (5,), layout="readonly")
    ds1_case(P22 + 1, "uint8", "uniform", (3, 49), (49,), layout="strided")
    gc.collect()
    timing["B"] = round(time.time() - t_all, 1)

    # ---- C. decimation of a block (2-D, flat, parallel kernel, FilterbankBlock) --------------------------------------------
    def ds2_case(d1, d2, dname, kind, pairs, median_pairs, layout="C"):
        t0 = time.time()
        dt = DT[dname]
        for (f1, f2) in pairs:
            cap = 255
            if dname == "float32":        # np.mean accumulates a float32 block in float32: keep every group sum exact
                cap = min(255, F24 // (f1 * f2))
                if cap < 1:
                    continue
            i = inp(kind, (2 if layout == "strided" else 1) * d1 * d2, dname, cap)
            x = scale_layout(make(i), layout, (d1, d2))
            x0 = np.array(x, order="C", copy=True)
            m1, m2 = d1 // f1, d2 // f2
            g4 = x0[:m1 * f1, :m2 * f2].reshape(m1, f1, m2, f2)
            blk = FilterbankBlock(x, header(d1, d2, "filterbank")) if dname == "float32" else None
            # the definition itself on a few groups (corners + random): entry (i, j) is the aggregate of rows i f1.. and columns j f2..
            spots = {(0, 0), (m1 - 1, m2 - 1), (0, m2 - 1), (m1 - 1, 0)} | {(int(a), int(b)) for a, b in zip(pos_rng.integers(0, m1, 24), pos_rng.integers(0, m2, 24))}
            for method in ("mean", "median"):
                if method == "median" and (f1, f2) not in median_pairs:
                    continue
                if method == "mean":
                    exp = g4.sum(axis=(1, 3), dtype=np.int64 if dt is np.uint8 else np.float64) / float(f1 * f2)
                else:
                    exp = _scale_median_rows(g4.transpose(0, 2, 1, 3).reshape(m1 * m2, f1 * f2)).reshape(m1, m2)
                op = np.mean if method == "mean" else np.median
                for (a, b) in spots:
                    v = float(op(x0[a * f1:(a + 1) * f1, b * f2:(b + 1) * f2].astype(np.float64)))
                    if abs(v - exp[a, b]) > 1e-9 * max(1.0, abs(v)):
                        raise AssertionError(f"scale(): vectorised reference differs from the definition at group {(a, b)} of {(d1, d2, f1, f2, dname, method)}")
                apis = [("downsample_2d", lambda: stats.downsample_2d(x, (f1, f2), method), False)]
                if layout == "C":          # the flat APIs take a 1-D array: x.reshape(-1) of another layout would be a fresh contiguous copy
                    apis += [("downsample_2d_flat", lambda: stats.downsample_2d_flat(x.reshape(-1), f1, f2, d1, d2, method), True)]
                if method == "mean" and layout == "C":
                    apis += [("kernels.downsample_2d_mean_parallel", lambda: kernels.downsample_2d_mean_parallel(x.reshape(-1), f1, f2, d1, d2), True)]
                if blk is not None:
                    apis += [("FilterbankBlock.downsample", lambda: blk.downsample(f1, f2, method).data, False)]
                for api, fn, flat in apis:
                    case = {"api": api, "input": i, "shape": [d1, d2], "factors": [f1, f2], "method": method, "generator": GEN}
                    if layout != "C":
                        case["layout"] = layout
                    R.case(("scale", api, d1, d2, f1, f2, dname, kind, method, layout), regime="scale")
                    key = {"downsample_2d": f"downsample_2d-{method}", "downsample_2d_flat": f"downsample_2d_flat-{method}",
                           "FilterbankBlock.downsample": f"block-downsample-{method}"}.get(api, "kernel-" + api.split(".")[-1])
                    out = attempt(key, case, fn)
                    untouched(x, x0, api, case)
                    if out is not None:
                        verdict(key, f"entry (i, j) of {api} at scale is not the {method} of rows i f1.. and columns j f2.. (full groups only)", case, out,
                                exp.ravel() if flat else exp, store_dtype(api, method, dt), small_dtype(api, dname, method))
                del exp
            del g4, x, x0, blk
            gc.collect()
        timing[f"ds2 {d1}x{d2} {dname}"] = round(time.time() - t0, 2)

    ds2_table = [
        (64, 16385, "uint8", "uniform", ((1, 3), (64, 1), (4, 8)), ((4, 8),)),
        (64, 16385, "float32", "high", ((4, 8), (3, 16385)), ((3, 16385),)),
        (1024, 4096, "uint8", "high", ((1, 3), (4, 8)), ((1, 3),)),
        (1024, 4096, "float64", "big", ((3, 5),), ()),
        (1024, 4100, "uint8", "uniform", ((3, 5), (1024, 1), (1, 4100)), ((1, 4100),)),
        (1024, 4100, "float32", "uniform", ((1, 3), (4, 8), (1024, 4)), ((4, 8),)),
        (1024, 4100, "float64", "uniform", ((3, 5),), ((3, 5),)),
        (2050, 2048, "uint8", "ramp", ((7, 7), (2, 2048)), ((7, 7),)),
        (2050, 2048, "float32", "ramp", ((7, 7),), ()),
        (P16 + 1, 65, "uint8", "uniform", ((2, 5), (P16 + 1, 1), (3, 65)), ((2, 5),)),
        (P16 + 1, 65, "float32", "uniform", ((P16, 3), (2, 5)), ()),
        (3, P20 + 7, "uint8", "high", ((3, 1), (2, P16 + 1)), ((2, P16 + 1),)),
        (3, P20 + 7, "float64", "big", ((1, P16 + 1),), ()),
        (P18 + 1, 5, "float32", "uniform", ((P16 + 1, 5), (1, 2)), ((1, 2),)),
        (1, P22 + 3, "uint8", "uniform", ((1, 3), (1, P16 + 1)), ((1, 3),)),
        (4096, 4097, "uint8", "uniform", ((1, 3), (4, 8)), ((4, 8),)),
        (4096, 4097, "float32", "uniform", ((3, 5),), ()),
        (4096, 4097, "float64", "uniform", ((4, 8),), ()),
    ]
    for d1, d2, dname, kind, pairs, medp in ds2_table:
        ds2_case(d1, d2, dname, kind, pairs, medp)
    ds2_case(1024, 4100, "float32", "dyadic", ((4, 8), (1024, 4)), ((4, 8),))
    ds2_case(1024, 4100, "float64", "dyadic", ((3, 5),), ())
    # a block as FilReader.read_block hands it over (a transposed view: Fortran-contiguous) and a block that is every second column of a wider one
    ds2_case(1024, 4100, "uint8", "uniform", ((3, 5), (4, 8)), ((4, 8),), layout="transposed")
    ds2_case(1024, 4100, "float32", "uniform", ((4, 8), (1024, 4)), ((4, 8),), layout="transposed")
    ds2_case(4096, 4097, "float32", "uniform", ((3, 5),), (), layout="transposed")
    ds2_case(2050, 2048, "float64", "ramp", ((7, 7),), (), layout="strided")
    ds2_case(2050, 2048, "uint8", "high", ((2, 2048), (7, 7)), ((7, 7),), layout="strided")
    timing["C"] = round(time.time() - t_all, 1)

    # ---- D. detrend ---------------------------------------------------------------------------------------------------
    def det_case(m, dname, kind, slope=0.0, layout="C"):
        t0 = time.time()
        i = inp(kind, 2 * m + 1 if layout == "strided" else m, dname)
        x = scale_layout(make(i), layout)
        if slope:
            x = x + slope * np.arange(m)            # float64 only: a steep line whose index term needs more than 24 bits
        x0 = x.copy()
        case = {"api": "kernels.detrend_1d", "input": i, "added_line": f"+ {slope} * arange(n)" if slope else None, "generator": GEN}
        if layout != "C":
            case["layout"] = layout
        R.case(("scale", "detrend", m, dname, kind, slope, layout), regime="scale")
        out = attempt("detrend_1d", case, lambda: kernels.detrend_1d(x))
        untouched(x, x0, "kernels.detrend_1d", case)
        if out is None:
            return
        out = np.asarray(out)
        sd = small_dtype("detrend_1d", dname, "mean")
        if out.shape != (m,) or (sd is not None and out.dtype != sd):
            R.fail("scale-detrend_1d", "detrend_1d at scale: length or dtype of the result differs from the small-input behaviour",
                   dict(case, got_shape=list(out.shape), got_dtype=str(out.dtype), dtype_of_the_same_call_on_a_small_input=str(sd)))
            return
        xf = x0.astype(np.float64)
        exp = np.arange(m, dtype=np.float64)
        exp -= (m - 1) / 2.0                                    # centred index: the least-squares line is ybar + slope * (i - ibar)
        yb = float(xf.mean())
        sl = float(np.dot(exp, xf - yb) / np.dot(exp, exp))
        exp *= -sl
        exp += xf
        exp -= yb                                               # exp = x - (ybar + slope * (i - ibar)), built in place
        vmax = max(1.0, float(np.abs(xf).max()))
        del xf
        o = out.astype(np.float64)
        # a tenth of the tolerance of `run` for lengths above 64 (measured error on the unchanged tree: below 1e-4 of this bound)
        tol = (2e-5 if out.dtype == np.float32 else 1e-9) * vmax * 5
        dif = np.abs(o - exp)
        err, k = float(dif.max()), int(np.argmax(dif))
        del dif
        s0 = abs(float(o.sum())) / m
        s1 = abs(float(np.dot(np.arange(m, dtype=np.float64), o))) / (m * max(m - 1, 1))
        if not (err <= tol and s0 <= tol and s1 <= tol):
            R.fail("scale-detrend_1d", "detrend_1d at scale is not the least-squares residual (normal equations sum r = 0, sum i r = 0 violated)",
                   dict(case, max_abs_error=err, at_index=k, got=float(o[k]), definition=float(exp[k]), mean_residual=s0, mean_first_moment=s1,
                        tolerance=tol, out_dtype=str(out.dtype)))
        timing[f"det {m} {dname}"] = round(time.time() - t0, 2)

    for m, dname, kind, slope in [(P16 + 1, "uint8", "ramp", 0), (P16 + 1, "float32", "uniform", 0), (P18 + 1, "float64", "big", 0),
                                  (P20 + 1, "uint8", "high", 0), (P20 + 1, "float32", "ramp", 0), (P22 + 1, "float64", "uniform", 0.75),
                                  (P24 + 5, "float32", "uniform", 0), (P24 + 5, "uint8", "uniform", 0), (P24 + 5, "float64", "uniform", 1.0)]:
        det_case(m, dname, kind, slope)
        gc.collect()
    det_case(P18 + 1, "float64", "dyadic")
    det_case(P20 + 1, "float32", "dyadic", layout="strided")
    det_case(P20 + 1, "uint8", "uniform", layout="reversed")
    gc.collect()
    timing["D"] = round(time.time() - t_all, 1)

    # ---- E. long histories on ONE large object: every result is the definition on the ORIGINAL data ------------------------
    def history(n, dname, nops, tag):
        t0 = time.time()
        dt = DT[dname]
        i = inp("uniform", n, dname)
        x = make(i)
        x0 = x.copy()
        hr = np.random.default_rng([seed, 99, n])
        ts = TimeSeries(x, header(1, n, "time series")) if dname == "float32" else None
        done = []
        for k in range(nops):
            c = ["ds1", "ds1", "k1", "k1p", "rf", "det", "tsds", "dered"][int(hr.integers(0, 8 if ts is not None else 6))]
            method = METHODS[int(hr.integers(0, 2))]
            f = int([2, 3, 49, 256, P16 + 1, n // 2, n][int(hr.integers(0, 7))])
            w = int([2, 5, 101, 4097][int(hr.integers(0, 4))]) if dname != "uint8" else int([2, 3][int(hr.integers(0, 2))])
            if c == "rf" and dname == "uint8" and (n > P16 + 1 or sum(1 for d_ in done if d_[0] == "rf") >= 2):
                c = "ds1"            # bottleneck's 8-bit fallback costs a Python call per sample
            if c in ("ds1", "tsds"):
                op = [c, f, method]
                g = x0[:(n // f) * f].reshape(n // f, f)
                exp = g.sum(axis=1, dtype=np.float64) / float(f) if method == "mean" else _scale_median_rows(g)
                api = "downsample_1d" if c == "ds1" else "TimeSeries.downsample"
                fn = (lambda: stats.downsample_1d(x, f, method)) if c == "ds1" else (lambda: ts.downsample(f, method).data)
                ind = store_dtype(api, method, dt)
            elif c in ("k1", "k1p"):
                op = [c, f]
                method = "mean"
                exp = x0[:(n // f) * f].reshape(n // f, f).sum(axis=1, dtype=np.float64) / float(f)
                api = "kernels.downsample_1d_mean" + ("_parallel" if c == "k1p" else "")
                fn = (lambda: kernels.downsample_1d_mean(x, f)) if c == "k1" else (lambda: kernels.downsample_1d_mean_parallel(x, f))
                ind = dt
            elif c in ("rf", "dered"):
                method = "mean"
                op = [c, w, method]
                p = padded(x0, w)
                cs = np.zeros(len(p) + 1, dtype=np.int64)
                np.cumsum(p.astype(np.int64), out=cs[1:])
                exp = (cs[w:] - cs[:-w]) / float(w)
                if c == "dered":
                    exp = x0.astype(np.float64) - exp
                api = "running_filter" if c == "rf" else "TimeSeries.deredden"
                fn = (lambda: stats.running_filter(x, w, "mean")) if c == "rf" else (lambda: ts.deredden("mean", window=w * tsamp).data)
                ind = None
            else:
                op = ["det"]
                method = "mean"
                xf = x0.astype(np.float64)
                ic = np.arange(n, dtype=np.float64) - (n - 1) / 2.0
                exp = xf - (xf.mean() + np.dot(ic, xf - xf.mean()) / np.dot(ic, ic) * ic)
                api, fn, ind = "detrend_1d", (lambda: kernels.detrend_1d(x)), None
            case = {"api": api, "input": i, "call": op, "number_of_earlier_calls_on_the_same_object": len(done), "earlier_calls": done[-12:],
                    "history": f"numpy.random.default_rng([{seed}, 99, {n}]) stream in scale() history()", "generator": GEN}
            R.case(("scale", "history", tag, n, dname, k), regime="scale")
            out = attempt(f"history-{api}", case, fn)
            if out is None:
                break
            sd = small_dtype(api, dname, method)
            if api == "detrend_1d":
                o = np.asarray(out)
                bad = o.shape != exp.shape or (sd is not None and o.dtype != sd) or not bool(
                    np.allclose(o.astype(np.float64), exp, rtol=0, atol=(2e-5 if o.dtype == np.float32 else 1e-9) * 256 * 50))
                d = {"problem": "not the least-squares residual of the original data"} if bad else None
            else:
                d = _scale_diff(out, exp, ind, sd)
            changed = not np.array_equal(x.view(np.uint8), x0.view(np.uint8))
            if d is not None or changed:
                R.fail(f"scale-history-{api}", f"{api} on a large array / TimeSeries that earlier calls were applied to is not the definition on the "
                       "original data, or the data changed", dict(case, array_changed=changed, **(d or {})))
                break
            done.append(op)
        timing[f"hist {n} {dname}"] = round(time.time() - t0, 2)

    history(P16 + 1, "uint8", 120, "long")
    history(P16 + 1, "float32", 120, "long")
    history(P20 + 3, "float32", 30, "large")
    history(P20 + 3, "uint8", 24, "large")
    history(P22 + 1, "float64", 12, "large")
    timing["E"] = round(time.time() - t_all, 1)

    R.extra_cov["scale_seconds"] = round(time.time() - t_all, 1)
    if os.environ.get("VERIF_SCALE_TIMING") == "1":
        print("scale timing:", timing)
    return R


def scale(R: vlib.Run):
    """the at-scale search of C14 (see _scale_search); nothing is written to disk, the shared input stream is dropped afterwards"""
    import gc
    try:
        return _scale_search(R)
    finally:
        _SCALE_BASE.clear()
        gc.collect()
