"""C14 -- time-domain filters and decimators equal their definitions.

Proof: Props/C14.v over Gen/Kernels.v (the two compiled mean kernels) and Gen/C14_stats.v (pad sizes / slice of
running_filter, kernel-call argument order, NumPy crop/reshape/axes, call sites, detrend_1d over Q), all regenerated
from the source on every run.
Correspondence: the executable model (Model/C14_filters.v composed with the generated definitions) under vm_compute
versus the implementation on the same inputs; the two modelling assumptions (NumPy symmetric pad = index map `sym`,
bottleneck moving window = aggregate of the trailing w entries) are checked on the same sweep.
Oracle: the property restated with NumPy index arithmetic / exact fractions, evaluated against the implementation."""
import re
from fractions import Fraction

import numpy as np

import vlib

DTYPES = [("float32", np.float32), ("float64", np.float64), ("uint8", np.uint8)]
METHODS = ("mean", "median")


# ------------------------------------------------------------------------------------------------
# the property in plain NumPy
# ------------------------------------------------------------------------------------------------

def sym_idx(n, k):
    m = np.mod(k, 2 * n)
    return np.where(m < n, m, 2 * n - 1 - m)


def spec_running(x, w, method):
    """window of width w centred on each sample (offsets -(w//2) .. w-1-(w//2)), series reflected symmetrically"""
    n = len(x)
    idx = sym_idx(n, np.arange(n)[:, None] - w // 2 + np.arange(w)[None, :])
    win = x.astype(np.float64)[idx]
    return win.mean(axis=1) if method == "mean" else np.median(win, axis=1)


def spec_ds1(x, f, method):
    n = len(x)
    op = np.mean if method == "mean" else np.median
    return np.array([op(x[i * f:(i + 1) * f].astype(np.float64)) for i in range(n // f)], dtype=np.float64)


def spec_ds2(x, f1, f2, method):
    d1, d2 = x.shape
    op = np.mean if method == "mean" else np.median
    out = np.empty((d1 // f1, d2 // f2), dtype=np.float64)
    for i in range(d1 // f1):
        for j in range(d2 // f2):
            out[i, j] = op(x[i * f1:(i + 1) * f1, j * f2:(j + 1) * f2].astype(np.float64))
    return out


def spec_detrend_exact(vals):
    """least-squares residual of a straight-line fit, exact rationals"""
    m = len(vals)
    if m == 1:
        return [Fraction(0)]
    y = [Fraction(int(v)) for v in vals]
    sx = Fraction(m * (m - 1), 2)
    sxx = Fraction(m * (m - 1) * (2 * m - 1), 6)
    sy = sum(y)
    sxy = sum(i * v for i, v in enumerate(y))
    slope = (m * sxy - sx * sy) / (m * sxx - sx * sx)
    icpt = (sy - slope * sx) / m
    return [v - (slope * i + icpt) for i, v in enumerate(y)]


def tol_for(out):
    return (1e-5, 1e-4) if out.dtype == np.float32 else (1e-12, 1e-9)


def agrees(out, exp, in_dtype=None):
    """values equal the definition up to the rounding of the output dtype; for an integer input dtype the value may
    also be the definition converted to that dtype at the very end (the mean kernels store into array.dtype)"""
    out = np.asarray(out)
    exp = np.asarray(exp, dtype=np.float64)
    if out.shape != exp.shape:
        return False
    if out.dtype.kind == "f":
        rt, at = tol_for(out)
        return bool(np.allclose(out.astype(np.float64), exp, rtol=rt, atol=at))
    if in_dtype is not None and out.dtype == np.dtype(in_dtype):
        return bool(np.array_equal(out, exp.astype(in_dtype)))
    return False


def L(a):
    return [x.item() if hasattr(x, "item") else x for x in np.asarray(a).ravel().tolist()]


# ------------------------------------------------------------------------------------------------

def run(R: vlib.Run):
    from sigpyproc.block import FilterbankBlock
    from sigpyproc.core import kernels, stats
    from sigpyproc.header import Header
    from sigpyproc.timeseries import TimeSeries
    import bottleneck as bn

    # (a) every API of the property is a query: whatever array it is given must be bit-identical afterwards.  The sweeps below
    # go through these guards (which also restore the array, so that each sweep case stays a statement about ONE call);
    # the histories of section 6 use the raw modules, so that a modification persists and shows in the later results.
    stats_raw, kernels_raw = stats, kernels

    def same_bits(a, b):
        return a.dtype == b.dtype and a.shape == b.shape and a.tobytes() == b.tobytes()

    def report_mutation(api, before, after, how):
        R.fail(f"input-mutated-{api}", f"{api} modified the array it was given (a filter / decimator must leave its input bit-identical)",
               {"api": api, "call": how, "dtype": str(before.dtype), "shape": list(before.shape),
                "input_before": L(before)[:400], "input_after": L(after)[:400]})

    class Guard:
        def __init__(self, mod, prefix):
            self._mod, self._prefix = mod, prefix

        def __getattr__(self, name):
            fn = getattr(self._mod, name)
            api = f"{self._prefix}{name}"

            def g(*args, **kw):
                arrs = [a for a in args if isinstance(a, np.ndarray)]
                before = [a.copy() for a in arrs]
                try:
                    return fn(*args, **kw)
                finally:
                    for a, b in zip(arrs, before):
                        if not same_bits(a, b):
                            report_mutation(api, b, a.copy(), f"{api}(" + ", ".join(repr(x) for x in args if not isinstance(x, np.ndarray)) + ")")
                            a[...] = b
            return g

    stats, kernels = Guard(stats_raw, ""), Guard(kernels_raw, "kernels.")

    def guarded_method(api, obj, how, call):
        """call() uses obj (TimeSeries / FilterbankBlock): obj.data must be bit-identical afterwards"""
        before = obj.data.copy()
        try:
            return call()
        finally:
            if not same_bits(obj.data, before):
                report_mutation(api, before, obj.data.copy(), how)
                obj.data[...] = before

    quick = R.tier == "quick"
    R.rule = ("running filter: every length 1..N x every width 1..3n+1 x {mean, median} x {float32, float64, uint8} (exhaustive over "
              "the shape lattice, integer-valued random content so that the definition is exact); decimators: every length 1..N x "
              "every factor 1..n, every shape up to D x D x every factor pair, both methods, three dtypes, 1-D / 2-D / flat / kernels / "
              "parallel kernels; every call is followed by a bit-identity check of the array it was given; histories of 2-5 calls on ONE "
              "array / TimeSeries / block (all ordered pairs for n = 5, 8, 13, then random) are compared with the definition on the original data; detrend: lengths 1..N, three dtypes, plus lengths around 2^16 and beyond the int64 limit of the closed "
              "form; TimeSeries.deredden/downsample and FilterbankBlock.downsample on non-square shapes.  A case is non-trivial if "
              "the input has >= 2 samples; distinct = distinct (function, shape, parameters, dtype, method)")
    R.trusted += [
        "Coq 8.16.1 kernel + vm_compute (correspondence, witnesses, examples)",
        "tools/py2coq translator (Gen/Kernels.v) and its plug-in tools/py2coq/gen_c14.py (Gen/C14_stats.v): Python ast -> Gallina; assumed numba "
        "semantics: prange runs each iteration once, int64 + - * wrap, float64 accumulator sums integer-valued data exactly, np.empty is arbitrary",
        "hand model Model/C14_filters.v: np.pad(mode='symmetric') as the index map sym (validated here for every pad incl. pad > length), "
        "C-order reshape + reduction over axes (1,3) as index arithmetic, composition pad -> moving window -> slice",
        "bottleneck move_mean/move_median are a Section variable specified as 'aggregate of the trailing w entries' (validated here on the same sweep)",
        "NumPy median/mean as the aggregate (parameter `agg`); float32/float64 rounding (theorems are over exact integers / rationals)",
        "correspondence harness and oracle tools/harness/props/c14.py",
    ]
    R.assume += ["numba compiles the kernels according to their Python text",
                 "sample values are integers with exactly representable sums (the generators guarantee it)",
                 "TimeSeries.deredden converts seconds to bins with round(window / tsamp); only whole-bin windows are exercised"]
    proved = R.prove("Props/C14.v")

    rng = R.rng
    nprng = np.random.default_rng(rng.randrange(2 ** 32))
    NMAX = 40 if quick else 72
    DMAX = 7 if quick else 11

    def rand_int_array(shape, dt, kind=None):
        kind = kind or rng.choice(["uniform", "uniform", "high", "ramp"] + (["big", "big"] if dt is np.float64 else []))
        n = int(np.prod(shape))
        if kind == "big":           # integers that a float32 accumulator cannot hold; float64 sums stay exact
            a = (1 << 30) + nprng.integers(0, 1000, n)
        elif kind == "high":          # sums overflow uint8 immediately; float32 sums stay exact
            a = nprng.integers(200, 256, n)
        elif kind == "ramp":
            a = (np.arange(n) * rng.randrange(1, 5) + rng.randrange(0, 20)) % 256
        else:
            a = nprng.integers(0, 256, n)
        return a.reshape(shape).astype(dt)

    corr_rf, corr_ds, corr_det = [], [], []     # correspondence cases collected on the way

    # ---- 1. running filter ---------------------------------------------------------------------
    assumption_bad = 0
    for n in range(1, NMAX + 1):
        for dname, dt in DTYPES:
            x = rand_int_array((n,), dt)
            for w in range(1, 3 * n + 2):
                pl, pr = w // 2, (w // 2 if w % 2 else w // 2 - 1)
                # modelling assumptions, checked against NumPy and bottleneck themselves
                padded_model = x[sym_idx(n, np.arange(-pl, n + pr))]
                try:
                    padded_np = np.pad(x, (pl, pr), "symmetric")
                    if not np.array_equal(padded_np, padded_model):
                        assumption_bad += 1
                        if assumption_bad <= 3:
                            R.disagree("assumption: np.pad(mode='symmetric') differs from the index map sym",
                                       {"x": L(x), "pad": [pl, pr], "numpy": L(padded_np), "model": L(padded_model)})
                except Exception as e:  # noqa: BLE001
                    R.disagree(f"assumption: np.pad raised {type(e).__name__}", {"x": L(x), "pad": [pl, pr]})
                for method in METHODS:
                    mv = (bn.move_mean if method == "mean" else bn.move_median)(padded_model, w)
                    winm = np.lib.stride_tricks.sliding_window_view(padded_model.astype(np.float64), w)
                    ref = winm.mean(axis=1) if method == "mean" else np.median(winm, axis=1)
                    if not agrees(mv[w - 1:], ref):
                        assumption_bad += 1
                        if assumption_bad <= 3:
                            R.disagree(f"assumption: bottleneck move_{method} is not the aggregate of the trailing w entries",
                                       {"a": L(padded_model), "w": w, "bn": L(mv[w - 1:]), "expected": L(ref)})
                    parity = "even" if w % 2 == 0 else "odd"
                    wide = "wide" if w > n else "narrow"
                    R.case(("rf", n, w, dname, method), nontrivial=n >= 2, regime=f"running_filter/{parity}/{wide}",
                           sample={"fn": "running_filter", "x": L(x), "w": w, "method": method, "dtype": dname} if (n, w, dname) == (5, 8, "uint8") else None)
                    exp = spec_running(x, w, method)
                    case = {"x": L(x), "dtype": dname, "window": w, "method": method, "expected": L(exp)}
                    try:
                        out = stats.running_filter(x, w, method)
                    except Exception as e:  # noqa: BLE001
                        R.fail(f"running_filter-{method}-{parity}-{wide}", f"running_filter raised {type(e).__name__}: {e}", case)
                        continue
                    if out.shape != (n,):
                        R.fail(f"running_filter-length-{parity}-{wide}", "output length differs from the input length", dict(case, got=L(out)))
                    elif not agrees(out, exp):
                        R.fail(f"running_filter-{method}-{parity}-{wide}",
                               "running filter differs from the aggregate of the centred, symmetrically reflected window", dict(case, got=L(out)))
                    if n <= 9 and dname == "float64" and (w <= 12 or w in (2 * n, 2 * n + 1, 3 * n, 3 * n + 1)):
                        scale = w if method == "mean" else 2
                        corr_rf.append((L(x.astype(np.int64)), w, method == "median", [int(round(float(v) * scale)) for v in out]))

    # ---- 2. decimation of a series ----------------------------------------------------------------
    for n in range(1, NMAX + 1):
        for dname, dt in DTYPES:
            x = rand_int_array((n,), dt)
            for f in range(1, n + 1):
                for method in METHODS:
                    R.case(("ds1", n, f, dname, method), nontrivial=n >= 2, regime=f"downsample_1d/{method}",
                           sample={"fn": "downsample_1d", "x": L(x), "factor": f, "method": method, "dtype": dname} if (n, f, dname) == (7, 3, "uint8") else None)
                    exp = spec_ds1(x, f, method)
                    kindk = "int" if dt is np.uint8 else "float"
                    case = {"x": L(x), "dtype": dname, "factor": f, "method": method, "expected": L(exp)}
                    try:
                        out = stats.downsample_1d(x, f, method)
                    except Exception as e:  # noqa: BLE001
                        R.fail(f"downsample_1d-{method}-{kindk}", f"downsample_1d raised {type(e).__name__}: {e}", case)
                        continue
                    if not agrees(out, exp, dt):
                        R.fail(f"downsample_1d-{method}-{kindk}", "entry i is not the mean/median of x[i f : (i+1) f] (length floor(n/f))", dict(case, got=L(out)))
                    if n <= 12 and (dname != "float32"):
                        if method == "mean":
                            vals = [int(v) for v in out] if dt is np.uint8 else [int(round(float(v) * f)) for v in out]
                        else:
                            vals = [int(round(float(v) * 2)) for v in out]
                        corr_ds.append(("d1", method == "median", dt is np.uint8, L(x.astype(np.int64)), [f], vals))
                # the kernel and its parallel twin directly
                if dt is not np.uint8 or True:
                    for kname in ("downsample_1d_mean", "downsample_1d_mean_parallel"):
                        if kname.endswith("parallel") and (n % 3 or f % 2):
                            continue
                        out = getattr(kernels, kname)(x, f)
                        R.case(("k1", kname, n, f, dname), nontrivial=n >= 2, regime=f"kernel/{kname}")
                        if not agrees(out, spec_ds1(x, f, "mean"), dt):
                            R.fail(f"kernel-{kname}", "kernel differs from the group mean", {"x": L(x), "dtype": dname, "factor": f, "got": L(out)})

    # group sizes whose reciprocal is not exact enough: an exactly divisible sum times (1 / f) falls one ulp short, and a
    # store into an integer array then truncates it to the integer below (means that are whole numbers must come out whole)
    for f in (49, 98, 103, 107) if quick else (49, 98, 103, 107, 161, 187, 196, 197, 206, 214, 237, 239, 249, 253):
        for n in (f, 2 * f + 5):
            for dname, dt in DTYPES:
                for kind in ("const", "ramp4", "uniform"):
                    if kind == "const":
                        x = np.full(n, rng.randrange(1, 256)).astype(dt)
                    elif kind == "ramp4":
                        x = ((13 + 4 * np.arange(n)) % 256).astype(dt)
                    else:
                        x = rand_int_array((n,), dt, kind="uniform")
                    kindk = "int" if dt is np.uint8 else "float"
                    for method in METHODS:
                        R.case(("ds1r", n, f, dname, method, kind), regime=f"downsample_1d/{method}/reciprocal-sensitive")
                        exp = spec_ds1(x, f, method)
                        out = stats.downsample_1d(x, f, method)
                        if not agrees(out, exp, dt):
                            R.fail(f"downsample_1d-{method}-{kindk}", "entry i is not the mean/median of x[i f : (i+1) f] (group size whose reciprocal is inexact)",
                                   {"x": L(x), "dtype": dname, "factor": f, "method": method, "expected": L(exp), "got": L(out)})
                        if method == "mean" and n == f and dname != "float32":
                            vals = [int(v) for v in out] if dt is np.uint8 else [int(round(float(v) * f)) for v in out]
                            corr_ds.append(("d1", False, dt is np.uint8, L(x.astype(np.int64)), [f], vals))
                    for kname in ("downsample_1d_mean", "downsample_1d_mean_parallel"):
                        out = getattr(kernels, kname)(x, f)
                        R.case(("k1r", kname, n, f, dname, kind), regime=f"kernel/{kname}")
                        if not agrees(out, spec_ds1(x, f, "mean"), dt):
                            R.fail(f"kernel-{kname}", "kernel differs from the group mean (group size whose reciprocal is inexact)",
                                   {"x": L(x), "dtype": dname, "factor": f, "got": L(out)})
    for (d1, d2, f1, f2) in [(7, 7, 7, 7), (8, 15, 7, 7), (1, 49, 1, 49), (49, 2, 49, 1), (14, 8, 14, 7), (2, 103, 1, 103)]:
        for dname, dt in DTYPES:
            for kind in ("const", "uniform"):
                x = (np.full((d1, d2), rng.randrange(1, 256)) if kind == "const" else rand_int_array((d1, d2), dt, kind="uniform")).astype(dt)
                kindk = "int" if dt is np.uint8 else "float"
                exp = spec_ds2(x, f1, f2, "mean")
                case = {"x": L(x), "shape": [d1, d2], "dtype": dname, "factors": [f1, f2], "method": "mean", "expected": L(exp)}
                R.case(("ds2r", d1, d2, f1, f2, dname, kind), regime="downsample_2d_flat/mean/reciprocal-sensitive")
                outf = stats.downsample_2d_flat(x.ravel(), f1, f2, d1, d2, "mean")
                if not agrees(outf, exp.ravel(), dt):
                    R.fail(f"downsample_2d_flat-mean-{kindk}", "flat entry k is not the mean of its group (group size whose reciprocal is inexact)", dict(case, got=L(outf)))
                out2 = stats.downsample_2d(x, (f1, f2), "mean")
                if not agrees(out2, exp, dt):
                    R.fail(f"downsample_2d-mean-{kindk}", "entry (i, j) is not the mean of its group (group size whose reciprocal is inexact)", dict(case, got=L(out2)))
                outp = kernels.downsample_2d_mean_parallel(x.ravel(), f1, f2, d1, d2)
                if not agrees(outp, exp.ravel(), dt):
                    R.fail("kernel-downsample_2d_mean_parallel", "parallel kernel differs from the group mean (group size whose reciprocal is inexact)", dict(case, got=L(outp)))
                if dname != "float32":
                    vf = [int(v) for v in outf] if dt is np.uint8 else [int(round(float(v) * f1 * f2)) for v in outf]
                    corr_ds.append(("d2f", False, dt is np.uint8, L(x.astype(np.int64)), [d1, d2, f1, f2], vf))

    # ---- 3. decimation of a block -----------------------------------------------------------------
    for d1 in range(1, DMAX + 1):
        for d2 in range(1, DMAX + 1):
            for dname, dt in DTYPES:
                x = rand_int_array((d1, d2), dt)
                for f1 in range(1, d1 + 1):
                    for f2 in range(1, d2 + 1):
                        for method in METHODS:
                            exp = spec_ds2(x, f1, f2, method)
                            kindk = "int" if dt is np.uint8 else "float"
                            case = {"x": L(x), "shape": [d1, d2], "dtype": dname, "factors": [f1, f2], "method": method, "expected": L(exp)}
                            R.case(("ds2", d1, d2, f1, f2, dname, method), nontrivial=d1 * d2 >= 2, regime=f"downsample_2d/{method}",
                                   sample=dict(case, fn="downsample_2d") if (d1, d2, f1, f2, dname, method) == (3, 5, 2, 2, "uint8", "mean") else None)
                            try:
                                out = stats.downsample_2d(x, (f1, f2), method)
                                if not agrees(out, exp, dt):
                                    R.fail(f"downsample_2d-{method}-{kindk}", "entry (i, j) is not the aggregate of rows i f1.. and columns j f2..", dict(case, got=L(out), got_shape=list(out.shape)))
                            except Exception as e:  # noqa: BLE001
                                R.fail(f"downsample_2d-{method}-{kindk}", f"downsample_2d raised {type(e).__name__}: {e}", case)
                                out = None
                            R.case(("ds2f", d1, d2, f1, f2, dname, method), nontrivial=d1 * d2 >= 2, regime=f"downsample_2d_flat/{method}")
                            try:
                                outf = stats.downsample_2d_flat(x.ravel(), f1, f2, d1, d2, method)
                                if not agrees(outf, exp.ravel(), dt):
                                    R.fail(f"downsample_2d_flat-{method}-{kindk}", "flat entry k is not the aggregate of group (k // nd2, k % nd2)", dict(case, got=L(outf)))
                            except Exception as e:  # noqa: BLE001
                                R.fail(f"downsample_2d_flat-{method}-{kindk}", f"downsample_2d_flat raised {type(e).__name__}: {e}", case)
                                outf = None
                            if d1 <= 5 and d2 <= 5 and dname != "float32" and out is not None and outf is not None:
                                sc = (f1 * f2) if method == "mean" else 2
                                v2 = [int(round(float(v) * sc)) for v in out.ravel()]
                                if method == "mean" and dt is np.uint8:
                                    vf = [int(v) for v in outf]
                                else:
                                    vf = [int(round(float(v) * sc)) for v in outf]
                                corr_ds.append(("d2", method == "median", False, L(x.astype(np.int64)), [d1, d2, f1, f2], v2))
                                corr_ds.append(("d2f", method == "median", dt is np.uint8, L(x.astype(np.int64)), [d1, d2, f1, f2], vf))
                        if (f1 + f2) % 2 == 0:
                            outp = kernels.downsample_2d_mean_parallel(x.ravel(), f1, f2, d1, d2)
                            R.case(("k2p", d1, d2, f1, f2, dname), nontrivial=d1 * d2 >= 2, regime="kernel/downsample_2d_mean_parallel")
                            if not agrees(outp, spec_ds2(x, f1, f2, "mean").ravel(), dt):
                                R.fail("kernel-downsample_2d_mean_parallel", "parallel kernel differs from the group mean",
                                       {"x": L(x), "shape": [d1, d2], "dtype": dname, "factors": [f1, f2], "got": L(outp)})

    # a few larger non-square shapes (row / column roles), random factors
    for _ in range(12 if quick else 60):
        d1, d2 = rng.randrange(2, 40), rng.randrange(2, 90)
        f1, f2 = rng.randrange(1, d1 + 1), rng.randrange(1, d2 + 1)
        dname, dt = rng.choice(DTYPES)
        x = rand_int_array((d1, d2), dt)
        for method in METHODS:
            exp = spec_ds2(x, f1, f2, method)
            kindk = "int" if dt is np.uint8 else "float"
            R.case(("ds2L", d1, d2, f1, f2, dname, method), regime=f"downsample_2d/{method}/large")
            case = {"seed": R.seed, "shape": [d1, d2], "dtype": dname, "factors": [f1, f2], "method": method, "x": L(x)}
            if not agrees(stats.downsample_2d(x, (f1, f2), method), exp, dt):
                R.fail(f"downsample_2d-{method}-{kindk}", "entry (i, j) is not the aggregate of its group (large shape)", case)
            if not agrees(stats.downsample_2d_flat(x.ravel(), f1, f2, d1, d2, method), exp.ravel(), dt):
                R.fail(f"downsample_2d_flat-{method}-{kindk}", "flat entry is not the aggregate of its group (large shape)", case)

    # ---- 4. detrend --------------------------------------------------------------------------------
    def check_detrend(vals, dname, dt, key, what):
        x = np.asarray(vals).astype(dt)
        m = len(x)
        R.case(("det", m, dname, key, tuple(L(x)[:8])), nontrivial=m >= 2, regime=f"detrend/{dname}",
               sample={"fn": "detrend_1d", "x": L(x), "dtype": dname} if (m, dname) == (3, "float64") else None)
        case = {"x": L(x) if m <= 64 else f"{what}", "dtype": dname, "length": m}
        try:
            out = kernels.detrend_1d(x)
        except Exception as e:  # noqa: BLE001
            R.fail(key, f"detrend_1d raised {type(e).__name__}: {str(e)[:200]}", case)
            return None
        if out.shape != (m,):
            R.fail(key, "detrend_1d output length differs", dict(case, got_shape=list(out.shape)))
            return None
        if m <= 64:
            exp = np.array([float(v) for v in spec_detrend_exact(L(x))])
        else:
            i = np.arange(m, dtype=np.float64)
            xf = x.astype(np.float64)
            sl, ic = np.polyfit(i - i.mean(), xf, 1)
            exp = xf - (sl * (i - i.mean()) + ic)
        scale = max(1.0, float(np.abs(x.astype(np.float64)).max()))
        tol = (2e-5 if out.dtype == np.float32 else 1e-9) * scale * (1 if m <= 64 else 50)
        o = out.astype(np.float64)
        err = float(np.abs(o - exp).max())
        s0 = abs(float(o.sum())) / m
        s1 = abs(float((np.arange(m) * o).sum())) / (m * max(m - 1, 1))
        if err > tol or s0 > tol or s1 > tol:
            R.fail(key, "detrend_1d is not the least-squares residual (normal equations sum r = 0, sum i r = 0 violated)",
                   dict(case, got=L(out) if m <= 64 else L(out[:6]), expected=L(exp) if m <= 64 else L(exp[:6]),
                        max_abs_error=err, mean_residual=s0, mean_first_moment=s1, out_dtype=str(out.dtype)))
        return out

    for m in range(1, NMAX + 1):
        for dname, dt in DTYPES:
            vals = rand_int_array((m,), np.int64, kind=rng.choice(["uniform", "ramp"]))
            vals = vals % 200
            key = "detrend_1d-integer-dtype" if dt is np.uint8 else "detrend_1d-float"
            out = check_detrend(vals, dname, dt, key, "small")
            if out is not None and m <= 12:
                corr_det.append((dname, L(vals), out))
    for m in (255, 256, 257, 300, 65535, 65537):
        vals = (np.arange(m) * 3 + nprng.integers(0, 50, m)) % 251
        for dname, dt in DTYPES:
            check_detrend(vals, dname, dt, "detrend_1d-integer-dtype" if dt is np.uint8 else "detrend_1d-float", f"(3 i + noise) mod 251, length {m}")
    # lengths on both sides of the largest m for which m (m-1) (2m-1) fits int64 (1664511), and well beyond
    for m in (1664511, 1664512, 2097152 + 5) + (() if quick else (5000011,)):
        i = np.arange(m)
        vals = 0.5 * i + 3.0 + (i % 7)
        check_detrend(vals, "float64", np.float64, "detrend_1d-large-length", f"0.5 i + 3 + (i mod 7), length {m}")

    # ---- 5. TimeSeries / FilterbankBlock ---------------------------------------------------------------
    tsamp = 0.00032768   # w * tsamp / tsamp is not always exactly w in floating point: the conversion to bins must round

    def ts_of(x):
        h = Header(filename="c14.tim", data_type="time series", nchans=1, foff=-1.0, fch1=1500.0, nbits=32, tsamp=tsamp,
                   tstart=60000.0, nsamples=len(x))
        return TimeSeries(x, h)

    for n in list(range(1, 14)) + [rng.randrange(14, NMAX + 1) for _ in range(4)]:
        x = rand_int_array((n,), np.float32)
        ts = ts_of(x)
        for w in sorted(set(list(range(1, min(3 * n + 2, 16))) + [2 * n, 2 * n + 1, 3 * n + 1])):
            for method in METHODS:
                R.case(("dered", n, w, method), nontrivial=n >= 2, regime="deredden")
                exp = x.astype(np.float64) - spec_running(x, w, method)
                try:
                    out = guarded_method("TimeSeries.deredden", ts, f"deredden({method!r}, window={w} bins)", lambda: ts.deredden(method, window=w * tsamp).data)
                    if not agrees(out, exp):
                        R.fail(f"deredden-{method}", "de-reddened series is not the input minus its running filter",
                               {"x": L(x), "window_bins": w, "method": method, "got": L(out), "expected": L(exp)})
                except Exception as e:  # noqa: BLE001
                    R.fail(f"deredden-{method}", f"deredden raised {type(e).__name__}: {e}", {"x": L(x), "window_bins": w, "method": method})
        for f in range(1, n + 1):
            for method in METHODS:
                R.case(("tsds", n, f, method), nontrivial=n >= 2, regime="TimeSeries.downsample")
                try:
                    out = guarded_method("TimeSeries.downsample", ts, f"downsample({f}, {method!r})", lambda: ts.downsample(f, method).data)
                    if not agrees(out, spec_ds1(x, f, method)):
                        R.fail(f"timeseries-downsample-{method}", "TimeSeries.downsample is not the group aggregate",
                               {"x": L(x), "factor": f, "method": method, "got": L(out)})
                except Exception as e:  # noqa: BLE001
                    R.fail(f"timeseries-downsample-{method}", f"TimeSeries.downsample raised {type(e).__name__}: {e}", {"x": L(x), "factor": f})
    for nchans, nsamps in [(1, 1), (1, 5), (4, 1), (3, 7), (6, 4), (5, 9)] + [(rng.randrange(2, 12), rng.randrange(2, 30)) for _ in range(3)]:
        x = rand_int_array((nchans, nsamps), np.float32)
        hb = Header(filename="c14.fil", data_type="filterbank", nchans=nchans, foff=-1.0, fch1=1500.0, nbits=32, tsamp=tsamp,
                    tstart=60000.0, nsamples=nsamps)
        blk = FilterbankBlock(x, hb)
        for ff in range(1, nchans + 1):
            for tf in range(1, nsamps + 1):
                for method in METHODS:
                    R.case(("blk", nchans, nsamps, ff, tf, method), nontrivial=nchans * nsamps >= 2, regime="FilterbankBlock.downsample")
                    try:
                        out = guarded_method("FilterbankBlock.downsample", blk, f"downsample({ff}, {tf}, {method!r})", lambda: blk.downsample(ff, tf, method).data)
                        if not agrees(out, spec_ds2(x, ff, tf, method)):
                            R.fail(f"block-downsample-{method}", "FilterbankBlock.downsample is not the aggregate over ffactor channels x tfactor samples",
                                   {"x": L(x), "shape": [nchans, nsamps], "ffactor": ff, "tfactor": tf, "method": method, "got": L(out), "got_shape": list(out.shape)})
                    except Exception as e:  # noqa: BLE001
                        R.fail(f"block-downsample-{method}", f"FilterbankBlock.downsample raised {type(e).__name__}: {e}",
                               {"shape": [nchans, nsamps], "ffactor": ff, "tfactor": tf, "method": method})
                    if nchans <= 4 and nsamps <= 7 and method == "mean" and (ff, tf) != (1, 1):
                        corr_ds.append(("blk", False, False, L(x.astype(np.int64)), [nchans, nsamps, ff, tf],
                                        [int(round(float(v) * ff * tf)) for v in np.asarray(out).ravel()]))
    # ---- 6. histories on ONE object: every result must be the definition applied to the ORIGINAL data -------------------------
    def step_1d(x, x0, op):
        """run one operation on the (possibly already modified) array x; return (api, got, expected-from-x0, in dtype)"""
        kind = op[0]
        if kind == "ds1":
            _, f, method = op
            return "downsample_1d", stats_raw.downsample_1d(x, f, method), spec_ds1(x0, f, method), x0.dtype.type
        if kind == "k1":
            _, f = op
            return "kernels.downsample_1d_mean", kernels_raw.downsample_1d_mean(x, f), spec_ds1(x0, f, "mean"), x0.dtype.type
        if kind == "rf":
            _, w, method = op
            return "running_filter", stats_raw.running_filter(x, w, method), spec_running(x0, w, method), None
        _, = op
        out = kernels_raw.detrend_1d(x)
        exp = np.array([float(v) for v in spec_detrend_exact(L(x0))])
        return "detrend_1d", out, exp, None

    def run_history(x, ops, regime):
        x0 = x.copy()
        done = []
        for op in ops:
            R.case(("hist", regime, x0.dtype.name, len(x0), tuple(done), op), regime=regime)
            try:
                api, got, exp, indt = step_1d(x, x0, op)
            except Exception as e:  # noqa: BLE001
                R.fail(f"history-{op[0]}", f"raised {type(e).__name__} after earlier calls on the same array: {e}",
                       {"x": L(x0), "dtype": x0.dtype.name, "earlier_calls": done, "call": list(op)})
                return
            okv = agrees(got, exp, indt) if api != "detrend_1d" else (np.asarray(got).shape == exp.shape and bool(
                np.allclose(np.asarray(got, dtype=np.float64), exp, rtol=0, atol=(2e-5 if np.asarray(got).dtype == np.float32 else 1e-9) * 256)))
            if not okv:
                R.fail(f"history-{api}", f"{api} on an array that earlier calls were applied to is not the definition on the original data",
                       {"x": L(x0), "dtype": x0.dtype.name, "earlier_calls": [list(d) for d in done], "call": list(op),
                        "got": L(got), "expected": L(exp), "array_now": L(x), "array_changed": not same_bits(x, x0)})
                return
            done.append(op)

    for n in (5, 8, 13):
        for dname, dt in DTYPES:
            firsts = [("ds1", f, m) for f in range(1, n + 1) for m in METHODS] + [("rf", w, m) for w in (2, 3, n + 1) for m in METHODS]
            seconds = [("ds1", f, m) for f in range(1, n + 1) for m in METHODS] + [("k1", n // 2 + 1), ("rf", 4, "median"), ("det",)]
            for a in firsts:
                for b in seconds:
                    if a != b:
                        run_history(rand_int_array((n,), dt, kind="uniform"), [a, b], "history/pairs")
    for _ in range(60 if quick else 400):
        dname, dt = rng.choice(DTYPES)
        n = rng.randrange(2, NMAX + 1)
        ops = []
        for _k in range(rng.randrange(3, 6)):
            c = rng.choice(["ds1", "ds1", "ds1", "k1", "rf", "det"])
            ops.append({"ds1": ("ds1", rng.randrange(1, n + 1), rng.choice(METHODS)), "k1": ("k1", rng.randrange(1, n + 1)),
                        "rf": ("rf", rng.randrange(1, 3 * n + 2), rng.choice(METHODS)), "det": ("det",)}[c])
        run_history(rand_int_array((n,), dt, kind="uniform"), ops, "history/random")
    # the same TimeSeries decimated / de-reddened several times
    for _ in range(25 if quick else 120):
        n = rng.randrange(2, NMAX + 1)
        x0 = rand_int_array((n,), np.float32, kind="uniform")
        ts = ts_of(x0.copy())
        done = []
        for _k in range(4):
            if rng.random() < 0.7:
                f, method = rng.randrange(1, n + 1), rng.choice(METHODS)
                op, api = ["downsample", f, method], "TimeSeries.downsample"
                got, exp = ts.downsample(f, method).data, spec_ds1(x0, f, method)
            else:
                w, method = rng.randrange(1, 2 * n + 2), rng.choice(METHODS)
                op, api = ["deredden", w, method], "TimeSeries.deredden"
                got, exp = ts.deredden(method, window=w * tsamp).data, x0.astype(np.float64) - spec_running(x0, w, method)
            R.case(("hist-ts", n, tuple(map(tuple, done)), tuple(op)), regime="history/TimeSeries")
            if not agrees(got, exp):
                R.fail(f"history-{api}", f"{api} of a TimeSeries that was decimated / de-reddened before is not the definition on its original data",
                       {"x": L(x0), "earlier_calls": done, "call": op, "got": L(got), "expected": L(exp), "data_now": L(ts.data),
                        "data_changed": not same_bits(ts.data, x0)})
                break
            done.append(op)
    # the same block / the same 2-D array decimated several times
    for _ in range(20 if quick else 100):
        d1, d2 = rng.randrange(1, 9), rng.randrange(2, 14)
        dname, dt = rng.choice(DTYPES)
        x0 = rand_int_array((d1, d2), dt, kind="uniform")
        x = x0.copy()
        xb = x0.astype(np.float32)
        blk = FilterbankBlock(xb.copy(), Header(filename="c14.fil", data_type="filterbank", nchans=d1, foff=-1.0, fch1=1500.0, nbits=32,
                                                tsamp=tsamp, tstart=60000.0, nsamples=d2))
        done = []
        for _k in range(4):
            f1, f2, method = rng.randrange(1, d1 + 1), rng.randrange(1, d2 + 1), rng.choice(METHODS)
            which = rng.choice(["downsample_2d", "downsample_2d_flat", "FilterbankBlock.downsample"])
            exp = spec_ds2(x0, f1, f2, method)
            if which == "downsample_2d":
                got, okv = stats_raw.downsample_2d(x, (f1, f2), method), None
            elif which == "downsample_2d_flat":
                got, exp = stats_raw.downsample_2d_flat(x.reshape(-1), f1, f2, d1, d2, method), exp.ravel()
            else:
                got = blk.downsample(f1, f2, method).data
            R.case(("hist-2d", d1, d2, dname, tuple(map(tuple, done)), which, f1, f2, method), regime="history/2-D")
            if not agrees(got, exp, None if which == "FilterbankBlock.downsample" else dt):
                R.fail(f"history-{which}", f"{which} on data that was decimated before is not the definition on the original data",
                       {"x": L(x0), "shape": [d1, d2], "dtype": dname, "earlier_calls": done, "call": [which, f1, f2, method],
                        "got": L(got), "expected": L(exp), "array_changed": not (same_bits(x, x0) and same_bits(blk.data, xb))})
                break
            done.append([which, f1, f2, method])

    R.extra_cov["assumption_checks_failed"] = assumption_bad

    # ---- 7. correspondence: executable model under vm_compute versus the implementation ---------------------------------
    if not proved and not R.need(["Model/C14_filters.vo", "Model/C14_pinned.vo"]):
        return R        # the models themselves no longer build (translator refused / Gen changed shape): reported above
    import gen_c14
    gtxt, gerrs = gen_c14.gen_c14(vlib.REPO)
    uses_cast = "detrend_1d_uses_input_dtype_cast : bool := true" in gtxt
    HEAD = ("From Coq Require Import ZArith QArith Qabs List Bool.\n"
            "Require Import SPP.Base.Rt SPP.Gen.Kernels SPP.Gen.C14_stats SPP.Model.C14_filters SPP.Model.C14_pinned.\n"
            "Import ListNotations.\nOpen Scope Z_scope.\n")
    TAIL = ("Definition idx := map fst (filter (fun p => negb (ok (snd p))) (combine (seq 0 (length cases)) cases)).\n"
            "Eval vm_compute in (length cases, idx).\n")

    def bb(v):
        return "true" if v else "false"

    def run_shards(name, cases, render, okdef, per=400):
        rng.shuffle(cases)
        cases = cases[: (per * 3 if quick else per * 10)]
        total = 0
        for si in range(0, len(cases), per):
            sh = cases[si:si + per]
            txt = HEAD + okdef + "Definition cases := [\n" + ";\n".join(render(c) for c in sh) + "\n].\n" + TAIL
            rc, out = vlib.coq_run(f"c14_{name}_{si // per}", txt, timeout=400)
            vals = vlib.parse_eval(out)
            if rc != 0 or not vals:
                R.red.append(f"correspondence: Corr/c14_{name} did not evaluate: " + out[-500:])
                continue
            nums = [int(v) for v in re.findall(r"(\d+)%nat", vals[0])]
            total += nums[0] if nums else 0
            for bi in nums[1:][:5]:
                R.disagree(f"model and implementation differ ({name})", {"case": repr(sh[bi])[:1500]})
        R.extra_cov["traces_validated_against_impl"] = R.extra_cov.get("traces_validated_against_impl", 0) + total
        return total

    ok_rf = ("Definition ok (c : list Z * Z * bool * list Z) : bool :=\n"
             "  let '(x, w, med, out) := c in let n := Z.of_nat (length x) in\n"
             "  let agg := if med then med2 else sumZ in\n"
             "  list_eqb (to_list (running_filter_len n w) (running_filter_model (move_trailing agg) (of_list x) n w)) out.\n")
    run_shards("rf", corr_rf, lambda c: f"({vlib.zlist(c[0])}, {c[1]}, {bb(c[2])}, {vlib.zlist(c[3])})", ok_rf)

    ok_ds = ("Definition junk : arr := fun _ => -7.\n"
             "Definition nthz (l : list Z) (k : nat) := nth k l 0.\n"
             "Definition ok (c : Z * bool * bool * list Z * list Z * list Z) : bool :=\n"
             "  let '(kind, med, u8, x, p, out) := c in\n"
             "  let dc := if u8 then divcast_u8 else divcast_num in\n"
             "  let agg := if med then med2 else sumZ in\n"
             "  let nout := Z.of_nat (length out) in\n"
             "  if kind =? 1 then  (* downsample_1d *)\n"
             "    let n := Z.of_nat (length x) in let f := nthz p 0 in\n"
             "    if med then (ds1_median_len n f =? nout) && list_eqb (to_list nout (ds1_median_model agg (of_list x) n f)) out\n"
             "    else negb (ds1_rejects n f) && list_eqb (to_list (nout + 2) (ds1_mean_call dc n junk (of_list x) f)) (out ++ [-7; -7])\n"
             "  else let d1 := nthz p 0 in let d2 := nthz p 1 in let f1 := nthz p 2 in let f2 := nthz p 3 in\n"
             "  if kind =? 2 then  (* downsample_2d *)\n"
             "    let '(s0, _, s2, _) := ds2_shape d1 d2 f1 f2 in\n"
             "    (s0 * s2 =? nout) && list_eqb (map (fun k => ds2_model agg (of_list x) d1 d2 f1 f2 (k / s2) (k mod s2)) (zrange nout)) out\n"
             "  else if kind =? 3 then  (* downsample_2d_flat *)\n"
             "    if med then list_eqb (to_list nout (ds2f_median_model agg (of_list x) f1 f2 d1 d2)) out\n"
             "    else negb (ds2f_rejects (Z.of_nat (length x)) f1 f2 d1 d2) && list_eqb (to_list (nout + 2) (ds2f_mean_call dc junk (of_list x) f1 f2 d1 d2)) (out ++ [-7; -7])\n"
             "  else  (* FilterbankBlock.downsample, (nchans, nsamps, ffactor, tfactor) *)\n"
             "    let s2 := d2 / f2 in list_eqb (map (fun k => block_downsample_model sumZ (of_list x) d1 d2 f1 f2 (k / s2) (k mod s2)) (zrange nout)) out.\n")
    kinds = {"d1": 1, "d2": 2, "d2f": 3, "blk": 4}
    run_shards("ds", corr_ds, lambda c: f"({kinds[c[0]]}, {bb(c[1])}, {bb(c[2])}, {vlib.zlist(c[3])}, {vlib.zlist(c[4])}, {vlib.zlist(c[5])})", ok_ds)

    def q(v):
        fr = Fraction(float(v))
        return f"({fr.numerator} # {fr.denominator})"
    cast_arg = {True: "cast_u8 ", False: "(fun q => q) "}
    ok_det = ("Open Scope Q_scope.\n"
              "Definition close (u8 : bool) (a b : Q) : bool :=\n"
              "  if u8 then let d := Qabs (a - b) in Qle_bool d 1 || Qle_bool 255 d else Qle_bool (Qabs (a - b)) (1 # 1000).\n"
              "Definition ok (c : bool * list Z * list Q) : bool :=\n"
              "  let '(u8, x, out) := c in let m := Z.of_nat (length x) in\n"
              "  let r := detrend_1d_run " + ("(if u8 then cast_u8 else (fun q => q)) " if uses_cast else "") + "m (fun k => inject_Z (nth (Z.to_nat k) x 0%Z)) in\n"
              "  forallb (fun k => close " + ("u8" if uses_cast else "false") + " (r k) (nth (Z.to_nat k) out 0)) (zrange m).\n"
              "Close Scope Q_scope.\n")
    run_shards("det", corr_det, lambda c: f"({bb(c[0] == 'uint8')}, {vlib.zlist(c[1])}, [" + "; ".join(q(v) for v in c[2]) + "]%Q)", ok_det, per=200)
    R.extra_cov["correspondence_cases"] = len(corr_rf) + len(corr_ds) + len(corr_det)
    R.extra_cov["detrend_model_has_input_dtype_cast"] = uses_cast
    return R
