"""bin/check <ID> [--tier quick|thorough] [--replay file]  -- verdict logic of DESIGN.md 2.4"""
import argparse
import importlib
import os
import sys

sys.path.insert(0, os.path.dirname(__file__))
import vlib


def main():
    ap = argparse.ArgumentParser()
    ap.add_argument("pid")
    ap.add_argument("--tier", default=os.environ.get("VERIF_TIER", "quick"))
    ap.add_argument("--replay", default=None)
    a = ap.parse_args()
    seed = int(os.environ.get("VERIF_SEED", "0") or 0)
    tier = a.tier if a.tier in ("quick", "thorough") else "quick"
    if a.pid != "C19":
        try:   # tiny arrays: more threads only spin
            import numba
            numba.set_num_threads(int(os.environ.get("VERIF_NUMBA_THREADS", "2")))
        except Exception:
            pass
    mod = importlib.import_module(f"props.{a.pid.lower()}")
    R = vlib.Run(a.pid, tier, seed, replay=a.replay)
    import threading
    threading.Thread(target=vlib._hard_watchdog, daemon=True).start()
    try:
        mod.run(R)
        # at-scale search: whenever something no longer checks and no small failing input was found; always in the thorough tier
        import pins
        changed = pins.tree_changed(vlib.REPO)      # any byte of the library differs from the tree the pins were taken from (no alarm by itself)
        if changed:
            R.notes.append("library sources differ from the pinned tree")
        if hasattr(mod, "scale") and (tier == "thorough" or os.environ.get("VERIF_SCALE") == "1"
                                      or (((R.red or R.disagreements) or changed) and not R.failures)):
            R.notes.append("at-scale search run")
            mod.scale(R)
    except vlib.Hang:   # the implementation never came back from a call: a finding with the last case as its replay
        vlib.watch_disarm()
        R.fail("implementation-hang", f"an implementation call did not return within {R.case_budget:.0f} s (per-case budget)",
               {"last_case": R.last_key})
    except Exception as e:  # a crash of the harness is a red check, never a silent pass
        import traceback
        vlib.watch_disarm()
        frames = traceback.extract_tb(e.__traceback__)
        in_impl = [f for f in frames if os.path.realpath(f.filename).startswith(os.path.realpath(vlib.REPO) + os.sep)]
        if in_impl and R.last_key is not None:
            # the exception came out of the implementation, on a call the harness did not expect to fail: a finding, with the last
            # case announced (R.case / R.tick) as its replay
            R.fail("implementation-exception", f"an implementation call raised {type(e).__name__}: {str(e)[:200]} "
                   f"(at {os.path.relpath(in_impl[-1].filename, vlib.REPO)}:{in_impl[-1].lineno} in {in_impl[-1].name})", {"last_case": R.last_key})
        R.red.append("harness: " + "".join(traceback.format_exception_only(type(e), e)).strip()[:500])
        traceback.print_exc()
    sys.exit(R.finish())


if __name__ == "__main__":
    main()
