"""helpers to synthesise SIGPROC filterbank files for the checks"""
import os
import numpy as np


def dtype_for(nbits):
    return {1: np.uint8, 2: np.uint8, 4: np.uint8, 8: np.uint8, 16: np.uint16, 32: np.float32}[nbits]


def write_fil(path, data, nbits, fch1=1500.0, foff=-1.0, tsamp=0.001, tstart=60000.0, **kw):
    """data: (nsamps, nchans) integer-valued array; written at depth nbits (values must be representable)"""
    from sigpyproc.header import Header
    nsamps, nchans = data.shape
    hdr = Header(filename=os.path.basename(path), data_type="filterbank", nchans=nchans, foff=foff, fch1=fch1,
                 nbits=nbits, tsamp=tsamp, tstart=tstart, nsamples=nsamps, **kw)
    w = hdr.prep_outfile(path)
    w.cwrite(np.ascontiguousarray(data).astype(dtype_for(nbits)).ravel())
    w.close()
    return path


def write_fil_set(base, data, nbits, splits, tsamp=0.001, tstart=60000.0, vary_header=False, **kw):
    """split data (nsamps, nchans) into contiguous files at sample indices `splits`; returns the list of paths.
    vary_header: give every file a `rawdatafile` of a different length, so that the headers of the set differ in byte length"""
    bounds = [0] + list(splits) + [data.shape[0]]
    paths = []
    for i in range(len(bounds) - 1):
        a, b = bounds[i], bounds[i + 1]
        p = f"{base}_{i}.fil"
        extra = dict(kw, rawdatafile="r" * (3 + 7 * i)) if vary_header else kw
        write_fil(p, data[a:b], nbits, tsamp=tsamp, tstart=tstart + a * tsamp / 86400.0, **extra)
        paths.append(p)
    return paths
