"""Re-confirm stored seeded changes on the CURRENT /repo HEAD, several at a time, without touching /repo's working tree.

usage: tools/seedrecheck.py [-j N] [--suite] [ids ...]          (default: every directory under /verif/seeded)

For each seed: a scratch worktree /tmp/reseed-<id> of /repo HEAD with seeded/<id>/patch.diff applied; seeded/<id>/demo.py must exit 1
there and 0 on the pristine worktree /tmp/reseed-base; `VERIF_REPO=<worktree> bin/check <property>` must exit 1 with a VIOLATION line.
With --suite the existing test suite is run on the changed worktree as well.  The result is stored in seeded/<id>/meta.json under
"recheck" (the first confirmation, made by tools/seedcheck.py through `git -C /repo apply`, stays in the other fields).  Worktrees, Coq
mirrors and numba caches are removed afterwards.
"""
import json
import os
import re
import shutil
import subprocess
import sys
import time
from concurrent.futures import ThreadPoolExecutor

ENV = dict(os.environ, PYTHONHASHSEED="0", NUMBA_NUM_THREADS="4", TERM="dumb")
SEEDED = "/verif/seeded"
BASE = "/tmp/reseed-base"


def sh(cmd, cwd=None, env=None, timeout=3600):
    try:
        p = subprocess.run(cmd, shell=True, cwd=cwd, env=env or ENV, capture_output=True, text=True, timeout=timeout)
        return p.returncode, p.stdout + p.stderr
    except subprocess.TimeoutExpired as e:
        return 124, f"timeout after {timeout}s: {e}"


def worktree(path):
    sh(f"git -C /repo worktree remove --force {path}")
    shutil.rmtree(path, ignore_errors=True)
    rc, o = sh(f"git -C /repo worktree add -q --detach {path} HEAD")
    assert rc == 0, o
    shutil.copytree("/repo/sigpyproc.egg-info", f"{path}/sigpyproc.egg-info", dirs_exist_ok=True)


def drop(path):
    sh(f"git -C /repo worktree remove --force {path}")
    shutil.rmtree(path, ignore_errors=True)
    name = os.path.basename(path)
    shutil.rmtree(f"/root/.cache/verif-alt/{name}", ignore_errors=True)
    shutil.rmtree(f"/root/.cache/verif-numba-alt/{name}", ignore_errors=True)
    shutil.rmtree(f"/root/.cache/numba-reseed-{name}", ignore_errors=True)


def one(sid, head, suite):
    pid = sid.split("-")[0]
    sd = f"{SEEDED}/{sid}"
    wt = f"/tmp/reseed-{sid}"
    res = {"head": head, "at": time.strftime("%Y-%m-%d %H:%M:%S")}
    try:
        worktree(wt)
        rc, o = sh(f"git apply {sd}/patch.diff", cwd=wt)
        res["applies"] = rc == 0
        if rc != 0:
            res["error"] = o[-300:]
            return sid, res
        envw = dict(ENV, PYTHONPATH=wt, NUMBA_CACHE_DIR=f"/root/.cache/numba-reseed-reseed-{sid}")
        envb = dict(ENV, PYTHONPATH=BASE, NUMBA_CACHE_DIR="/root/.cache/numba-reseed-reseed-base")
        scratch = f"/tmp/reseed-demo-{sid}"
        shutil.rmtree(scratch, ignore_errors=True)
        os.makedirs(scratch)
        rcw, ow = sh(f"/venv/bin/python -W ignore {sd}/demo.py", cwd=scratch, env=envw, timeout=1500)
        rcb, ob = sh(f"/venv/bin/python -W ignore {sd}/demo.py", cwd=scratch, env=envb, timeout=1500)
        shutil.rmtree(scratch, ignore_errors=True)
        res["demo_exit_with_change"], res["demo_exit_without_change"] = rcw, rcb
        if suite:
            rc, o = sh("/venv/bin/python -m pytest -q -p no:cacheprovider --timeout=900 --deselect tests/test_utils.py::TestPaths::test_permission_validation "
                       "--deselect tests/test_utils.py::TestPaths::test_read_permission 2>&1 | tail -4", cwd=wt, env=envw, timeout=3000)
            m = re.search(r"(\d+) passed", o)
            res["suite_passed"] = int(m.group(1)) if m else 0
            res["suite_ok"] = bool(m) and " failed" not in o and " error" not in o
        t0 = time.time()
        rc, o = sh(f"VERIF_REPO={wt} timeout 3000 /verif/bin/check {pid}", cwd="/verif", timeout=3200)
        res["check_exit"] = rc
        res["violation_line"] = next((ln for ln in o.splitlines() if ln.startswith("VIOLATION")), "")
        res["failing_classes"] = next((ln.strip() for ln in o.splitlines() if "failing classes" in ln), "")[:600]
        res["summary"] = next((ln for ln in o.splitlines() if ln.startswith(pid + ":")), "")
        res["wall_s"] = round(time.time() - t0, 1)
        res["caught"] = rc == 1 and bool(res["violation_line"])
        res["concrete_input"] = res["caught"] and "no-failing-input-found" not in res["violation_line"]
        res["confirmed"] = rcw == 1 and rcb == 0 and (not suite or res.get("suite_ok", False))
    except Exception as e:  # noqa: BLE001
        res["error"] = f"{type(e).__name__}: {e}"
    finally:
        drop(wt)
    return sid, res


def main():
    args = sys.argv[1:]
    jobs, suite, ids = 4, False, []
    i = 0
    while i < len(args):
        if args[i] == "-j":
            jobs = int(args[i + 1]); i += 2
        elif args[i] == "--suite":
            suite = True; i += 1
        else:
            ids.append(args[i]); i += 1
    if not ids:
        ids = sorted(d for d in os.listdir(SEEDED) if os.path.isdir(f"{SEEDED}/{d}"))
    rc, st = sh("git -C /repo status --porcelain --untracked-files=no")
    assert st.strip() == "", "the working tree of /repo is not clean:\n" + st
    head = sh("git -C /repo rev-parse --short HEAD")[1].strip()
    worktree(BASE)
    bad = []
    try:
        with ThreadPoolExecutor(jobs) as ex:
            for sid, res in ex.map(lambda s: one(s, head, suite), ids):
                mp = f"{SEEDED}/{sid}/meta.json"
                meta = json.load(open(mp))
                meta["recheck"] = res
                json.dump(meta, open(mp, "w"), indent=1)
                ok = res.get("confirmed") and res.get("caught")
                print(sid, "confirmed" if res.get("confirmed") else "NOT-CONFIRMED", "caught" if res.get("caught") else "MISSED",
                      "concrete" if res.get("concrete_input") else "no-input", res.get("failing_classes", "")[:150], res.get("error", ""), flush=True)
                if not ok:
                    bad.append(sid)
    finally:
        drop(BASE)
    print("rechecked", len(ids), "not ok:", bad)


if __name__ == "__main__":
    main()
