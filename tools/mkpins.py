"""Regenerate /verif/pins.json: for every property, the functions its anchors name, with a digest of their source at /repo HEAD.

usage: python3 tools/mkpins.py            (run by the maintainer of /verif after a legitimate change of /repo, e.g. a fix: commit)

The anchors of properties.jsonl give file:line ranges at the pinned commit; they are mapped to function qualnames there and the
digests are taken from the same qualnames in the current tree.  mode "deco": only the decorators (numba signature / options) and
the parameter list are pinned -- used for kernels whose body is regenerated into coq/Gen by a translator; mode "full": the whole
function (docstring and comments excluded) -- used for code that is hand-modelled and tied by the correspondence run only.
"""
import ast
import glob
import json
import os
import re
import subprocess
import sys

sys.path.insert(0, os.path.join(os.path.dirname(os.path.abspath(__file__)), "harness"))
import pins as P

BASE = "fc376ec"


def functions(src):
    out = []
    def walk(node, prefix):
        for ch in ast.iter_child_nodes(node):
            if isinstance(ch, (ast.FunctionDef, ast.AsyncFunctionDef)):
                lo = min([ch.lineno] + [d.lineno for d in ch.decorator_list])
                out.append((prefix + ch.name, lo, ch.end_lineno))
                walk(ch, prefix + ch.name + ".")
            elif isinstance(ch, ast.ClassDef):
                walk(ch, prefix + ch.name + ".")
    walk(ast.parse(src), "")
    return out


def main():
    gen_text = "\n".join(open(f).read() for f in glob.glob("/verif/coq/Gen/*.v"))
    props = [json.loads(l) for l in open("/verif/properties.jsonl")]
    table = {}
    for p in props:
        names = []
        for m in p["anchors"]["mechanism"]:
            for part in m["where"].split(","):
                mm = re.match(r"\s*(?:(\S+\.py):)?([\d\-, ]+)", part.strip())
                if not mm:
                    continue
                if mm.group(1):
                    cur = mm.group(1)
                for rng in mm.group(2).split(","):
                    rng = rng.strip()
                    if not rng:
                        continue
                    lo, hi = (rng.split("-") + [rng])[:2]
                    lo, hi = int(lo), int(hi)
                    src = subprocess.run(["git", "-C", "/repo", "show", f"{BASE}:{cur}"], capture_output=True, text=True).stdout
                    fns = functions(src)
                    hit = [f for f in fns if f[1] <= hi and f[2] >= lo]
                    # innermost only
                    hit = [f for f in hit if not any(g[0].startswith(f[0] + ".") for g in hit)]
                    for f in hit:
                        names.append((cur, f[0]))
        names += P.EXTRA.get(p["id"], [])
        seen, entries = set(), []
        for fpath, q in names:
            if (fpath, q) in seen or (fpath, q) in P.SKIP.get(p["id"], []):
                continue
            seen.add((fpath, q))
            translated = fpath.endswith("core/kernels.py") and re.search(r"\b" + re.escape(q) + r"(_run|_body|_iter)?\b", gen_text) is not None
            mode = "deco" if translated else "full"
            mode = P.MODE.get((fpath, q), mode)
            try:
                head_src = subprocess.run(["git", "-C", "/repo", "show", f"HEAD:{fpath}"], capture_output=True, text=True).stdout
                h = P.digest("/repo", fpath, q, mode, src=head_src)   # the committed HEAD, whatever the working tree holds
            except KeyError as e:
                print("  not found at HEAD:", fpath, q, e)
                continue
            entries.append({"file": fpath, "function": q, "mode": mode, "sha": h})
        table[p["id"]] = entries
        print(p["id"], len(entries), "pinned:", ", ".join(f"{e['function']}[{e['mode'][0]}]" for e in entries))
    json.dump({"base": subprocess.run(["git", "-C", "/repo", "rev-parse", "HEAD"], capture_output=True, text=True).stdout.strip(), "pins": table},
              open("/verif/pins.json", "w"), indent=1)


if __name__ == "__main__":
    main()
